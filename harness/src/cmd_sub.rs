//! C14: Ontology::sub_ontology against spec/HpoSub.tla.  TLC emits, for every small source
//! ontology (with / without the documented defaults), root and leaf set, whether the call must be
//! refused and otherwise the SET of allowed results (one per choice of shortest chains) with their
//! full projection.  The harness builds the source through the Builder and through a binary file
//! carrying obsolete / replacement flags, calls sub_ontology (leaves as given; reversed with
//! duplicates) and requires the reply to be the error, or one of the allowed results - compared
//! through the whole read API - with every leaf at its original distance from the root.
use crate::paths::*;
use crate::project::*;
use crate::scenario::*;
use crate::util::*;
use hpo::{HpoTerm, Ontology};
use serde_json::{json, Value};

const LAYOUTS: [[u32; 3]; 3] = [[2, 3, 4], [9_999_999, 0, 500], [50, 7_000_000, 117]];

fn map_id(layout: usize, m: u32) -> u32 {
    match m {
        1 | 118 => m,
        2..=4 => LAYOUTS[layout][(m - 2) as usize],
        _ => m,
    }
}

fn conc_for(layout: usize, ids: &[u32]) -> Concretisation {
    Concretisation { name: format!("layout{layout}"), map: ids.iter().map(|m| (*m, map_id(layout, *m))).collect() }
}

fn source(line: &Value, conc: &Concretisation, flags: bool) -> Scenario {
    let mut s = Scenario::default();
    s.version = (2024, 1, 2);
    let ids = u32_list(&line["ids"]);
    for (i, m) in ids.iter().enumerate() {
        let id = conc.get(*m);
        // flags: the third id obsolete and replaced by the second, the last id obsolete and replaced by an id outside the ontology
        let (obsolete, repl) = if !flags {
            (false, None)
        } else if i == 2 {
            (true, Some(conc.get(ids[1])))
        } else if i + 1 == ids.len() {
            // obsolete, replaced by a term that is NOT part of the source ontology: the id is copied as it is
            (true, Some(7_777_777))
        } else {
            (false, None)
        };
        // names are copied verbatim: the second layout uses names beyond the 255 bytes a binary file can hold
        // (a source that itself comes from a binary file - flags - can only have up to 255 bytes)
        let name = if conc.name != "layout1" {
            format!("T{id}")
        } else if flags {
            format!("T{id} {}", "é".repeat(120))
        } else {
            format!("T{id} {} end", "é".repeat(150))
        };
        s.terms.push(TermSpec { id, name, obsolete, repl });
    }
    for e in arr(&line["edges"]) {
        s.edges.push((conc.get(as_u32(&e[0])), conc.get(as_u32(&e[1]))));
    }
    for k in KINDS {
        for r in arr(&line[k.name()]) {
            let x = as_u32(&r["id"]);
            let name = if conc.name == "layout1" && !flags { format!("{}{}#{} {}", k.name(), x, x, "ü".repeat(140)) } else { format!("{}{}#{}", k.name(), x, x) };
            let hpos = u32_list(&r["hpos"]);
            if hpos.is_empty() {
                s.facts.push(Fact { kind: k, x, name: name.clone(), term: None });
            }
            for t in hpos {
                s.facts.push(Fact { kind: k, x, name: name.clone(), term: Some(conc.get(t)) });
            }
        }
    }
    s
}

fn call(ont: &Ontology, root: u32, leaves: &[u32]) -> Result<Result<Ontology, String>, String> {
    catch(|| {
        let r = ont.hpo(root).expect("root term");
        let ls: Vec<HpoTerm> = leaves.iter().map(|l| ont.hpo(*l).expect("leaf term")).collect();
        ont.sub_ontology(r, ls).map_err(|e| e.to_string())
    })
}

/// C01 on a sub-ontology, stated intrinsically: the reported ancestors are the transitive closure of the reported direct parents,
/// never the term itself; children are the inverse of parents; child_of / parent_of are membership in that closure.
pub fn closure_laws(sub: &Ontology) -> Vec<String> {
    use hpo::annotations::AnnotationId;
    use std::collections::{BTreeMap, BTreeSet};
    let mut d = vec![];
    let terms: Vec<HpoTerm> = sub.iter().collect();
    let present: BTreeSet<u32> = terms.iter().map(|t| t.id().as_u32()).collect();
    let parents: BTreeMap<u32, BTreeSet<u32>> = terms.iter().map(|t| (t.id().as_u32(), t.parent_ids().iter().map(|x| x.as_u32()).collect())).collect();
    let mut closure: BTreeMap<u32, BTreeSet<u32>> = BTreeMap::new();
    for id in &present {
        let mut seen: BTreeSet<u32> = BTreeSet::new();
        let mut todo: Vec<u32> = parents[id].iter().copied().collect();
        while let Some(x) = todo.pop() {
            if seen.insert(x) {
                if let Some(ps) = parents.get(&x) {
                    todo.extend(ps.iter().copied());
                }
            }
        }
        closure.insert(*id, seen);
    }
    for t in &terms {
        let id = t.id().as_u32();
        let all: BTreeSet<u32> = t.all_parent_ids().iter().map(|x| x.as_u32()).collect();
        if all != closure[&id] {
            d.push(format!("term {id}: all_parent_ids() = {:?}, but the transitive closure of the direct parents {:?} is {:?}", all, parents[&id], closure[&id]));
        }
        let by_iter: BTreeSet<u32> = t.all_parents().map(|x| x.id().as_u32()).collect();
        if by_iter != closure[&id] {
            d.push(format!("term {id}: all_parents() iterates {:?}, closure of the direct parents is {:?}", by_iter, closure[&id]));
        }
        if let Some(x) = parents[&id].iter().find(|x| !present.contains(x)) {
            d.push(format!("term {id}: direct parent {x} is not a term of the sub-ontology"));
        }
        let kids: BTreeSet<u32> = t.children_ids().iter().map(|x| x.as_u32()).collect();
        let inv: BTreeSet<u32> = present.iter().copied().filter(|c| parents[c].contains(&id)).collect();
        if kids != inv {
            d.push(format!("term {id}: children {:?}, but the terms naming it as parent are {:?}", kids, inv));
        }
        for o in &terms {
            let oid = o.id().as_u32();
            let want = closure[&id].contains(&oid);
            if t.child_of(o) != want || o.parent_of(t) != want {
                d.push(format!("child_of({id}, {oid}) = {}, parent_of({oid}, {id}) = {}, closure membership = {want}", t.child_of(o), o.parent_of(t)));
            }
        }
        if d.len() > 8 {
            break;
        }
    }
    d
}

/// `--laws-only 1` (the C01 run): only the intrinsic closure laws are demanded of the result, whichever allowed result it is;
/// `--laws-only 2` / `3` (the C02 / C03 runs): the result is compared with the specification's expectation for the retained term set
/// it chose, but only in the annotation links / the information content (what is retained is C14's business)
pub static NESTED_CALLS: std::sync::atomic::AtomicUsize = std::sync::atomic::AtomicUsize::new(0);
pub static LAWS_ONLY: std::sync::atomic::AtomicU8 = std::sync::atomic::AtomicU8::new(0);

/// the result `sub` against ONE allowed result of the specification (`a` = {terms, proj}): names / flags copied from the source scenario
fn compare_allowed(sub: &Ontology, a: &Value, scn: &Scenario, conc: &Concretisation, focus: &[Focus]) -> Vec<String> {
    let synth = json!({"arena": a["terms"], "edges": [], "facts": [], "expect": a["proj"]});
    let (_, mut exp) = from_tlc(&synth, conc);
    exp.order = None;
    for t in &scn.terms {
        if let Some(e) = exp.terms.get_mut(&t.id) {
            e.obsolete = t.obsolete;
            e.repl = t.repl;
            e.name = t.name.clone();
        }
    }
    // record names: the name the source was given (first name wins; every fact of a record carries the same name here)
    for (k, kind) in KINDS.iter().enumerate() {
        for (x, r) in exp.recs[k].iter_mut() {
            if let Some(f) = scn.facts.iter().find(|f| f.kind == *kind && f.x == *x) {
                r.name = f.name.clone();
            }
        }
    }
    match catch(|| compare(sub, &exp, focus)) {
        Ok(diffs) => diffs.into_iter().filter(|x| !x.starts_with("hpo_version")).collect(),
        Err(p) => vec![format!("reading the sub-ontology panicked: {p}")],
    }
}

fn sorted_ids(o: &Ontology) -> Result<Vec<u32>, String> {
    catch(|| {
        let mut v: Vec<u32> = o.iter().map(|t| hpo::annotations::AnnotationId::as_u32(&t.id())).collect();
        v.sort_unstable();
        v
    })
}

/// C14 on a sub-ontology OF a sub-ontology: the call chained on its own result (same root; the specification's nested leaf sets).
/// The source of the second call is the first result, which has no modifier roots.
fn check_nested(what: &str, src: &Ontology, sub: &Ontology, a: &Value, scn: &Scenario, conc: &Concretisation, root: u32, d: &mut Vec<String>) {
    for n in arr(&a["nested"]) {
        let leaves2: Vec<u32> = u32_list(&n["leaves"]).into_iter().map(|m| conc.get(m)).collect();
        let sub2 = match call(sub, root, &leaves2) {
            Err(p) => {
                d.push(format!("{what}: chained sub_ontology({root}, {:?}) on the first result panicked: {p}", leaves2));
                continue;
            }
            Ok(Err(e)) => {
                d.push(format!("{what}: chained sub_ontology({root}, {:?}) on the first result failed ({e}) although root and leaves are retained", leaves2));
                continue;
            }
            Ok(Ok(s)) => s,
        };
        let got = match sorted_ids(&sub2) {
            Ok(v) => v,
            Err(p) => {
                d.push(format!("{what}: iterating the chained sub-ontology panicked: {p}"));
                continue;
            }
        };
        let allowed = arr(&n["allowed"]);
        let hit = allowed.iter().find(|b| {
            let mut t: Vec<u32> = u32_list(&b["terms"]).into_iter().map(|m| conc.get(m)).collect();
            t.sort_unstable();
            t == got
        });
        let Some(b) = hit else {
            let all: Vec<Vec<u32>> = allowed.iter().map(|b| u32_list(&b["terms"]).into_iter().map(|m| conc.get(m)).collect()).collect();
            d.push(format!("{what}: chained sub_ontology({root}, {:?}) on the first result retains the terms {:?}; allowed: {:?}", leaves2, got, all));
            continue;
        };
        let focus = [Focus::Struct, Focus::Ann, Focus::Ic, Focus::Meta];
        d.extend(compare_allowed(&sub2, b, scn, conc, &focus).into_iter().map(|x| format!("{what}: chained sub_ontology({root}, {:?}) on the first result: {x}", leaves2)));
        match catch(|| closure_laws(&sub2)) {
            Ok(l) => d.extend(l.into_iter().map(|x| format!("{what}: chained sub_ontology({root}, {:?}): {x}", leaves2))),
            Err(p) => d.push(format!("{what}: reading the chained sub-ontology panicked: {p}")),
        }
        for l in &leaves2 {
            let x = catch(|| src.hpo(*l).unwrap().distance_to_ancestor(&src.hpo(root).unwrap()));
            let y = catch(|| sub2.hpo(*l).and_then(|t| sub2.hpo(root).and_then(|r| t.distance_to_ancestor(&r))));
            if x != y {
                d.push(format!("{what}: leaf {l} is {:?} steps below root {root} in the source but {:?} in the chained sub-ontology", x, y));
            }
        }
    }
}

fn check_result(what: &str, src: &Ontology, scn: &Scenario, line: &Value, conc: &Concretisation, root: u32, leaves: &[u32], d: &mut Vec<String>) {
    let want_ok = line["result"]["ok"].as_bool().unwrap();
    let sub = match call(src, root, leaves) {
        Err(p) => {
            d.push(format!("{what}: sub_ontology({root}, {:?}) panicked: {p}", leaves));
            return;
        }
        Ok(Err(e)) => {
            if want_ok {
                d.push(format!("{what}: sub_ontology({root}, {:?}) failed ({e}) although every leaf is the root or below it", leaves));
            }
            return;
        }
        Ok(Ok(s)) => s,
    };
    if !want_ok {
        d.push(format!("{what}: sub_ontology({root}, {:?}) succeeded although a leaf is not below the root (an error is required)", leaves));
        return;
    }
    let mode = LAWS_ONLY.load(std::sync::atomic::Ordering::Relaxed);
    if mode <= 1 {
        match catch(|| closure_laws(&sub)) {
            Ok(l) => d.extend(l.into_iter().map(|x| format!("{what}: sub_ontology({root}, {:?}): {x}", leaves))),
            Err(p) => d.push(format!("{what}: reading the sub-ontology panicked: {p}")),
        }
    }
    if mode == 1 {
        return;
    }
    let got = match catch(|| {
        let mut v: Vec<u32> = sub.iter().map(|t| hpo::annotations::AnnotationId::as_u32(&t.id())).collect();
        v.sort_unstable();
        v
    }) {
        Ok(v) => v,
        Err(p) => {
            d.push(format!("{what}: iterating the sub-ontology panicked: {p}"));
            return;
        }
    };
    let allowed = arr(&line["result"]["allowed"]);
    let hit = allowed.iter().find(|a| {
        let mut t: Vec<u32> = u32_list(&a["terms"]).into_iter().map(|m| conc.get(m)).collect();
        t.sort_unstable();
        t == got
    });
    let Some(hit_a) = hit else {
        if mode != 0 {
            return;
        }
        let all: Vec<Vec<u32>> = allowed.iter().map(|a| u32_list(&a["terms"]).into_iter().map(|m| conc.get(m)).collect()).collect();
        d.push(format!("{what}: sub_ontology({root}, {:?}) retains the terms {:?}; allowed (leaves + one shortest chain per leaf): {:?}", leaves, got, all));
        return;
    };
    let focus: Vec<Focus> = match mode {
        2 => vec![Focus::Ann],
        3 => vec![Focus::Ic],
        _ => vec![Focus::Struct, Focus::Ann, Focus::Ic, Focus::Meta],
    };
    d.extend(compare_allowed(&sub, hit_a, scn, conc, &focus).into_iter().map(|x| format!("{what}: sub_ontology({root}, {:?}): {x}", leaves)));
    if mode != 0 {
        return;
    }
    // every leaf reaches the root at its original distance
    for l in leaves {
        let a = catch(|| src.hpo(*l).unwrap().distance_to_ancestor(&src.hpo(root).unwrap()));
        let b = catch(|| sub.hpo(*l).and_then(|t| sub.hpo(root).and_then(|r| t.distance_to_ancestor(&r))));
        if a != b {
            d.push(format!("{what}: leaf {l} is {:?} steps below root {root} in the source but {:?} in the sub-ontology", a, b));
        }
    }
    NESTED_CALLS.fetch_add(arr(&hit_a["nested"]).len(), std::sync::atomic::Ordering::Relaxed);
    check_nested(what, src, &sub, hit_a, scn, conc, root, d);
}

pub fn check_line(st: &mut Stats, line: &Value, only_layout: Option<usize>) -> Vec<(usize, Vec<String>)> {
    let ids = u32_list(&line["ids"]);
    let defaults = line["defaults"].as_bool().unwrap();
    let mut out = vec![];
    for layout in 0..LAYOUTS.len() {
        if only_layout.map_or(false, |o| o != layout) {
            continue;
        }
        // the alternative layouts on a third of the lines (by content), the first on all
        if only_layout.is_none() && layout > 0 && (fnv(&line.to_string()) % 3) as usize != layout {
            continue;
        }
        let conc = conc_for(layout, &ids);
        let root = conc.get(as_u32(&line["root"]));
        let leaves: Vec<u32> = u32_list(&line["leaves"]).into_iter().map(|m| conc.get(m)).collect();
        let mut dup: Vec<u32> = leaves.iter().rev().copied().collect();
        dup.extend(leaves.iter().copied());
        let mut d = vec![];
        let scn = source(line, &conc, false);
        match via_builder(&scn, EdgeOrder::AsGiven, false, defaults) {
            Ok(src) => {
                st.evaluations += 2;
                check_result("builder source", &src, &scn, line, &conc, root, &leaves, &mut d);
                check_result("builder source, leaves reversed + duplicated", &src, &scn, line, &conc, root, &dup, &mut d);
            }
            Err(e) => d.push(format!("cannot build the source ontology: {e}")),
        }
        if defaults {
            let scn = source(line, &conc, true);
            match via_binary(&scn, 3, None).1 {
                Ok(src) => {
                    st.evaluations += 1;
                    check_result("binary source with obsolete flags", &src, &scn, line, &conc, root, &leaves, &mut d);
                }
                Err(e) => d.push(format!("cannot load the source ontology: {e}")),
            }
        }
        if !d.is_empty() {
            d.truncate(10);
            out.push((layout, d));
        }
    }
    out
}

pub fn run(args: &Args) {
    silence_panics();
    let Some(shard) = shard_or_spawn("replay-sub", args) else { return };
    let prop = args.get("prop").unwrap_or("C14").to_string();
    LAWS_ONLY.store(args.num("laws-only", 0) as u8, std::sync::atomic::Ordering::Relaxed);
    let (n_all, lines) = read_tlc_lines_sharded(args.req("in"), "REPLAY", shard);
    if n_all == 0 {
        eprintln!("no REPLAY lines");
        std::process::exit(2);
    }
    let mut st = Stats::default();
    for (i, l) in lines.iter().enumerate() {
        st.cases += 1;
        let ok = l["result"]["ok"].as_bool().unwrap_or(false);
        if ok && arr(&l["result"]["allowed"]).iter().any(|a| arr(&a["terms"]).len() >= 2) {
            st.nontrivial += 1;
        }
        if ok && arr(&l["result"]["allowed"]).len() >= 2 {
            st.bump("several_allowed_results", 1);
        }
        if !ok {
            st.bump("must_be_refused", 1);
        }
        guard_case(&mut st, &prop, "replay-sub", l, |st| {
            for (layout, d) in check_line(st, l, None) {
                if st.violations.len() < 8 {
                    st.violations.push(Violation { property: prop.clone(), what: format!("[layout{layout}] {}", d[0]), replay: json!({"cmd": "replay-sub", "property": prop, "layout": layout, "line": l, "diffs": d}) });
                }
            }
        });
        if st.samples.is_empty() && ok && i % 211 == 17 && arr(&l["result"]["allowed"]).len() >= 2 {
            st.samples.push(l.clone());
        }
    }
    st.bump("chained_calls_on_a_result", NESTED_CALLS.load(std::sync::atomic::Ordering::Relaxed) as u64);
    finish(st, args.req("out"), args.req("replay-dir"), json!({"lines": lines.len()}));
}

pub fn replay_one(v: &Value) -> bool {
    silence_panics();
    let mut st = Stats::default();
    LAWS_ONLY.store(match v["property"].as_str() { Some("C01") => 1, Some("C02") => 2, Some("C03") => 3, _ => 0 }, std::sync::atomic::Ordering::Relaxed);
    let out = check_line(&mut st, &v["line"], v["layout"].as_u64().map(|x| x as usize));
    for (c, d) in &out {
        for l in d {
            println!("reproduced: [layout{c}] {l}");
        }
    }
    !out.is_empty()
}
