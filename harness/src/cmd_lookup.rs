//! C10: lookups.  TLC (spec/HpoLookup.tla, HpoNames.tla) emits insert sequences over border id
//! classes with the expected table contents, and name assignments with the exact result of every
//! query.  The real arena is bound to the model by sweeping the key space.
use crate::util::*;
use hpo::annotations::{AnnotationId, Disease, GeneId, OmimDiseaseId, OrphaDiseaseId};
use hpo::builder::Builder;
use hpo::{HpoTermId, Ontology};
use serde_json::{json, Value};
use std::collections::{BTreeMap, BTreeSet};

const TABLE: u32 = 10_000_000;

fn concrete(model: u64, table: u64, variant: u64) -> u32 {
    if model == 0 {
        0
    } else if model == 1 {
        1
    } else if model + 1 == table {
        TABLE - 1
    } else if model == table {
        TABLE
    } else if model == table + 1 {
        TABLE + 1
    } else if model > table {
        u32::MAX
    } else if variant == 2 {
        // inner ids that are exact multiples of 2^20 (block / power-of-two borders of a table that grows on demand)
        (model as u32) << 20
    } else if variant == 3 {
        (1u32 << 16) << (model as u32 - 2).min(7) // 2^16, 2^17, ... 2^23
    } else {
        // inner ids: spread, variant dependent, order preserving
        (model as u32) * 1_234_567 + (variant as u32) * 1001 + 118
    }
}

fn sweep(ont: &Ontology, present: &BTreeSet<u32>, lo: u32, hi: u32) -> Option<String> {
    let mut id = lo;
    loop {
        let got = ont.hpo(id).is_some();
        if got != present.contains(&id) {
            return Some(format!("hpo({id}) {} but the term was {}", if got { "returns a term" } else { "returns None" }, if got { "never added" } else { "added" }));
        }
        if id == hi {
            return None;
        }
        id += 1;
    }
}

fn check_arena(st: &mut Stats, line: &Value, idx: usize, sweep_every: u64, full_u32: bool) -> Vec<String> {
    let mut d = vec![];
    let table = line["table"].as_u64().unwrap();
    for variant in 0..4u64 {
        let mut b = Builder::new();
        let mut first_name: BTreeMap<u32, String> = BTreeMap::new();
        let mut order: Vec<u32> = vec![];
        for (i, op) in arr(&line["log"]).iter().enumerate() {
            let id = concrete(op["id"].as_u64().unwrap(), table, variant);
            let name = if variant == 1 { format!("N{i}: x: y") } else { format!("N{i}") };
            let res = catch(|| b.new_term(&name, id));
            st.evaluations += 1;
            match (res, op["result"].as_str().unwrap()) {
                (Ok(()), "panic") => {
                    // the crate accepted an id outside its table: then it must be able to find it
                    if !first_name.contains_key(&id) {
                        first_name.insert(id, name);
                        order.push(id);
                    }
                }
                (Ok(()), _) => {
                    if !first_name.contains_key(&id) {
                        first_name.insert(id, name);
                        order.push(id);
                    }
                }
                (Err(_), "panic") => {}
                (Err(e), _) => d.push(format!("new_term(id {id}) panicked for an id inside the HPO id space: {e}")),
            }
        }
        let ont = match catch(|| b.terms_complete().connect_all_terms().calculate_information_content().map(|x| x.build_minimal())) {
            Ok(Ok(o)) => o,
            Ok(Err(e)) => {
                d.push(format!("build failed: {e}"));
                continue;
            }
            Err(e) => {
                d.push(format!("build panicked: {e}"));
                continue;
            }
        };
        let present: BTreeSet<u32> = first_name.keys().copied().collect();
        if ont.len() != present.len() {
            d.push(format!("len() = {} but {} distinct terms were added ({:?})", ont.len(), present.len(), order));
        }
        let it: Vec<u32> = ont.iter().map(|t| t.id().as_u32()).collect();
        let its: BTreeSet<u32> = it.iter().copied().collect();
        if it.len() != its.len() || its != present {
            d.push(format!("iter() yields {:?}, added terms are {:?}", it, present));
        }
        for p in arr(&line["probes"]) {
            let id = concrete(p["id"].as_u64().unwrap(), table, variant);
            let want = present.contains(&id);
            match ont.hpo(id) {
                Some(t) => {
                    if !want {
                        d.push(format!("hpo({id}) returns term {} although no term with that id was added", t.id()));
                    } else {
                        if t.id().as_u32() != id {
                            d.push(format!("hpo({id}) returns the term with id {}", t.id()));
                        }
                        if t.name() != first_name[&id] {
                            d.push(format!("hpo({id}) carries name {:?}, it was added as {:?}", t.name(), first_name[&id]));
                        }
                    }
                }
                None => {
                    if want {
                        d.push(format!("hpo({id}) returns None although the term was added"));
                    }
                }
            }
            // HpoTermId based lookup agrees
            if ont.hpo(HpoTermId::from(id)).is_some() != ont.hpo(id).is_some() {
                d.push(format!("hpo(HpoTermId {id}) and hpo({id}u32) disagree"));
            }
            // ... and so does the fallible constructor of the term view
            match hpo::HpoTerm::try_new(&ont, id) {
                Ok(t) => {
                    if !want || t.id().as_u32() != id || t.id().to_usize() != id as usize || Some(t.name()) != first_name.get(&id).map(|s| s.as_str()) {
                        d.push(format!("HpoTerm::try_new({id}) = Ok(term {} {:?}), added terms are {:?}", t.id(), t.name(), present));
                    }
                }
                Err(e) => {
                    // which error variant is returned is not part of the property
                    if want {
                        d.push(format!("HpoTerm::try_new({id}) = Err({e}), term added: {want}"));
                    }
                }
            }
        }
        // the same terms through the text loader (hp.obo needs the two standard roots): names with ": " survive
        if variant == 1 && present.iter().all(|x| *x < TABLE) {
            use crate::scenario::{Scenario, TermSpec};
            let mut scn = Scenario::default();
            scn.version = (2024, 1, 1);
            for id in present.iter().copied().chain([1u32, 118]).collect::<BTreeSet<u32>>() {
                scn.terms.push(TermSpec { id, name: first_name.get(&id).cloned().unwrap_or_else(|| format!("root {id}")), obsolete: false, repl: None });
            }
            scn.edges.push((1, 118));
            match crate::paths::via_jax(&crate::paths::jax_plain(&scn, Some(idx as u64)), false) {
                Ok(t) => {
                    for id in &present {
                        match t.hpo(*id) {
                            Some(x) if x.name() == first_name[id] && x.id().as_u32() == *id => {}
                            other => d.push(format!("from_standard: hpo({id}) = {:?}, the term was added with the name {:?}", other.map(|x| x.name().to_string()), first_name[id])),
                        }
                    }
                    if t.len() != scn.terms.len() {
                        d.push(format!("from_standard: len() = {} for {} stanzas", t.len(), scn.terms.len()));
                    }
                }
                Err(e) => d.push(format!("from_standard failed on {} plain stanzas: {e}", scn.terms.len())),
            }
        }
        // neighbours of every present id and of the table borders
        let mut near: BTreeSet<u32> = BTreeSet::new();
        for c in present.iter().copied().chain([0, 1, 118, TABLE - 1, TABLE, u32::MAX, 1 << 24, 1 << 31]) {
            for dlt in 0..=2u32 {
                near.insert(c.saturating_sub(dlt));
                near.insert(c.saturating_add(dlt));
            }
        }
        for id in near {
            if ont.hpo(id).is_some() != present.contains(&id) {
                d.push(format!("hpo({id}) is {} but the term was {}added", if present.contains(&id) { "None" } else { "Some" }, if present.contains(&id) { "" } else { "never " }));
            }
        }
        // Ontology::clone(): an independent ontology that answers every lookup like the original (an 80 MB copy: sampled)
        if idx % 48 == 3 && variant < 2 {
            match catch(|| ont.clone()) {
                Err(p) => d.push(format!("Ontology::clone() panicked: {p}")),
                Ok(c) => {
                    let r = catch(|| {
                        let mut dd = vec![];
                        if c.len() != present.len() {
                            dd.push(format!("clone: len() = {} but {} terms were added", c.len(), present.len()));
                        }
                        let cit: BTreeSet<u32> = c.iter().map(|t| t.id().as_u32()).collect();
                        if cit != present {
                            dd.push(format!("clone: iter() yields {:?}, added terms are {:?}", cit, present));
                        }
                        for id in present.iter().copied().chain([0u32, 1, 2, 117, 118, 119, TABLE - 1, TABLE, u32::MAX]) {
                            match c.hpo(id) {
                                Some(t) if present.contains(&id) && t.id().as_u32() == id && t.name() == first_name[&id] => {}
                                None if !present.contains(&id) => {}
                                other => dd.push(format!("clone: hpo({id}) = {:?}, the original was built with {:?}", other.map(|t| (t.id().as_u32(), t.name().to_string())), first_name.get(&id))),
                            }
                        }
                        dd
                    });
                    match r {
                        Ok(dd) => d.extend(dd),
                        Err(p) => d.push(format!("reading a clone of the ontology panicked: {p}")),
                    }
                }
            }
        }
        if sweep_every > 0 && (idx as u64) % sweep_every == 0 && variant == 0 {
            // the whole HPO id space and a margin, every id
            st.bump("full_id_space_sweeps", 1);
            if let Some(e) = sweep(&ont, &present, 0, TABLE + 16) {
                d.push(e);
            }
            if let Some(e) = sweep(&ont, &present, u32::MAX - 65_536, u32::MAX) {
                d.push(e);
            }
            if full_u32 && (idx as u64) % (sweep_every * 64) == 0 {
                st.bump("full_u32_sweeps", 1);
                if let Some(e) = sweep(&ont, &present, 0, u32::MAX) {
                    d.push(e);
                }
            }
        }
        if d.len() > 12 {
            break;
        }
    }
    d
}

fn text(v: &Value, alphabet: &[&str]) -> String {
    arr(v).iter().map(|c| alphabet[c.as_u64().unwrap() as usize - 1]).collect()
}

thread_local! {
    /// the previous name-lookup ontology of this process, per alphabet: a lookup is a function of the ontology it is asked of
    static PREV_NAMES: std::cell::RefCell<Vec<Option<(Ontology, Vec<(u32, String)>)>>> = std::cell::RefCell::new(vec![None, None, None, None]);
}

fn check_names(st: &mut Stats, line: &Value) -> Vec<String> {
    let mut d = vec![];
    // (the fourth alphabet renders the first letter as a BLANK: names and queries that start / end with white space or consist of it)
    for (ai, alphabet) in [["a", "b"], ["é", "😀"], ["ab", "a"], [" ", "a"]].into_iter().enumerate() {
        // the third alphabet makes distinct model strings collide; it is only used with the
        // expectations recomputed on the rendered strings
        let collide = alphabet[0] == "ab";
        let names: Vec<(u32, String)> = arr(&line["names"]).iter().map(|n| (n["id"].as_u64().unwrap() as u32, text(&n["name"], &alphabet))).collect();
        let r = catch(|| {
            let mut b = Builder::new();
            b.new_term("root", 1u32);
            let mut b = b.terms_complete().connect_all_terms();
            for (id, nm) in &names {
                b.add_omim_disease(nm, OmimDiseaseId::from(*id));
                b.add_gene(nm, GeneId::from(*id));
                // same ids, different names, in the other disease map
                b.add_orpha_disease(&format!("zz{nm}zz-orpha"), OrphaDiseaseId::from(*id + 1));
                b.add_orpha_disease("ORPHA-ONLY", OrphaDiseaseId::from(*id));
            }
            b.calculate_information_content().map(|x| x.build_minimal())
        });
        let ont = match r {
            Ok(Ok(o)) => o,
            _ => {
                d.push("cannot build ontology for name lookups".into());
                continue;
            }
        };
        for q in arr(&line["queries"]) {
            let qs = text(&q["q"], &alphabet);
            let (contains, exact): (BTreeSet<u32>, BTreeSet<u32>) = if collide {
                (names.iter().filter(|(_, n)| n.contains(&qs)).map(|(i, _)| *i).collect(), names.iter().filter(|(_, n)| *n == qs).map(|(i, _)| *i).collect())
            } else {
                (u32_list(&q["contains"]).into_iter().collect(), u32_list(&q["exact"]).into_iter().collect())
            };
            st.evaluations += 1;
            let got: Vec<u32> = ont.omim_diseases_by_name(&qs).map(|x| x.id().as_u32()).collect();
            let gots: BTreeSet<u32> = got.iter().copied().collect();
            if gots != contains || got.len() != gots.len() {
                d.push(format!("omim_diseases_by_name({qs:?}) = {:?}, the diseases whose name contains the query are {:?} (names {:?})", got, contains, names));
            }
            match ont.omim_disease_by_name(&qs) {
                Some(x) => {
                    if !contains.contains(&x.id().as_u32()) {
                        d.push(format!("omim_disease_by_name({qs:?}) returns {} whose name {:?} does not contain the query", x.id(), x.name()));
                    }
                }
                None => {
                    if !contains.is_empty() {
                        d.push(format!("omim_disease_by_name({qs:?}) returns nothing, but {:?} match", contains));
                    }
                }
            }
            match ont.gene_by_name(&qs) {
                Some(g) => {
                    if g.name() != qs || !exact.contains(&g.id().as_u32()) {
                        d.push(format!("gene_by_name({qs:?}) returns gene {} with symbol {:?}", g.id(), g.name()));
                    }
                }
                None => {
                    if !exact.is_empty() {
                        d.push(format!("gene_by_name({qs:?}) returns nothing although genes {:?} carry exactly that symbol", exact));
                    }
                }
            }
        }
        // the same query asked of the PREVIOUS ontology and at once of this one (both alive): each answers for itself
        PREV_NAMES.with(|pn| {
            if let Some((pont, pnames)) = pn.borrow()[ai].as_ref() {
                for q in arr(&line["queries"]) {
                    let qs = text(&q["q"], &alphabet);
                    for (which, o, nm) in [("previous", pont, pnames), ("current", &ont, &names), ("previous", pont, pnames)] {
                        st.evaluations += 1;
                        let exact: BTreeSet<u32> = nm.iter().filter(|(_, n)| *n == qs).map(|(i, _)| *i).collect();
                        match o.gene_by_name(&qs) {
                            Some(g) if g.name() == qs && exact.contains(&g.id().as_u32()) => {}
                            None if exact.is_empty() => {}
                            other => d.push(format!("gene_by_name({qs:?}) asked alternately of two live ontologies: the {which} one returns {:?}, its genes with exactly that symbol are {:?}", other.map(|g| (g.id().as_u32(), g.name().to_string())), exact)),
                        }
                        let contains: BTreeSet<u32> = nm.iter().filter(|(_, n)| n.contains(&qs)).map(|(i, _)| *i).collect();
                        match o.omim_disease_by_name(&qs) {
                            Some(x) if contains.contains(&x.id().as_u32()) => {}
                            None if contains.is_empty() => {}
                            other => d.push(format!("omim_disease_by_name({qs:?}) asked alternately of two live ontologies: the {which} one returns {:?}, matching diseases are {:?}", other.map(|x| x.id().as_u32()), contains)),
                        }
                    }
                    if d.len() > 12 {
                        break;
                    }
                }
            }
        });
        // by id: the record with that id or nothing
        let ids: BTreeSet<u32> = names.iter().map(|(i, _)| *i).collect();
        for probe in ids.iter().flat_map(|i| [i.wrapping_sub(1), *i, i + 1, i + 2]).chain([0, u32::MAX]) {
            let want_om = ids.contains(&probe);
            match ont.omim_disease(&OmimDiseaseId::from(probe)) {
                Some(x) if want_om && x.id().as_u32() == probe && x.name() != "ORPHA-ONLY" => {}
                None if !want_om => {}
                other => d.push(format!("omim_disease({probe}) = {:?}, expected {}", other.map(|x| (x.id().as_u32(), x.name().to_string())), if want_om { "the record with that id" } else { "nothing" })),
            }
            match ont.gene(&GeneId::from(probe)) {
                Some(x) if want_om && x.id().as_u32() == probe => {}
                None if !want_om => {}
                other => d.push(format!("gene({probe}) = {:?}, expected {}", other.map(|x| x.id().as_u32()), if want_om { "the record with that id" } else { "nothing" })),
            }
            let want_or = ids.contains(&probe) || (probe > 0 && ids.contains(&(probe - 1)));
            match ont.orpha_disease(&OrphaDiseaseId::from(probe)) {
                Some(x) if want_or && x.id().as_u32() == probe && (x.name().contains("ORPHA") || x.name().contains("orpha")) => {}
                None if !want_or => {}
                other => d.push(format!("orpha_disease({probe}) = {:?}, expected {}", other.map(|x| (x.id().as_u32(), x.name().to_string())), if want_or { "the ORPHA record with that id" } else { "nothing" })),
            }
        }
        let too_many = d.len() > 12;
        PREV_NAMES.with(|pn| pn.borrow_mut()[ai] = Some((ont, names)));
        if too_many {
            break;
        }
    }
    d
}

/// Sizes beyond what TLC enumerates: the arena invariants (GetExact, LenAgrees, IterOnce) are
/// size independent, so they are also demanded of ontologies whose term count crosses the
/// u8 / u16 / SmallVec boundaries (300 and 70,000 terms, dense and strided ids).
pub fn big_cases(st: &mut Stats) -> Vec<String> {
    let mut d = vec![];
    for (n, stride, offset) in [(300u32, 1u32, 1u32), (70_000, 1, 0), (70_000, 142, 57)] {
        st.cases += 1;
        st.nontrivial += 1;
        let r = catch(|| {
            let mut b = Builder::new();
            for i in 0..n {
                b.new_term(&format!("B{}", i), offset + i * stride);
            }
            b.terms_complete().connect_all_terms().calculate_information_content().map(|x| x.build_minimal())
        });
        let ont = match r {
            Ok(Ok(o)) => o,
            Ok(Err(e)) => {
                d.push(format!("ontology with {n} terms cannot be built: {e}"));
                continue;
            }
            Err(e) => {
                d.push(format!("ontology with {n} terms: panic {e}"));
                continue;
            }
        };
        if ont.len() != n as usize {
            d.push(format!("len() = {} for an ontology of {n} terms", ont.len()));
        }
        match catch(|| ont.iter().map(|t| t.id().as_u32()).collect::<BTreeSet<u32>>()) {
            Ok(s) => {
                if s.len() != n as usize {
                    d.push(format!("iter() yields {} distinct terms of {n}", s.len()));
                }
            }
            Err(e) => d.push(format!("iter() over {n} terms panicked: {e}")),
        }
        for i in 0..n {
            let id = offset + i * stride;
            st.evaluations += 1;
            match ont.hpo(id) {
                Some(t) => {
                    if t.id().as_u32() != id || t.name() != format!("B{}", i) {
                        d.push(format!("in an ontology of {n} terms hpo({id}) returns term {} named {:?}, it was added as B{i}", t.id(), t.name()));
                        break;
                    }
                }
                None => {
                    d.push(format!("in an ontology of {n} terms hpo({id}) returns None although the term was added (insertion #{})", i + 1));
                    break;
                }
            }
            if stride > 1 && ont.hpo(id + 1).is_some() {
                d.push(format!("hpo({}) returns a term that was never added", id + 1));
                break;
            }
        }
    }
    d
}

pub fn replay_line(st: &mut Stats, prop: &str, idx: usize, line: &Value, sweep_every: u64, full_u32: bool) {
    st.cases += 1;
    let arena = line["kind"].as_str() == Some("arena");
    let mut diffs = if arena { check_arena(st, line, idx, sweep_every, full_u32) } else { check_names(st, line) };
    if !arena || arr(&line["present"]).len() > 1 {
        st.nontrivial += 1;
    }
    if st.samples.len() < 2 && idx % 211 == 17 {
        st.samples.push(line.clone());
    }
    if !diffs.is_empty() && st.violations.len() < 8 {
        diffs.truncate(12);
        st.violations.push(Violation { property: prop.to_string(), what: diffs[0].clone(), replay: json!({"cmd": "replay-lookup", "property": prop, "line": line, "diffs": diffs}) });
    }
}

pub fn run(args: &Args) {
    silence_panics();
    let Some(shard) = shard_or_spawn("replay-lookup", args) else { return };
    let prop = args.get("prop").unwrap_or("C10").to_string();
    let (n_all, lines) = read_tlc_lines_sharded(args.req("in"), "REPLAY", shard);
    if n_all == 0 {
        eprintln!("no REPLAY lines");
        std::process::exit(2);
    }
    let sweep_every = args.num("sweep-every", 40);
    let full = args.num("full-u32", 0) == 1;
    let mut st = Stats::default();
    for (i, l) in lines.iter().enumerate() {
        guard_case(&mut st, &prop, "replay-lookup", l, |st| replay_line(st, &prop, i, l, sweep_every, full));
    }
    if shard.0 == 0 {
        let mut d = big_cases(&mut st);
        if !d.is_empty() {
            d.truncate(12);
            st.violations.push(Violation { property: prop.clone(), what: d[0].clone(), replay: json!({"cmd": "replay-lookup", "property": prop, "big": true, "diffs": d}) });
        }
    }
    finish(st, args.req("out"), args.req("replay-dir"), json!({"lines": lines.len()}));
}

pub fn replay_one(v: &Value) -> bool {
    silence_panics();
    let mut st = Stats::default();
    if v.get("big").is_some() {
        let d = big_cases(&mut st);
        for l in &d {
            println!("reproduced: {l}");
        }
        return !d.is_empty();
    }
    let prop = v["property"].as_str().unwrap_or("C10").to_string();
    guard_case(&mut st, &prop, "replay-lookup", &v["line"], |st| replay_line(st, &prop, 0, &v["line"], 1, false));
    for x in &st.violations {
        println!("reproduced: {}", x.what);
        if let Some(d) = x.replay["diffs"].as_array() {
            for l in d {
                println!("   {}", l.as_str().unwrap_or(""));
            }
        }
    }
    !st.violations.is_empty()
}
