//! C09, impl -> spec (spec/trace/TraceJax.tla): random JAX file sets that the writer of spec/HpoJax.tla cannot produce
//! (any order of the tag lines inside a stanza, [Typedef] stanzas anywhere, comment lines in the middle of phenotype.hpoa,
//! NOT / DECIPHER rows about the same diseases, repeated rows, 3..40 (thorough: up to 300) terms with random is_a links)
//! are rendered, loaded by the real crate through both loaders, and the DIRECT facts of the loaded ontology are recorded next
//! to the structured files.  TLC evaluates the declarative reader `Describes` of the specification on the files and accepts
//! the event only if it equals what the crate loaded.  The harness also builds the same facts through the Builder API and
//! requires an observationally identical ontology (second sentence of the property).
use crate::cmd_jax::render;
use crate::paths::*;
use crate::project::*;
use crate::scenario::*;
use crate::util::*;
use serde_json::{json, Value};
use std::collections::{BTreeMap, BTreeSet};
use std::io::Write;

/// a name as the specification writes it: one list of UTF-8 bytes per character
fn spec_name(s: &str) -> Value {
    Value::Array(s.chars().map(|c| { let mut b = [0u8; 4]; json!(c.encode_utf8(&mut b).as_bytes()) }).collect())
}

fn random_name(rng: &mut Rng, tag: &str, k: u64) -> String {
    match rng.below(9) {
        0 => format!("{tag}{k}: with: colons"),
        1 => format!("{tag}{k} \u{e9}\u{1F600}z"),
        2 => format!("{tag}{k} "),                       // trailing blank
        3 => format!(" {tag}{k}"),                       // leading blank
        4 => format!("{tag}{k} ! not a comment"),
        5 => format!("{tag}{k} HP:0000001 OMIM:1 NOT"),
        6 => format!("{tag}{k}{}", "x".repeat(rng.range(240, 300) as usize)),
        _ => format!("{tag}{k}"),
    }
}

struct Gen {
    files: Value,
    scn: Scenario,
}

fn generate(rng: &mut Rng, size: usize) -> Gen {
    let mut scn = Scenario::default();
    // ---- terms
    let mut ids: Vec<u32> = vec![1, 118];
    let mut seen: BTreeSet<u32> = ids.iter().copied().collect();
    while ids.len() < size {
        let id = match rng.below(6) {
            0 => rng.range(2, 40) as u32,
            1 => rng.range(9_999_900, 9_999_999) as u32,
            2 => 1u32 << rng.range(1, 23),
            _ => rng.range(2, 9_999_999) as u32,
        };
        if seen.insert(id) {
            ids.push(id);
        }
    }
    let mut parents: BTreeMap<u32, Vec<u32>> = BTreeMap::new();
    parents.insert(1, vec![]);
    parents.insert(118, vec![1]);
    for (i, id) in ids.iter().enumerate().skip(2) {
        let mut ps: BTreeSet<u32> = BTreeSet::new();
        if !rng.chance(1, 8) {
            for _ in 0..rng.range(1, 3) {
                ps.insert(ids[rng.below(i as u64) as usize]);
            }
        }
        parents.insert(*id, ps.into_iter().collect());
    }
    // half of the runs carry obsolete / replaced_by flags (the Builder API cannot set them, so only the other half is also compared with the Builder path)
    let flagged = rng.chance(1, 2);
    for (k, id) in ids.iter().enumerate() {
        let obsolete = flagged && *id != 1 && *id != 118 && rng.chance(1, 5);
        let repl = if flagged && *id != 1 && rng.chance(1, 5) { Some(*rng.pick(&ids)) } else { None };
        scn.terms.push(TermSpec { id: *id, name: random_name(rng, "T", k as u64), obsolete, repl });
    }
    for (c, ps) in &parents {
        for p in ps {
            scn.edges.push((*p, *c));
        }
    }
    scn.version = if rng.chance(1, 5) { (0, 0, 0) } else { (rng.range(1000, 9999) as u16, rng.range(1, 12) as u8, rng.range(1, 31) as u8) };
    // ---- obo
    let noise_keys = ["def", "synonym", "xref", "comment", "alt_id", "created_by", "is_anonymous"];
    let mut header_lines = vec![json!({"tag": "format-version"})];
    let mut rest = vec![];
    if scn.version != (0, 0, 0) {
        rest.push(json!({"tag": "data-version", "v": [scn.version.0, scn.version.1, scn.version.2]}));
    }
    for _ in 0..rng.below(3) {
        rest.push(json!({"tag": "other", "key": "saved-by", "text": spec_name("d: x")}));
    }
    rng.shuffle(&mut rest);
    header_lines.extend(rest);
    let mut stanzas: Vec<Value> = vec![];
    for t in &scn.terms {
        let mut lines = vec![json!({"tag": "id", "id": t.id}), json!({"tag": "name", "name": spec_name(&t.name)})];
        for p in &parents[&t.id] {
            lines.push(json!({"tag": "is_a", "id": p, "comment": spec_name(&random_name(rng, "c", 0))}));
        }
        if t.obsolete {
            lines.push(json!({"tag": "is_obsolete"}));
        }
        if let Some(r) = t.repl {
            lines.push(json!({"tag": "replaced_by", "id": r}));
        }
        for _ in 0..rng.below(4) {
            lines.push(json!({"tag": "other", "key": *rng.pick(&noise_keys), "text": spec_name(&random_name(rng, "n", 1))}));
        }
        if rng.chance(2, 3) {
            rng.shuffle(&mut lines);
        }
        stanzas.push(json!({"kind": "Term", "lines": lines}));
    }
    for _ in 0..rng.below(4) {
        stanzas.push(json!({"kind": "Typedef", "lines": [{"tag": "id", "id": *rng.pick(&ids)}, {"tag": "name", "name": spec_name("part: of")}, {"tag": "is_a", "id": 1, "comment": spec_name("x")}]}));
    }
    rng.shuffle(&mut stanzas);
    let mut obo = vec![json!({"kind": "header", "lines": header_lines})];
    obo.extend(stanzas);
    // ---- records: one name per record id; ids shared across the kinds
    let pool: Vec<u32> = (0..6).map(|_| if rng.chance(1, 3) { rng.range(1, 9) as u32 } else { rng.range(10, 2_000_000_000) as u32 }).collect();
    let mut rows_of = |rng: &mut Rng, kind: Kind, tag: &str, n: u64| -> Vec<(u32, String, u32)> {
        let mut out = vec![];
        let mut used: BTreeSet<u32> = BTreeSet::new();
        for k in 0..n {
            let x = *rng.pick(&pool);
            if !used.insert(x) {
                continue;
            }
            let name = random_name(rng, tag, k);
            for _ in 0..rng.range(1, 4) {
                let t = *rng.pick(&ids);
                out.push((x, name.clone(), t));
                scn.facts.push(Fact { kind, x, name: name.clone(), term: Some(t) });
            }
        }
        out
    };
    let (ng, no, nr) = (rng.below(6), rng.below(6), rng.below(5));
    let mut grow = rows_of(rng, Kind::Gene, "G", ng);
    let orow = rows_of(rng, Kind::Omim, "O", no);
    let rrow = rows_of(rng, Kind::Orpha, "R", nr);
    if !grow.is_empty() && rng.chance(1, 2) {
        let r = rng.pick(&grow).clone();
        grow.push(r); // a repeated fact
    }
    rng.shuffle(&mut grow);
    let genes: Vec<Value> = grow.iter().map(|(x, n, t)| json!({"x": x, "name": spec_name(n), "t": t, "extra": rng.below(5)})).collect();
    let mut items: Vec<Value> = vec![];
    for (db, rows) in [("OMIM", &orow), ("ORPHA", &rrow)] {
        for (x, n, t) in rows.iter() {
            items.push(json!({"kind": "row", "db": db, "x": x, "name": spec_name(n), "qual": "", "t": t, "extra": rng.below(9)}));
            if rng.chance(1, 6) {
                items.push(json!({"kind": "row", "db": db, "x": x, "name": spec_name(n), "qual": "", "t": t, "extra": rng.below(9)}));     // repeated row
            }
            if rng.chance(1, 5) {
                // the same disease does NOT show another (or even the same) term
                items.push(json!({"kind": "row", "db": db, "x": x, "name": spec_name(n), "qual": "NOT", "t": *rng.pick(&ids), "extra": rng.below(9)}));
            }
        }
    }
    for _ in 0..rng.below(4) {
        let db = *rng.pick(&["OMIM", "ORPHA"]);
        items.push(json!({"kind": "row", "db": db, "x": rng.range(3_000_000, 3_000_009), "name": spec_name("only NOT"), "qual": "NOT", "t": *rng.pick(&ids), "extra": rng.below(9)}));
    }
    for _ in 0..rng.below(3) {
        items.push(json!({"kind": "row", "db": "DECIPHER", "x": *rng.pick(&pool), "name": spec_name("d: x"), "qual": "", "t": *rng.pick(&ids), "extra": rng.below(9)}));
    }
    for _ in 0..rng.below(3) {
        items.push(json!({"kind": "comment"}));
    }
    rng.shuffle(&mut items);
    let mut hpoa = vec![];
    if rng.chance(2, 3) {
        hpoa.extend([json!({"kind": "comment"}), json!({"kind": "comment"}), json!({"kind": "colheader"})]);
    }
    hpoa.extend(items);
    let files = json!({"obo": obo, "genes": {"header": rng.range(1, 3), "rows": genes}, "hpoa": hpoa});
    Gen { files, scn }
}

/// the DIRECT facts of a loaded ontology, in the vocabulary of `Describes`
fn loaded_of(e: &Expected) -> Value {
    let recs = |k: usize| -> Vec<Value> { e.recs[k].iter().map(|(x, r)| json!({"id": x, "name": spec_name(&r.name), "terms": r.hpos.iter().collect::<Vec<_>>()})).collect() };
    json!({
        "version": [e.version.0, e.version.1, e.version.2],
        "terms": e.terms.iter().map(|(id, t)| json!({"id": id, "name": spec_name(&t.name), "obsolete": t.obsolete, "repl": t.repl.unwrap_or(0)})).collect::<Vec<_>>(),
        "parents": e.terms.iter().filter(|(_, t)| !t.parents.is_empty()).map(|(id, t)| json!({"id": id, "parents": t.parents.iter().collect::<Vec<_>>()})).collect::<Vec<_>>(),
        "gene": recs(0), "omim": recs(1), "orpha": recs(2),
    })
}

fn one_run(st: &mut Stats, prop: &str, seed: u64, run: u64, big: bool, events: &mut Vec<Value>) {
    let mut rng = Rng::new(seed.wrapping_mul(1_000_003).wrapping_add(run) ^ 0xC09);
    let size = if big { rng.range(120, 300) as usize } else { rng.range(3, 40) as usize };
    let g = generate(&mut rng, size);
    let files = render(&g.files);
    st.cases += 1;
    st.nontrivial += 1;
    let mut first: Option<Expected> = None;
    for (loader, transitive) in [("standard", false), ("transitive", true)] {
        st.evaluations += 1;
        match via_jax(&files, transitive) {
            Ok(ont) => match catch(|| observe(&ont)) {
                Ok(e) => {
                    events.push(json!({"e": "Load", "run": run, "loader": loader, "files": g.files, "loaded": loaded_of(&e)}));
                    if first.is_none() {
                        first = Some(e);
                    }
                }
                Err(p) => events.push(json!({"e": "ReadPanicked", "run": run, "loader": loader, "files": g.files, "error": p})),
            },
            Err(e) => events.push(json!({"e": "LoadFailed", "run": run, "loader": loader, "files": g.files, "error": e})),
        }
    }
    // the same facts through the Builder API: observationally identical (derived links, information content, defaults)
    if let Some(l) = &first {
        if !g.scn.terms.iter().any(|t| t.obsolete || t.repl.is_some()) {
            st.evaluations += 1;
            let d: Vec<String> = match via_builder(&g.scn, EdgeOrder::AsGiven, false, true) {
                Ok(ont) => match catch(|| compare(&ont, l, &[Focus::Struct, Focus::Ann, Focus::Ic, Focus::Meta])) {
                    Ok(d) => d.into_iter().filter(|x| !x.starts_with("hpo_version")).map(|x| format!("Builder path with the same facts differs from the loaded ontology: {x}")).collect(),
                    Err(p) => vec![format!("reading the Builder-built ontology panicked: {p}")],
                },
                Err(e) => vec![format!("Builder path failed: {e}")],
            };
            if !d.is_empty() && st.violations.len() < 6 {
                st.violations.push(Violation { property: prop.to_string(), what: format!("random file set (run {run}): {}", d[0]), replay: json!({"cmd": "record-jax", "property": prop, "seed": seed, "run": run, "big": big, "diffs": d}) });
            }
        }
    }
    if st.samples.is_empty() && run % 17 == 3 {
        st.samples.push(json!({"run": run, "hp.obo": files.obo.chars().take(1500).collect::<String>(), "phenotype.hpoa": files.hpoa.chars().take(800).collect::<String>()}));
    }
}

/// `hv record-jax --trace F --runs R --chunks C --seed S [--big-every K] [--only-run N]`: F.0 .. F.(C-1) hold the events
pub fn run(args: &Args) {
    silence_panics();
    let prop = args.get("prop").unwrap_or("C09").to_string();
    let seed = args.num("seed", 1);
    let runs = args.num("runs", 40);
    let chunks = args.num("chunks", 1).max(1);
    let big_every = args.num("big-every", 0);
    let only = args.get("only-run").map(|s| s.parse::<u64>().unwrap());
    let mut st = Stats::default();
    let mut index = vec![];
    let mut files = vec![];
    for c in 0..chunks {
        let path = format!("{}.{}", args.req("trace"), c);
        let mut fh = std::fs::File::create(&path).expect("cannot create trace file");
        let mut line_no = 0u64;
        for run in (0..runs).filter(|r| r % chunks == c) {
            if only.map_or(false, |o| o != run) {
                continue;
            }
            let mut events = vec![];
            let big = big_every > 0 && run % big_every == big_every - 1;
            one_run(&mut st, &prop, seed, run, big, &mut events);
            let first = line_no + 1;
            for e in &events {
                writeln!(fh, "{}", serde_json::to_string(e).unwrap()).unwrap();
                line_no += 1;
            }
            index.push(json!({"run": run, "chunk": c, "first_line": first, "last_line": line_no, "big": big}));
        }
        if line_no > 0 {
            files.push(json!({"file": path, "chunk": c, "events": line_no}));
        }
    }
    finish(st, args.req("out"), args.req("replay-dir"), json!({"files": files, "runs": index}));
}

/// replay of a harness-side violation (Builder path differs): the run is regenerated from its seed
pub fn replay_one(v: &Value) -> bool {
    silence_panics();
    let mut st = Stats::default();
    let mut events = vec![];
    one_run(&mut st, v["property"].as_str().unwrap_or("C09"), v["seed"].as_u64().unwrap_or(1), v["run"].as_u64().unwrap_or(0), v["big"].as_bool().unwrap_or(false), &mut events);
    for x in &st.violations {
        println!("reproduced: {}", x.what);
    }
    !st.violations.is_empty()
}
