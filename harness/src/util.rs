//! Small shared helpers: TLC output parsing, PRNG, parallel runner with panic capture + watchdog.
use serde_json::Value;
use std::panic::{self, AssertUnwindSafe};
use std::sync::atomic::{AtomicU64, AtomicUsize, Ordering};
use std::sync::{Arc, Mutex};
use std::time::{Duration, Instant, SystemTime, UNIX_EPOCH};

/// splitmix64 based PRNG (no external crate needed, stable across versions)
#[derive(Clone)]
pub struct Rng(pub u64);
impl Rng {
    pub fn new(seed: u64) -> Self {
        Rng(seed.wrapping_mul(0x9E37_79B9_7F4A_7C15) ^ 0xD1B5_4A32_D192_ED03)
    }
    pub fn next(&mut self) -> u64 {
        self.0 = self.0.wrapping_add(0x9E37_79B9_7F4A_7C15);
        let mut z = self.0;
        z = (z ^ (z >> 30)).wrapping_mul(0xBF58_476D_1CE4_E5B9);
        z = (z ^ (z >> 27)).wrapping_mul(0x94D0_49BB_1331_11EB);
        z ^ (z >> 31)
    }
    pub fn below(&mut self, n: u64) -> u64 {
        if n == 0 {
            0
        } else {
            self.next() % n
        }
    }
    pub fn range(&mut self, lo: u64, hi_incl: u64) -> u64 {
        lo + self.below(hi_incl - lo + 1)
    }
    pub fn chance(&mut self, num: u64, den: u64) -> bool {
        self.below(den) < num
    }
    pub fn shuffle<T>(&mut self, v: &mut [T]) {
        for i in (1..v.len()).rev() {
            let j = self.below(i as u64 + 1) as usize;
            v.swap(i, j);
        }
    }
    pub fn pick<'a, T>(&mut self, v: &'a [T]) -> &'a T {
        &v[self.below(v.len() as u64) as usize]
    }
}

/// Extract the JSON payload of a TLC `PrintT(<<"TAG", ToJson(x)>>)` line.
/// TLC prints `<<"TAG", "{\"k\":...}">>`; returns None for other lines.
pub fn parse_tlc_line(line: &str, tag: &str) -> Option<Value> {
    let line = line.trim();
    let prefix = format!("<<\"{tag}\", ");
    let rest = line.strip_prefix(&prefix)?;
    let rest = rest.strip_suffix(">>")?;
    // rest is a TLA+ string literal: a JSON string literal is compatible for the escapes TLC emits
    let inner: String = serde_json::from_str(rest).ok()?;
    serde_json::from_str(&inner).ok()
}

/// Streaming variant: only the tagged lines whose running index belongs to the shard are parsed.
/// Returns (total number of tagged lines, parsed lines of this shard).
pub fn read_tlc_lines_sharded(path: &str, tag: &str, shard: (u64, u64)) -> (usize, Vec<Value>) {
    use std::io::BufRead;
    let f = std::fs::File::open(path).unwrap_or_else(|e| {
        eprintln!("cannot read {path}: {e}");
        std::process::exit(2)
    });
    let prefix = format!("<<\"{tag}\", ");
    let mut n = 0usize;
    let mut kept_bytes = 0usize;
    let mut out = vec![];
    for line in std::io::BufReader::with_capacity(1 << 20, f).lines() {
        let Ok(line) = line else { continue };
        if !line.starts_with(&prefix) {
            continue;
        }
        if (n as u64) % shard.1 == shard.0 {
            // safety net: 16 shards share 62 GB without swap; parsed JSON takes several times the text
            kept_bytes += line.len();
            if kept_bytes > (200 << 20) {
                eprintln!("input {path} is too large to be held in memory by one shard (> 200 MB of text per shard): use a smaller configuration or the streaming reader");
                std::process::exit(2);
            }
            if let Some(v) = parse_tlc_line(&line, tag) {
                out.push(v);
            }
        }
        n += 1;
    }
    (n, out)
}

/// Streaming variant for inputs of millions of lines: every tagged line of the shard is parsed, handed to `f`
/// and dropped again.  Returns the total number of tagged lines.
pub fn stream_tlc_lines_sharded(path: &str, tag: &str, shard: (u64, u64), mut f: impl FnMut(usize, Value)) -> usize {
    use std::io::BufRead;
    let file = std::fs::File::open(path).unwrap_or_else(|e| {
        eprintln!("cannot read {path}: {e}");
        std::process::exit(2)
    });
    let prefix = format!("<<\"{tag}\", ");
    let mut n = 0usize;
    let mut k = 0usize;
    for line in std::io::BufReader::with_capacity(1 << 20, file).lines() {
        let Ok(line) = line else { continue };
        if !line.starts_with(&prefix) {
            continue;
        }
        if (n as u64) % shard.1 == shard.0 {
            if let Some(v) = parse_tlc_line(&line, tag) {
                f(k, v);
                k += 1;
            }
        }
        n += 1;
    }
    n
}

pub fn read_tlc_lines(path: &str, tag: &str) -> Vec<Value> {
    let text = std::fs::read_to_string(path).unwrap_or_else(|e| {
        eprintln!("cannot read {path}: {e}");
        std::process::exit(2)
    });
    text.lines().filter_map(|l| parse_tlc_line(l, tag)).collect()
}

/// ToJson prints a function with domain 1..n as an array and any other integer domain as an
/// object with string keys; accept both and return (key, value) pairs.
pub fn fun_entries(v: &Value) -> Vec<(i64, Value)> {
    match v {
        Value::Array(a) => a.iter().enumerate().map(|(i, x)| (i as i64 + 1, x.clone())).collect(),
        Value::Object(o) => o.iter().map(|(k, x)| (k.parse::<i64>().unwrap_or(-1), x.clone())).collect(),
        _ => vec![],
    }
}

pub fn as_u32(v: &Value) -> u32 {
    v.as_u64().unwrap_or_else(|| panic!("expected unsigned integer, got {v}")) as u32
}
pub fn as_i64(v: &Value) -> i64 {
    v.as_i64().unwrap_or_else(|| panic!("expected integer, got {v}"))
}
pub fn u32_list(v: &Value) -> Vec<u32> {
    match v {
        Value::Array(a) => a.iter().map(as_u32).collect(),
        Value::Null => vec![],
        Value::Object(o) if o.is_empty() => vec![],
        _ => panic!("expected array, got {v}"),
    }
}
pub fn arr(v: &Value) -> Vec<Value> {
    match v {
        Value::Array(a) => a.clone(),
        Value::Null => vec![],
        Value::Object(o) if o.is_empty() => vec![],
        _ => panic!("expected array, got {v}"),
    }
}

pub fn fnv(s: &str) -> u64 {
    let mut h: u64 = 0xcbf29ce484222325;
    for b in s.bytes() {
        h ^= b as u64;
        h = h.wrapping_mul(0x100000001b3);
    }
    h
}

/// Outcome of running code under test: value, or the panic message.
pub fn catch<T>(f: impl FnOnce() -> T) -> Result<T, String> {
    panic::catch_unwind(AssertUnwindSafe(f)).map_err(|e| {
        if let Some(s) = e.downcast_ref::<&str>() {
            (*s).to_string()
        } else if let Some(s) = e.downcast_ref::<String>() {
            s.clone()
        } else {
            "panic".to_string()
        }
    })
}

pub fn silence_panics() {
    if std::env::var_os("HV_PANIC_VERBOSE").is_some() {
        return;
    }
    panic::set_hook(Box::new(|_| {}));
}

#[derive(Default, Clone)]
pub struct Violation {
    pub property: String,
    pub what: String,
    pub replay: Value,
}

#[derive(Default)]
pub struct Stats {
    pub cases: u64,
    pub evaluations: u64,
    pub nontrivial: u64,
    pub violations: Vec<Violation>,
    pub counters: std::collections::BTreeMap<String, u64>,
    pub samples: Vec<Value>,
}
impl Stats {
    pub fn bump(&mut self, k: &str, n: u64) {
        *self.counters.entry(k.to_string()).or_insert(0) += n;
    }
    pub fn merge(&mut self, o: Stats) {
        self.cases += o.cases;
        self.evaluations += o.evaluations;
        self.nontrivial += o.nontrivial;
        for v in o.violations {
            if self.violations.len() < 50 {
                self.violations.push(v);
            }
        }
        for (k, n) in o.counters {
            let e = self.counters.entry(k.clone()).or_insert(0);
            if k.starts_with("max_") {
                *e = (*e).max(n);
            } else {
                *e += n;
            }
        }
        for s in o.samples {
            if self.samples.len() < 3 {
                self.samples.push(s);
            }
        }
    }
}

fn now_ms() -> u64 {
    SystemTime::now().duration_since(UNIX_EPOCH).unwrap().as_millis() as u64
}

/// Run `f` over all items on `threads` threads. A case that runs longer than `hang_s`
/// seconds is reported as a hang: the process prints the violation and exits 1.
pub fn run_parallel<T: Sync + Send, F>(items: &[T], threads: usize, hang_s: u64, on_hang: impl Fn(usize) + Send + Sync + 'static, f: F) -> Stats
where
    F: Fn(usize, &T, &mut Stats) + Sync + Send,
{
    let next = AtomicUsize::new(0);
    let threads = threads.max(1).min(items.len().max(1));
    let started: Arc<Vec<(AtomicU64, AtomicUsize)>> = Arc::new((0..threads).map(|_| (AtomicU64::new(0), AtomicUsize::new(usize::MAX))).collect());
    let done = Arc::new(AtomicUsize::new(0));
    {
        let started = started.clone();
        let done = done.clone();
        std::thread::spawn(move || loop {
            std::thread::sleep(Duration::from_millis(500));
            if done.load(Ordering::SeqCst) == 1 {
                return;
            }
            let now = now_ms();
            for (t0, idx) in started.iter() {
                let t0 = t0.load(Ordering::SeqCst);
                let i = idx.load(Ordering::SeqCst);
                if t0 != 0 && i != usize::MAX && now.saturating_sub(t0) > hang_s * 1000 {
                    on_hang(i);
                    std::process::exit(1);
                }
            }
        });
    }
    let total = Mutex::new(Stats::default());
    std::thread::scope(|s| {
        for tid in 0..threads {
            let next = &next;
            let f = &f;
            let total = &total;
            let started = started.clone();
            s.spawn(move || {
                let mut st = Stats::default();
                loop {
                    let i = next.fetch_add(1, Ordering::SeqCst);
                    if i >= items.len() {
                        break;
                    }
                    started[tid].1.store(i, Ordering::SeqCst);
                    started[tid].0.store(now_ms(), Ordering::SeqCst);
                    f(i, &items[i], &mut st);
                    started[tid].0.store(0, Ordering::SeqCst);
                }
                total.lock().unwrap().merge(st);
            });
        }
    });
    done.store(1, Ordering::SeqCst);
    total.into_inner().unwrap()
}

pub struct Timer(Instant);
impl Timer {
    pub fn start() -> Self {
        Timer(Instant::now())
    }
    pub fn secs(&self) -> f64 {
        self.0.elapsed().as_secs_f64()
    }
}

/// Common CLI: --key value pairs
pub struct Args(pub std::collections::BTreeMap<String, String>);
impl Args {
    pub fn parse(a: &[String]) -> Self {
        let mut m = std::collections::BTreeMap::new();
        let mut i = 0;
        while i < a.len() {
            if let Some(k) = a[i].strip_prefix("--") {
                if i + 1 < a.len() && !a[i + 1].starts_with("--") {
                    m.insert(k.to_string(), a[i + 1].clone());
                    i += 2;
                } else {
                    m.insert(k.to_string(), "1".to_string());
                    i += 1;
                }
            } else {
                i += 1;
            }
        }
        Args(m)
    }
    pub fn get(&self, k: &str) -> Option<&str> {
        self.0.get(k).map(|s| s.as_str())
    }
    pub fn req(&self, k: &str) -> &str {
        self.get(k).unwrap_or_else(|| {
            eprintln!("missing --{k}");
            std::process::exit(2)
        })
    }
    pub fn num(&self, k: &str, d: u64) -> u64 {
        self.get(k).map(|s| s.parse().unwrap_or(d)).unwrap_or(d)
    }
}

/// Write the summary JSON the python driver reads, plus replay files for violations.
pub fn finish(stats: Stats, out: &str, replay_dir: &str, extra: Value) {
    let mut viols = vec![];
    std::fs::create_dir_all(replay_dir).ok();
    for v in &stats.violations {
        let body = serde_json::to_string(&v.replay).unwrap();
        let name = format!("{}/{}-{:016x}.json", replay_dir, v.property, fnv(&body));
        std::fs::write(&name, serde_json::to_string_pretty(&v.replay).unwrap()).ok();
        viols.push(serde_json::json!({"property": v.property, "what": v.what, "replay": name}));
    }
    let summary = serde_json::json!({
        "cases": stats.cases,
        "evaluations": stats.evaluations,
        "nontrivial": stats.nontrivial,
        "counters": stats.counters,
        "samples": stats.samples,
        "violations": viols,
        "extra": extra,
    });
    std::fs::write(out, serde_json::to_string_pretty(&summary).unwrap()).unwrap_or_else(|e| {
        eprintln!("cannot write {out}: {e}");
        std::process::exit(2)
    });
}

/// Process-level sharding.  Threads of one process contend on the address-space lock because
/// every `Builder::new()` maps an 80 MB table, so the work is split over child processes.
/// Returns Some((shard, nshards)) in a child / unsharded run, None in the parent after it has
/// spawned the children and merged their summaries into --out.
/// When a shard process dies (abort, stack overflow, signal) the parent runs it once more with `--progress <file>`:
/// guard_case then writes the case it is about to replay into that file, so that the death can be attributed.
static PROGRESS: std::sync::OnceLock<Option<String>> = std::sync::OnceLock::new();

fn note_progress(line: &Value) {
    if let Some(Some(path)) = PROGRESS.get() {
        let mut l = line.clone();
        for k in ["bytes", "lbytes", "rbytes"] {
            if l[k].as_array().map_or(false, |a| a.len() > 4000) {
                l[k] = Value::from("...");
            }
        }
        std::fs::write(path, serde_json::to_string(&l).unwrap_or_default()).ok();
    }
}

pub fn shard_or_spawn(cmd: &str, args: &Args) -> Option<(u64, u64)> {
    PROGRESS.get_or_init(|| args.get("progress").map(|s| s.to_string()));
    if let Some(s) = args.get("shard") {
        return Some((s.parse().unwrap(), args.num("nshards", 1)));
    }
    let procs = args.num("procs", 16);
    if procs <= 1 {
        return Some((0, 1));
    }
    let exe = std::env::current_exe().expect("current_exe");
    let out = args.req("out").to_string();
    let mut children = vec![];
    for i in 0..procs {
        let mut c = std::process::Command::new(&exe);
        c.arg(cmd);
        for (k, v) in &args.0 {
            if k == "out" || k == "procs" {
                continue;
            }
            c.arg(format!("--{k}")).arg(v);
        }
        c.arg("--out").arg(format!("{out}.{i}")).arg("--shard").arg(i.to_string()).arg("--nshards").arg(procs.to_string());
        children.push(c.spawn().expect("spawn shard"));
    }
    let mut bad = false;
    let mut hang = false;
    let mut died: Vec<u64> = vec![];
    for (i, mut c) in children.into_iter().enumerate() {
        let st = c.wait().expect("wait");
        match st.code() {
            Some(0) => {}
            Some(1) => hang = true, // a shard reported a hang (it printed the VIOLATION line itself)
            Some(2) => bad = true,  // the shard itself reported a tool error
            _ => died.push(i as u64), // killed by a signal / aborted (stack overflow, abort() in the code under test)
        }
    }
    // a dead shard is DATA about the code under test: run it again with a progress file to learn which case killed it
    for i in died {
        let prog = format!("{out}.{i}.progress");
        std::fs::remove_file(&prog).ok();
        let mut c = std::process::Command::new(&exe);
        c.arg(cmd);
        for (k, v) in &args.0 {
            if k == "out" || k == "procs" {
                continue;
            }
            c.arg(format!("--{k}")).arg(v);
        }
        c.arg("--out").arg(format!("{out}.{i}")).arg("--shard").arg(i.to_string()).arg("--nshards").arg(procs.to_string()).arg("--progress").arg(&prog);
        let st = c.stderr(std::process::Stdio::null()).status().expect("rerun shard");
        match st.code() {
            Some(0) | Some(1) => {
                eprintln!("shard {i} died once and succeeded when run again: not reproducible");
                bad = true;
            }
            Some(2) => bad = true,
            _ => {
                let line: Value = std::fs::read_to_string(&prog).ok().and_then(|t| serde_json::from_str(&t).ok()).unwrap_or(Value::Null);
                let prop = args.get("prop").unwrap_or("EXTRA").to_string();
                let how = match st.code() {
                    Some(c) => format!("exit status {c}"),
                    None => "a signal (abort / stack overflow / segmentation fault)".to_string(),
                };
                let what = format!("the process replaying this case was killed by {how}: the code under test aborted, overflowed its stack or crashed");
                let replay = serde_json::json!({"cmd": cmd, "property": prop, "seed": args.num("seed", 1), "line": line, "process_died": true, "diffs": [what.clone()]});
                let replay_dir = args.req("replay-dir");
                std::fs::create_dir_all(replay_dir).ok();
                let name = format!("{}/{}-died-{:016x}.json", replay_dir, prop, fnv(&replay.to_string()));
                std::fs::write(&name, serde_json::to_string_pretty(&replay).unwrap()).ok();
                let summary = serde_json::json!({"cases": 1, "evaluations": 1, "nontrivial": 0, "counters": {"shards_died": 1}, "samples": [], "extra": {},
                    "violations": [{"property": prop, "what": what, "replay": name}]});
                std::fs::write(format!("{out}.{i}"), serde_json::to_string(&summary).unwrap()).expect("write summary of the dead shard");
            }
        }
        std::fs::remove_file(&prog).ok();
    }
    if bad {
        eprintln!("a shard failed");
        std::process::exit(2);
    }
    // merge
    let mut m = serde_json::json!({"cases":0u64,"evaluations":0u64,"nontrivial":0u64,"counters":{},"samples":[],"violations":[],"extra":{}});
    for i in 0..procs {
        let p = format!("{out}.{i}");
        let Ok(text) = std::fs::read_to_string(&p) else {
            if hang {
                continue;
            }
            eprintln!("missing shard output {p}");
            std::process::exit(2)
        };
        std::fs::remove_file(&p).ok();
        let s: Value = serde_json::from_str(&text).expect("shard json");
        for k in ["cases", "evaluations", "nontrivial"] {
            m[k] = Value::from(m[k].as_u64().unwrap() + s[k].as_u64().unwrap_or(0));
        }
        if let Some(o) = s["counters"].as_object() {
            for (k, v) in o {
                let cur = m["counters"].get(k).and_then(|x| x.as_u64()).unwrap_or(0);
                let n = v.as_u64().unwrap_or(0);
                m["counters"][k] = Value::from(if k.starts_with("max_") { cur.max(n) } else { cur + n });
            }
        }
        if let Some(o) = s["extra"].as_object() {
            for (k, v) in o {
                if let Some(n) = v.as_u64() {
                    let cur = m["extra"].get(k).and_then(|x| x.as_u64()).unwrap_or(0);
                    m["extra"][k] = Value::from(cur + n);
                } else if m["extra"].get(k).is_none() {
                    m["extra"][k] = v.clone();
                }
            }
        }
        for k in ["samples", "violations"] {
            let cap = if k == "samples" { 3 } else { 50 };
            for x in s[k].as_array().cloned().unwrap_or_default() {
                if m[k].as_array().unwrap().len() < cap {
                    m[k].as_array_mut().unwrap().push(x);
                }
            }
        }
    }
    if hang {
        m["extra"]["hang"] = Value::from(true);
    }
    std::fs::write(&out, serde_json::to_string_pretty(&m).unwrap()).expect("write merged summary");
    None
}

pub fn in_shard(idx: usize, shard: (u64, u64)) -> bool {
    (idx as u64) % shard.1 == shard.0
}

/// Run one case; a panic that escapes from the code under test while it is being observed
/// (e.g. `Ontology::iter()` panicking) is DATA: it becomes a violation of the property, never a
/// crash of the harness.
pub fn guard_case(st: &mut Stats, prop: &str, cmd: &str, line: &Value, f: impl FnOnce(&mut Stats)) {
    note_progress(line);
    let before = st.violations.len();
    let r = panic::catch_unwind(AssertUnwindSafe(|| f(st)));
    if let Err(e) = r {
        let msg = if let Some(s) = e.downcast_ref::<&str>() {
            (*s).to_string()
        } else if let Some(s) = e.downcast_ref::<String>() {
            s.clone()
        } else {
            "panic".to_string()
        };
        if st.violations.len() == before {
            let mut l = line.clone();
            for k in ["bytes", "lbytes", "rbytes"] {
                if l[k].as_array().map_or(false, |a| a.len() > 4000) {
                    l[k] = Value::from("...");
                }
            }
            st.violations.push(Violation {
                property: prop.to_string(),
                what: format!("panic while the ontology was observed through the public read API: {msg}"),
                replay: serde_json::json!({"cmd": cmd, "property": prop, "line": l, "diffs": [format!("panic: {msg}")]}),
            });
        }
    }
}
