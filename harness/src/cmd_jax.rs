//! C09: JAX text loaders.  TLC (spec/HpoJax.tla via mc/MC_Jax.tla) emits structured file sets
//! (noise, permutations) together with the projection the loaders must produce; this module
//! renders them to text with a deliberately dumb renderer and runs from_standard and
//! from_standard_transitive on them.
use crate::cmd_binary::{expected_of, name_of, scenario_of};
use crate::enc;
use crate::paths::*;
use crate::project::*;
use crate::scenario::*;
use crate::util::*;
use serde_json::{json, Value};

fn render_line(l: &Value) -> String {
    match l["tag"].as_str().unwrap() {
        "id" => format!("id: {}", hp(as_u32(&l["id"]))),
        "name" => format!("name: {}", name_of(&l["name"])),
        "is_a" => format!("is_a: {} ! {}", hp(as_u32(&l["id"])), name_of(&l["comment"])),
        "is_obsolete" => "is_obsolete: true".to_string(),
        "replaced_by" => format!("replaced_by: {}", hp(as_u32(&l["id"]))),
        "format-version" => "format-version: 1.2".to_string(),
        "data-version" => {
            let v = u32_list(&l["v"]);
            format!("data-version: hp/releases/{:04}-{:02}-{:02}", v[0], v[1], v[2])
        }
        "other" => format!("{}: {}", l["key"].as_str().unwrap(), name_of(&l["text"])),
        t => panic!("unknown tag {t}"),
    }
}

pub fn render(files: &Value) -> JaxFiles {
    let mut f = JaxFiles::default();
    let mut blocks = vec![];
    for b in arr(&files["obo"]) {
        let mut lines: Vec<String> = vec![];
        match b["kind"].as_str().unwrap() {
            "Term" => lines.push("[Term]".into()),
            "Typedef" => lines.push("[Typedef]".into()),
            _ => {}
        }
        for l in arr(&b["lines"]) {
            lines.push(render_line(&l));
        }
        blocks.push(lines.join("\n"));
    }
    // the noisy presets end the file with an empty line (the last stanza is closed like every other one)
    f.obo = blocks.join("\n\n") + if files["genes"]["header"].as_u64() == Some(2) { "\n" } else { "\n\n" };
    // the extra columns carry arbitrary text - among it the word NOT, which is a qualifier only in the qualifier column
    let extra = |n: u64| -> String { (0..n).map(|i| if i % 3 == 1 { "\tNOT".to_string() } else { format!("\tcol{i}") }).collect::<String>() };
    let header = match files["genes"]["header"].as_u64().unwrap() {
        1 => "#ncbi_gene_id\tgene_symbol\thpo_id\thpo_name",
        2 => "ncbi_gene_id\tgene_symbol\thpo_id\thpo_name\tfrequency\tdisease_id",
        _ => "hpo_id\thpo_name\tncbi_gene_id\tgene_symbol\tdisease_id",
    };
    f.genes_to_phenotype = format!("{header}\n");
    f.phenotype_to_genes = format!("{header}\n");
    for r in arr(&files["genes"]["rows"]) {
        let (x, sym, t, e) = (as_u32(&r["x"]), name_of(&r["name"]), as_u32(&r["t"]), r["extra"].as_u64().unwrap());
        f.genes_to_phenotype.push_str(&format!("{x}\t{sym}\t{}{}\n", hp(t), extra(e)));
        f.phenotype_to_genes.push_str(&format!("{}\tterm name\t{x}\t{sym}{}\n", hp(t), extra(e)));
    }
    for it in arr(&files["hpoa"]) {
        match it["kind"].as_str().unwrap() {
            "comment" => f.hpoa.push_str("#description: \"HPO annotations\"; OMIM:1\tx\t\tHP:0000001\n"),
            "colheader" => f.hpoa.push_str("database_id\tdisease_name\tqualifier\thpo_id\treference\tevidence\tonset\tfrequency\tsex\tmodifier\taspect\tbiocuration\n"),
            _ => {
                let e = it["extra"].as_u64().unwrap();
                f.hpoa.push_str(&format!(
                    "{}:{}\t{}\t{}\t{}{}\n",
                    it["db"].as_str().unwrap(),
                    as_u32(&it["x"]),
                    name_of(&it["name"]),
                    it["qual"].as_str().unwrap(),
                    hp(as_u32(&it["t"])),
                    extra(e)
                ));
            }
        }
    }
    f
}

pub fn replay_line(st: &mut Stats, prop: &str, idx: usize, line: &Value) {
    st.cases += 1;
    let files = render(&line["files"]);
    let exp = expected_of(&line["o"], &line["expect"]);
    let all = [Focus::Struct, Focus::Ann, Focus::Meta];
    let everything = [Focus::Struct, Focus::Ann, Focus::Ic, Focus::Meta];
    let mut diffs: Vec<String> = vec![];
    let mut loaded: Option<Expected> = None;
    for (what, transitive) in [("from_standard", false), ("from_standard_transitive", true)] {
        st.evaluations += 1;
        match via_jax(&files, transitive) {
            Ok(ont) => {
                for x in compare(&ont, &exp, &all) {
                    diffs.push(format!("{what}: {x}"));
                }
                if loaded.is_none() {
                    loaded = Some(observe(&ont));
                }
            }
            Err(e) => diffs.push(format!("{what} failed on a file set inside the documented envelope: {e}")),
        }
    }
    // the same facts through the Builder API and the binary format give the same ontology
    let scn = scenario_of(&line["o"]);
    if !scn.terms.iter().any(|t| t.obsolete || t.repl.is_some()) {
        st.evaluations += 1;
        match via_builder(&scn, EdgeOrder::AsGiven, false, true) {
            Ok(ont) => {
                // observationally identical (everything incl. information content) to what the text loader produced
                if let Some(l) = &loaded {
                    for x in compare(&ont, l, &everything) {
                        diffs.push(format!("Builder path with the same facts differs from the loaded ontology: {x}"));
                    }
                }
            }
            Err(e) => diffs.push(format!("Builder path failed: {e}")),
        }
    }
    {
        st.evaluations += 1;
        let (_, b) = via_binary(&scn, 3, None);
        match b {
            Ok(ont) => {
                if let Some(l) = &loaded {
                    for x in compare(&ont, &enc::restrict(l, 3), &everything) {
                        diffs.push(format!("binary path with the same facts differs from the loaded ontology: {x}"));
                    }
                }
            }
            Err(e) => diffs.push(format!("binary path failed: {e}")),
        }
    }
    if line["preset"].as_u64().unwrap_or(1) > 1 {
        st.nontrivial += 1;
    }
    if st.samples.is_empty() && idx % 41 == 7 {
        st.samples.push(json!({"p": line["p"], "preset": line["preset"], "pm": line["pm"], "hp.obo": files.obo, "phenotype.hpoa": files.hpoa, "genes_to_phenotype.txt": files.genes_to_phenotype}));
    }
    if !diffs.is_empty() && st.violations.len() < 8 {
        diffs.truncate(12);
        st.violations.push(Violation { property: prop.to_string(), what: diffs[0].clone(), replay: json!({"cmd": "replay-jax", "property": prop, "line": line, "diffs": diffs}) });
    }
}

pub fn run(args: &Args) {
    silence_panics();
    let Some(shard) = shard_or_spawn("replay-jax", args) else { return };
    let prop = args.get("prop").unwrap_or("C09").to_string();
    let mut st = Stats::default();
    let mut n_lines = 0usize;
    // streamed: the thorough tier emits half a million file sets
    let n_all = stream_tlc_lines_sharded(args.req("in"), "REPLAY", shard, |i, l| {
        n_lines += 1;
        guard_case(&mut st, &prop, "replay-jax", &l, |st| replay_line(st, &prop, i, &l));
    });
    if n_all == 0 {
        eprintln!("no REPLAY lines");
        std::process::exit(2);
    }
    finish(st, args.req("out"), args.req("replay-dir"), json!({"lines": n_lines}));
}

pub fn replay_one(v: &Value) -> bool {
    silence_panics();
    let mut st = Stats::default();
    let prop = v["property"].as_str().unwrap_or("C09").to_string();
    guard_case(&mut st, &prop, "replay-jax", &v["line"], |st| replay_line(st, &prop, 0, &v["line"]));
    for x in &st.violations {
        println!("reproduced: {}", x.what);
        if let Some(d) = x.replay["diffs"].as_array() {
            for l in d {
                println!("   {}", l.as_str().unwrap_or(""));
            }
        }
    }
    !st.violations.is_empty()
}
