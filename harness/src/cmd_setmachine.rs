//! C13 as a state machine (spec/HpoSetMachine.tla): ONE HpoSet object lives through a history of
//! in-place and copying operations; after every step every observer must return the pure function
//! of the CURRENT members that the specification emitted.  World lines (`world`, `bytes`) carry the
//! ontology as spec-encoded v3 bytes; history lines (`variant`, `start`, `initial`, `steps`) refer
//! to a world by its variant number.
use crate::paths::from_bytes;
use crate::util::*;
use hpo::annotations::AnnotationId;
use hpo::term::HpoGroup;
use hpo::{HpoSet, Ontology};
use serde_json::{json, Value};
use std::collections::BTreeMap;

fn bytes_of(v: &Value) -> Vec<u8> {
    arr(v).iter().map(|b| b.as_u64().unwrap() as u8).collect()
}

fn members(set: &HpoSet) -> Vec<u32> {
    set.iter().map(|t| t.id().as_u32()).collect()
}

/// every observer of the object against one `obs` record of the specification
fn observe(set: &HpoSet, obs: &Value, at: &str, d: &mut Vec<String>) {
    let want = u32_list(&obs["members"]);
    let got = members(set);
    if got != want {
        d.push(format!("{at}: iter() gives {:?}, expected {:?}", got, want));
    }
    let by_ref: Vec<u32> = (&*set).into_iter().map(|t| t.id().as_u32()).collect();
    if by_ref != want {
        d.push(format!("{at}: `for t in &set` gives {:?}, expected {:?}", by_ref, want));
    }
    if set.len() != want.len() || set.is_empty() != want.is_empty() {
        d.push(format!("{at}: len() = {}, is_empty() = {}, expected {} members", set.len(), set.is_empty(), want.len()));
    }
    let by_get: Vec<u32> = (0..set.len() + 1).filter_map(|i| set.get(i).map(|t| t.id().as_u32())).collect();
    if by_get != want {
        d.push(format!("{at}: get(0..) gives {:?}, expected {:?}", by_get, want));
    }
    let mut probe: Vec<u32> = vec![1, 2, 3, 4, 5, 6, 118, 7];
    probe.extend(want.iter().flat_map(|x| [*x, x.wrapping_sub(1), x + 1]));
    for id in probe {
        if set.contains(&id.into()) != want.contains(&id) {
            d.push(format!("{at}: contains({id}) = {}, members are {:?}", set.contains(&id.into()), want));
        }
    }
    let mut g: Vec<u32> = set.gene_ids().iter().map(|x| x.as_u32()).collect();
    g.sort_unstable();
    if g != u32_list(&obs["genes"]) {
        d.push(format!("{at}: gene_ids() = {:?}, expected {}", g, obs["genes"]));
    }
    let mut o: Vec<u32> = set.omim_disease_ids().iter().map(|x| x.as_u32()).collect();
    o.sort_unstable();
    if o != u32_list(&obs["omim"]) {
        d.push(format!("{at}: omim_disease_ids() = {:?}, expected {}", o, obs["omim"]));
    }
    let mut r: Vec<u32> = set.orpha_disease_ids().iter().map(|x| x.as_u32()).collect();
    r.sort_unstable();
    if r != u32_list(&obs["orpha"]) {
        d.push(format!("{at}: orpha_disease_ids() = {:?}, expected {}", r, obs["orpha"]));
    }
    match set.information_content() {
        Ok(ic) => {
            for (kind, key, got) in [("gene", "ic_gene", ic.gene()), ("omim", "ic_omim", ic.omim_disease())] {
                let n = obs[key][0].as_u64().unwrap() as f64;
                let big_n = obs[key][1].as_u64().unwrap() as f64;
                let want = if n == 0.0 || big_n == 0.0 { 0.0 } else { -(n / big_n).ln() };
                if !(got.is_finite() && (got as f64 - want).abs() <= 1e-5 * want.abs().max(1.0)) {
                    d.push(format!("{at}: information_content().{kind} = {got}, expected -ln({n}/{big_n}) = {want}"));
                }
            }
        }
        Err(e) => d.push(format!("{at}: information_content() failed: {e}")),
    }
    let want: BTreeMap<u32, usize> = arr(&obs["categories"]).iter().map(|p| (as_u32(&p[0]), p[1].as_u64().unwrap() as usize)).collect();
    let got: BTreeMap<u32, usize> = set.categories().into_iter().map(|(k, v)| (k.as_u32(), v)).collect();
    if got != want {
        d.push(format!("{at}: categories() = {:?}, expected {:?}", got, want));
    }
}

pub fn replay_history(st: &mut Stats, ont: &Ontology, line: &Value) -> Vec<String> {
    let mut d = vec![];
    let start = u32_list(&line["start"]);
    let mut g = HpoGroup::new();
    for id in &start {
        g.insert(*id);
    }
    let mut set = HpoSet::new(ont, g);
    observe(&set, &line["initial"], &format!("new set {:?}", start), &mut d);
    let mut trail = format!("{:?}", start);
    for step in arr(&line["steps"]) {
        st.evaluations += 1;
        let name = step["op"]["name"].as_str().unwrap().to_string();
        let arg = as_u32(&step["op"]["arg"]);
        trail = if name == "extend" { format!("{trail}.extend({arg})") } else { format!("{trail}.{name}()") };
        let before = members(&set);
        match name.as_str() {
            "remove_modifier" => set.remove_modifier(),
            "remove_obsolete" => set.remove_obsolete(),
            "replace_obsolete" => set.replace_obsolete(),
            "extend" => set.extend(ont.hpo(arg)),
            "child_nodes" | "without_modifier" | "without_obsolete" | "with_replaced_obsolete" => {
                let new = match name.as_str() {
                    "child_nodes" => set.child_nodes(),
                    "without_modifier" => set.without_modifier(),
                    "without_obsolete" => set.without_obsolete(),
                    _ => set.with_replaced_obsolete(),
                };
                if members(&set) != before {
                    d.push(format!("{trail}: the copying operation changed the original set from {:?} to {:?}", before, members(&set)));
                }
                set = new;
            }
            other => panic!("unknown operation {other}"),
        }
        observe(&set, &step["obs"], &trail, &mut d);
        if d.len() > 6 {
            break;
        }
    }
    d
}

fn load_worlds(lines: &[Value]) -> BTreeMap<u64, (Ontology, Value)> {
    let mut m = BTreeMap::new();
    for l in lines {
        if let Some(w) = l.get("world") {
            let ont = from_bytes(&bytes_of(&l["bytes"])).unwrap_or_else(|e| {
                eprintln!("cannot load world {w}: {e}");
                std::process::exit(2)
            });
            m.insert(w.as_u64().unwrap(), (ont, l.clone()));
        }
    }
    m
}

pub fn run(args: &Args) {
    silence_panics();
    let Some(shard) = shard_or_spawn("replay-setmachine", args) else { return };
    let prop = args.get("prop").unwrap_or("C13").to_string();
    // the worlds are needed by every shard
    let worlds = load_worlds(&read_tlc_lines(args.req("worlds"), "REPLAY"));
    if worlds.is_empty() {
        eprintln!("no worlds");
        std::process::exit(2);
    }
    let mut st = Stats::default();
    if shard.0 == 0 {
        for (w, (ont, l)) in &worlds {
            let ids = |g: &HpoGroup| -> Vec<u32> { g.iter().map(|x| x.as_u32()).collect() };
            if ids(ont.modifier()) != u32_list(&l["modifier"]) || ids(ont.categories()) != u32_list(&l["categories"]) {
                st.violations.push(Violation { property: prop.clone(), what: format!("world {w}: modifier()/categories() = {:?}/{:?}, expected {}/{}", ids(ont.modifier()), ids(ont.categories()), l["modifier"], l["categories"]),
                    replay: json!({"cmd": "replay-setmachine", "property": prop, "world": l, "line": Value::Null, "diffs": []}) });
            }
        }
    }
    let mut n_lines = 0usize;
    // streamed: the thorough tier emits several hundred thousand histories
    let n_all = stream_tlc_lines_sharded(args.req("in"), "REPLAY", shard, |i, l| {
        let l = &l;
        if l.get("world").is_some() {
            return;
        }
        n_lines += 1;
        st.cases += 1;
        let steps = arr(&l["steps"]);
        let changes = steps.iter().filter(|s| s["obs"]["members"] != l["initial"]["members"]).count();
        if changes > 0 {
            st.nontrivial += 1;
        }
        let Some((ont, wl)) = worlds.get(&l["variant"].as_u64().unwrap_or(0)) else {
            eprintln!("history refers to an unknown world");
            std::process::exit(2)
        };
        guard_case(&mut st, &prop, "replay-setmachine", l, |st| {
            let mut d = replay_history(st, ont, l);
            if !d.is_empty() && st.violations.len() < 8 {
                d.truncate(8);
                st.violations.push(Violation { property: prop.clone(), what: d[0].clone(), replay: json!({"cmd": "replay-setmachine", "property": prop, "world": wl, "line": l, "diffs": d}) });
            }
        });
        if st.samples.is_empty() && changes >= 2 && i % 31 == 7 {
            st.samples.push(l.clone());
        }
    });
    if n_all == 0 {
        eprintln!("no REPLAY lines");
        std::process::exit(2);
    }
    finish(st, args.req("out"), args.req("replay-dir"), json!({"lines": n_lines, "worlds": worlds.len()}));
}

pub fn replay_one(v: &Value) -> bool {
    silence_panics();
    let Ok(ont) = from_bytes(&bytes_of(&v["world"]["bytes"])) else {
        println!("reproduced: the world cannot be loaded");
        return true;
    };
    if v["line"].is_null() {
        return true;
    }
    let mut st = Stats::default();
    let d = match catch(|| replay_history(&mut st, &ont, &v["line"])) {
        Ok(d) => d,
        Err(p) => vec![format!("panic: {p}")],
    };
    for l in &d {
        println!("reproduced: {l}");
    }
    !d.is_empty()
}
