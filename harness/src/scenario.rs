//! Scenarios (call sequences / fact sets) and the expected abstract state, as emitted by TLC.
use crate::util::*;
use serde_json::{json, Value};
use std::collections::{BTreeMap, BTreeSet};

#[derive(Clone, Copy, PartialEq, Eq, Debug, PartialOrd, Ord)]
pub enum Kind {
    Gene = 0,
    Omim = 1,
    Orpha = 2,
}
pub const KINDS: [Kind; 3] = [Kind::Gene, Kind::Omim, Kind::Orpha];
impl Kind {
    pub fn name(self) -> &'static str {
        match self {
            Kind::Gene => "gene",
            Kind::Omim => "omim",
            Kind::Orpha => "orpha",
        }
    }
    pub fn parse(s: &str) -> Kind {
        match s {
            "gene" => Kind::Gene,
            "omim" => Kind::Omim,
            "orpha" => Kind::Orpha,
            _ => panic!("unknown kind {s}"),
        }
    }
}

#[derive(Clone, Debug)]
pub struct TermSpec {
    pub id: u32,
    pub name: String,
    pub obsolete: bool,
    pub repl: Option<u32>,
}

#[derive(Clone, Debug)]
pub struct Fact {
    pub kind: Kind,
    pub x: u32,
    pub name: String,
    /// None = add_gene / add_*_disease (a record without a term)
    pub term: Option<u32>,
}

#[derive(Clone, Debug, Default)]
pub struct Scenario {
    pub terms: Vec<TermSpec>,
    /// (parent, child) in supply order
    pub edges: Vec<(u32, u32)>,
    pub facts: Vec<Fact>,
    pub version: (u16, u8, u8),
}

#[derive(Clone, Debug, Default, PartialEq)]
pub struct ExpTerm {
    pub name: String,
    pub obsolete: bool,
    pub repl: Option<u32>,
    pub parents: BTreeSet<u32>,
    pub children: BTreeSet<u32>,
    pub allp: BTreeSet<u32>,
    pub ann: [BTreeSet<u32>; 3],
}

#[derive(Clone, Debug, Default)]
pub struct ExpRec {
    pub name: String,
    pub hpos: BTreeSet<u32>,
}

#[derive(Clone, Debug, Default)]
pub struct Expected {
    pub terms: BTreeMap<u32, ExpTerm>,
    /// iteration (arena) order if the construction path fixes one
    pub order: Option<Vec<u32>>,
    pub recs: [BTreeMap<u32, ExpRec>; 3],
    pub version: (u16, u8, u8),
    /// documented defaults for categories / modifiers applied (HP:1 and HP:118 present)
    pub defaults: bool,
}

impl Expected {
    pub fn n_total(&self, k: Kind) -> usize {
        self.recs[k as usize].len()
    }
    /// categories roots / modifier roots per the documented defaults
    pub fn category_roots(&self) -> BTreeSet<u32> {
        if !self.defaults {
            return BTreeSet::new();
        }
        let mut s: BTreeSet<u32> = self.terms[&1].children.iter().copied().filter(|c| *c != 118).collect();
        s.extend(self.terms[&118].children.iter().copied());
        s
    }
    pub fn modifier_roots(&self) -> BTreeSet<u32> {
        if !self.defaults {
            return BTreeSet::new();
        }
        self.terms[&1].children.iter().copied().filter(|c| *c != 118).collect()
    }
    pub fn has_roots(&self) -> bool {
        self.terms.contains_key(&1) && self.terms.contains_key(&118)
    }
}

/// Order preserving map from model ids to real ids.
#[derive(Clone, Debug)]
pub struct Concretisation {
    pub name: String,
    pub map: BTreeMap<u32, u32>,
}
impl Concretisation {
    pub fn identity(ids: &[u32]) -> Self {
        Concretisation { name: "identity".into(), map: ids.iter().map(|i| (*i, *i)).collect() }
    }
    pub fn get(&self, m: u32) -> u32 {
        *self.map.get(&m).unwrap_or_else(|| panic!("model id {m} has no concrete id"))
    }
    pub fn to_json(&self) -> Value {
        json!({"name": self.name, "map": self.map.iter().map(|(k, v)| json!([k, v])).collect::<Vec<_>>()})
    }
    pub fn from_json(v: &Value) -> Self {
        Concretisation {
            name: v["name"].as_str().unwrap_or("").to_string(),
            map: arr(&v["map"]).iter().map(|p| (as_u32(&p[0]), as_u32(&p[1]))).collect(),
        }
    }
}

pub const MAX_ID: u32 = 9_999_999;

/// All concretisations tried for a set of model ids (sorted ascending).
/// `roots`: also produce every placement of HP:1 / HP:118 on two of the ids.
pub fn concretisations(model_ids: &[u32], rng: &mut Rng, roots: bool) -> Vec<Concretisation> {
    let n = model_ids.len();
    let mut out = vec![];
    let mk = |name: &str, vals: Vec<u32>| Concretisation {
        name: name.to_string(),
        map: model_ids.iter().copied().zip(vals).collect(),
    };
    // dense 1..n
    out.push(mk("dense", (1..=n as u32).collect()));
    // borders: 0 at the bottom, MAX_ID at the top, spread in between
    if n >= 1 {
        let mut vals = vec![];
        for i in 0..n {
            vals.push(if i == 0 {
                0
            } else if i == n - 1 {
                MAX_ID
            } else {
                (i as u32) * (MAX_ID / n as u32)
            });
        }
        out.push(mk("borders", vals));
    }
    // seeded random increasing
    {
        let mut s = BTreeSet::new();
        while s.len() < n {
            s.insert(rng.range(0, MAX_ID as u64) as u32);
        }
        out.push(mk("random", s.into_iter().collect()));
    }
    if roots && n >= 2 {
        // place HP:1 at position r and HP:118 at position p > r; at most one id below 1 (0),
        // at most 116 between, anything above
        for r in 0..n {
            for p in (r + 1)..n {
                if r > 1 || p - r - 1 > 116 {
                    continue;
                }
                let mut vals = vec![0u32; n];
                for i in 0..n {
                    vals[i] = if i < r {
                        0
                    } else if i == r {
                        1
                    } else if i < p {
                        1 + (i - r) as u32 * (116 / (p - r) as u32).max(1)
                    } else if i == p {
                        118
                    } else {
                        118 + (i - p) as u32 * 1000 + if i == n - 1 { MAX_ID - 118 - (i - p) as u32 * 1000 } else { 0 }
                    };
                }
                out.push(mk(&format!("roots{r}_{p}"), vals));
            }
        }
    }
    out
}

/// The name a record-level call passes; `tag` is the number of the call (every call passes a distinct name, so "first
/// name wins" is observable).  Under the "borders" and "random" id layouts most names are DEGENERATE - empty, the missing-value
/// marker "-" of the annotation files, a blank: a name is an arbitrary string and must not decide anything.
pub fn rec_name(layout: &str, kind: Kind, x: u32, tag: u32) -> String {
    if layout == "borders" || layout == "random" {
        match tag % 4 {
            0 => return String::new(),
            1 => return "-".into(),
            2 => return " ".into(),
            _ => {}
        }
    }
    format!("{}{}#{}", kind.name(), x, tag)
}

/// Build (Scenario, Expected) from a TLC REPLAY record under a concretisation.
/// Record ids are used as they are (they are small and deliberately overlap across kinds).
pub fn from_tlc(line: &Value, c: &Concretisation) -> (Scenario, Expected) {
    let mut scn = Scenario::default();
    let mut exp = Expected::default();
    let arena = u32_list(&line["arena"]);
    for m in &arena {
        let id = c.get(*m);
        scn.terms.push(TermSpec { id, name: format!("T{id}"), obsolete: false, repl: None });
    }
    for e in arr(&line["edges"]) {
        scn.edges.push((c.get(as_u32(&e[0])), c.get(as_u32(&e[1]))));
    }
    for (i, f) in arr(&line["facts"]).iter().enumerate() {
        let kind = Kind::parse(f["k"].as_str().unwrap());
        let x = as_u32(&f["x"]);
        let term = f.get("t").and_then(|t| if t.is_null() { None } else { Some(c.get(as_u32(t))) });
        // every call passes a distinct name: "first name wins" is then observable
        scn.facts.push(Fact { kind, x, name: rec_name(&c.name, kind, x, i as u32 + 1), term });
    }
    let e = &line["expect"];
    for t in arr(&e["terms"]) {
        let id = c.get(as_u32(&t["id"]));
        let set = |k: &str| -> BTreeSet<u32> { u32_list(&t[k]).into_iter().map(|m| c.get(m)).collect() };
        let rset = |k: &str| -> BTreeSet<u32> { u32_list(&t[k]).into_iter().collect() };
        exp.terms.insert(
            id,
            ExpTerm {
                name: format!("T{id}"),
                obsolete: false,
                repl: None,
                parents: set("parents"),
                children: set("children"),
                allp: set("allp"),
                ann: [rset("gene"), rset("omim"), rset("orpha")],
            },
        );
    }
    exp.order = Some(scn.terms.iter().map(|t| t.id).collect());
    for k in KINDS {
        for r in arr(&e[k.name()]) {
            let x = as_u32(&r["id"]);
            let tag = as_u32(&r["name"]);
            exp.recs[k as usize].insert(
                x,
                ExpRec {
                    name: rec_name(&c.name, k, x, tag),
                    hpos: u32_list(&r["hpos"]).into_iter().map(|m| c.get(m)).collect(),
                },
            );
        }
    }
    (scn, exp)
}

pub fn scenario_json(s: &Scenario) -> Value {
    json!({
        "terms": s.terms.iter().map(|t| json!({"id": t.id, "name": t.name, "obsolete": t.obsolete, "repl": t.repl})).collect::<Vec<_>>(),
        "edges": s.edges.iter().map(|(p, c)| json!([p, c])).collect::<Vec<_>>(),
        "facts": s.facts.iter().map(|f| json!({"k": f.kind.name(), "x": f.x, "name": f.name, "t": f.term})).collect::<Vec<_>>(),
        "version": [s.version.0, s.version.1, s.version.2],
    })
}
