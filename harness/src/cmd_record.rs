//! impl -> spec: a seeded random driver runs larger scenarios (10-20 terms, <= 20 record ids)
//! against the real Builder / Ontology API and records one event per public call plus the
//! projection of the resulting ontology (and of sub-ontologies cut out of it).  TLC validates the
//! recorded trace against spec/trace/TraceCore.tla, which reuses the actions of HpoCore.
use crate::scenario::*;
use crate::util::*;
use hpo::annotations::{AnnotationId, Disease, GeneId, OmimDiseaseId, OrphaDiseaseId};
use hpo::builder::Builder;
use hpo::{HpoTermId, Ontology};
use serde_json::{json, Value};
use std::collections::BTreeSet;
use std::io::Write;

fn sorted(i: impl IntoIterator<Item = u32>) -> Vec<u32> {
    let s: BTreeSet<u32> = i.into_iter().collect();
    s.into_iter().collect()
}

/// projection in the JSON shape of HpoCore!Proj (sorted id arrays); record names are the call
/// counters the driver used as names
pub fn proj_json(ont: &Ontology) -> Result<Value, String> {
    catch(|| {
        let mut terms = vec![];
        for t in ont.iter() {
            terms.push(json!({
                "id": t.id().as_u32(),
                "parents": sorted(t.parent_ids().iter().map(|x| x.as_u32())),
                "children": sorted(t.children_ids().iter().map(|x| x.as_u32())),
                "allp": sorted(t.all_parent_ids().iter().map(|x| x.as_u32())),
                "gene": sorted(t.gene_ids().iter().map(|x| x.as_u32())),
                "omim": sorted(t.omim_disease_ids().iter().map(|x| x.as_u32())),
                "orpha": sorted(t.orpha_disease_ids().iter().map(|x| x.as_u32())),
                // the resolving iterators must agree with the id sets (a dangling id panics)
                "rgene": sorted(t.genes().map(|x| x.id().as_u32())),
                "romim": sorted(t.omim_diseases().map(|x| x.id().as_u32())),
                "rorpha": sorted(t.orpha_diseases().map(|x| x.id().as_u32())),
                "rallp": sorted(t.all_parents().map(|x| x.id().as_u32())),
                "rparents": sorted(t.parents().map(|x| x.id().as_u32())),
                "rchildren": sorted(t.children().map(|x| x.id().as_u32())),
            }));
        }
        let name_no = |s: &str| -> u64 { s.trim_start_matches('n').parse().unwrap_or(0) };
        let mut g: Vec<(u32, Value)> = ont.genes().map(|x| (x.id().as_u32(), json!({"id": x.id().as_u32(), "name": name_no(x.name()), "hpos": sorted(x.hpo_terms().iter().map(|t| t.as_u32()))}))).collect();
        let mut o: Vec<(u32, Value)> = ont.omim_diseases().map(|x| (x.id().as_u32(), json!({"id": x.id().as_u32(), "name": name_no(x.name()), "hpos": sorted(x.hpo_terms().iter().map(|t| t.as_u32()))}))).collect();
        let mut r: Vec<(u32, Value)> = ont.orpha_diseases().map(|x| (x.id().as_u32(), json!({"id": x.id().as_u32(), "name": name_no(x.name()), "hpos": sorted(x.hpo_terms().iter().map(|t| t.as_u32()))}))).collect();
        g.sort_by_key(|x| x.0);
        o.sort_by_key(|x| x.0);
        r.sort_by_key(|x| x.0);
        // the records' direct terms must resolve (a dangling id panics here and the run ends with ProjectionPanicked)
        let _resolved: usize = ont.genes().map(|x| x.to_hpo_set(ont).iter().count()).sum::<usize>()
            + ont.omim_diseases().map(|x| x.to_hpo_set(ont).iter().count()).sum::<usize>()
            + ont.orpha_diseases().map(|x| x.to_hpo_set(ont).iter().count()).sum::<usize>();
        // information content must be consistent with the ontology's OWN link sets and record counts
        // (n = linked ids of the kind, N = records of the kind), whatever path built the ontology
        let mut ic_bad: Vec<String> = vec![];
        let totals = [ont.genes().count(), ont.omim_diseases().count(), ont.orpha_diseases().count()];
        for t in ont.iter() {
            let ic = t.information_content();
            let ns = [t.gene_ids().len(), t.omim_disease_ids().len(), t.orpha_disease_ids().len()];
            let got = [ic.gene(), ic.omim_disease(), ic.orpha_disease()];
            for k in 0..3 {
                let want = crate::project::ic_expected(ns[k], totals[k]);
                if !crate::project::close_f32(got[k], want, 1e-5, 1e-6) || !(got[k] >= 0.0) {
                    ic_bad.push(format!("term {} {}: IC {} but n = {}, N = {} (expected {})", t.id(), KINDS[k].name(), got[k], ns[k], totals[k], want));
                }
            }
        }
        json!({"len": ont.len(), "terms": terms, "ic_bad": ic_bad,
               "gene": g.into_iter().map(|x| x.1).collect::<Vec<_>>(),
               "omim": o.into_iter().map(|x| x.1).collect::<Vec<_>>(),
               "orpha": r.into_iter().map(|x| x.1).collect::<Vec<_>>()})
    })
}

fn query_event(ont: &Ontology, a: u32, b: u32) -> Value {
    use crate::cmd_sim::{builtin, expected_score, PairArgs, ALGOS};
    use hpo::similarity::Similarity;
    use std::collections::BTreeMap;
    let r = catch(|| {
        let (ta, tb) = (ont.hpo(a).unwrap(), ont.hpo(b).unwrap());
        let ids = |g: hpo::term::HpoGroup| -> Vec<u32> { g.iter().map(|x| x.as_u32()).collect() };
        let common = ids(ta.all_common_ancestor_ids(&tb));
        let common_noself = ids(ta.common_ancestor_ids(&tb));
        let updist = ta.distance_to_ancestor(&tb).map(|x| x as i64).unwrap_or(-1);
        let uppath: Option<Vec<u32>> = ta.path_to_ancestor(&tb).map(|p| p.iter().map(|x| x.as_u32()).collect());
        let rdist = tb.distance_to_term(&ta).map(|x| x as i64).unwrap_or(-1);
        let union = ids(ta.union_ancestor_ids(&tb));
        let dist = ta.distance_to_term(&tb).map(|x| x as i64).unwrap_or(-1);
        let path: Option<Vec<u32>> = ta.path_to_term(&tb).map(|p| p.iter().map(|x| x.as_u32()).collect());
        let ov = |x: usize, y: usize| (x as u64, y as u64);
        let (ga, gb) = (ta.gene_ids(), tb.gene_ids());
        let (oa, ob) = (ta.omim_disease_ids(), tb.omim_disease_ids());
        let (ra, rb) = (ta.orpha_disease_ids(), tb.orpha_disease_ids());
        let args = PairArgs {
            a,
            b,
            common: common.clone(),
            union: union.clone(),
            dist,
            ov: [ov(ga.intersection(gb).count(), ga.union(gb).count()), ov(oa.intersection(ob).count(), oa.union(ob).count()), ov(ra.intersection(rb).count(), ra.union(rb).count())],
        };
        let mut ic: BTreeMap<u32, [f64; 3]> = BTreeMap::new();
        for t in ont.iter() {
            let i = t.information_content();
            ic.insert(t.id().as_u32(), [i.gene() as f64, i.omim_disease() as f64, i.orpha_disease() as f64]);
        }
        let mut bad: Vec<String> = vec![];
        for algo in ALGOS {
            for k in KINDS {
                let want = expected_score(algo, k, &args, &ic);
                let got = builtin(algo, k).calculate(&ta, &tb);
                let rev = builtin(algo, k).calculate(&tb, &ta);
                if !crate::project::close_f32(got, want, 1e-4, 1e-5) || !(got >= 0.0) || !crate::project::close_f32(rev, got as f64, 1e-5, 1e-6) {
                    bad.push(format!("{algo}/{}({a},{b}) = {got} (reverse {rev}), formula on the observed arguments gives {want}", k.name()));
                }
            }
        }
        json!({"e": "Query", "a": a, "b": b, "common": common, "common_noself": common_noself, "union": union, "dist": dist, "rdist": rdist,
               "updist": updist, "hasuppath": uppath.is_some(), "uppath": uppath.unwrap_or_default(),
               "haspath": path.is_some(), "path": path.unwrap_or_default(), "sim_bad": bad})
    });
    match r {
        Ok(v) => v,
        Err(p) => json!({"e": "QueryPanicked", "a": a, "b": b, "why": p}),
    }
}

/// A "fan" run: flat ontologies that realise arbitrary pairs of id groups as ancestor sets, so that the
/// crate's sorted-group union / intersection are exercised at ontology level with group sizes around
/// the small-vector capacity (30) and very unequal sizes, and with interleaved / touching id ranges:
///   u has the direct parents A, v has the direct parents B, one p0 in B has the direct parents C.
///   ancestors(v) = B + C (union of a parent group and a grandparent group), common(u, v) = A & (B + C).
pub fn fan_run(rng: &mut Rng, variant: u64) -> Vec<Value> {
    let mut ev: Vec<Value> = vec![];
    let (na, nb, nc) = match variant % 6 {
        0 => (2usize, 40usize, 3usize),
        1 => (40, 2, 35),
        2 => (33, 33, 33),
        3 => (1, 64, 31),
        4 => (31, 30, 2),
        _ => (3, 50, 48),
    };
    // a pool of ids; A, B, C are drawn with overlaps and touching borders
    let pool_n = na + nb + nc + 6;
    let mut pool: BTreeSet<u32> = BTreeSet::new();
    while pool.len() < pool_n {
        pool.insert(rng.range(10, 5000) as u32);
    }
    let pool: Vec<u32> = pool.into_iter().collect();
    let pick = |rng: &mut Rng, n: usize, style: u64| -> BTreeSet<u32> {
        let mut s = BTreeSet::new();
        match style % 3 {
            0 => {
                // a contiguous block of the pool
                let start = rng.below((pool.len() - n) as u64 + 1) as usize;
                for i in 0..n {
                    s.insert(pool[start + i]);
                }
            }
            1 => {
                // every second id (interleaves with a contiguous block)
                let mut i = rng.below(2) as usize;
                while s.len() < n && i < pool.len() {
                    s.insert(pool[i]);
                    i += 2;
                }
                while s.len() < n {
                    s.insert(*rng.pick(&pool));
                }
            }
            _ => {
                while s.len() < n {
                    s.insert(*rng.pick(&pool));
                }
            }
        }
        s
    };
    let a = pick(rng, na, variant);
    let b = pick(rng, nb, variant / 3 + 1);
    let c = pick(rng, nc, variant / 9 + 2);
    let p0 = *b.iter().next().unwrap();
    let c: BTreeSet<u32> = c.into_iter().filter(|x| *x != p0).collect();
    let (u, v) = (9_000_001u32, 9_000_002u32);
    let mut order: Vec<u32> = pool.clone();
    order.push(u);
    order.push(v);
    rng.shuffle(&mut order);
    let mut b_ = Builder::new();
    for id in &order {
        b_.new_term(&format!("T{id}"), *id);
        ev.push(json!({"e": "NewTerm", "id": id}));
    }
    let mut b_ = b_.terms_complete();
    ev.push(json!({"e": "TermsComplete"}));
    let mut edges: Vec<(u32, u32)> = vec![];
    for x in &a {
        edges.push((*x, u));
    }
    for x in &b {
        edges.push((*x, v));
    }
    for x in &c {
        edges.push((*x, p0));
    }
    rng.shuffle(&mut edges);
    for (p, ch) in &edges {
        let r = b_.add_parent(*p, *ch);
        ev.push(json!({"e": "AddParent", "p": p, "c": ch, "ok": r.is_ok()}));
    }
    let b_ = b_.connect_all_terms();
    ev.push(json!({"e": "ConnectAll"}));
    let ont = match catch(|| b_.calculate_information_content().map(|x| x.build_minimal())) {
        Ok(Ok(o)) => o,
        _ => {
            ev.push(json!({"e": "BuildFailed"}));
            return ev;
        }
    };
    match proj_json(&ont) {
        Ok(p) => ev.push(json!({"e": "Built", "proj": p})),
        Err(p) => {
            ev.push(json!({"e": "ProjectionPanicked", "why": p}));
            return ev;
        }
    }
    for (x, y) in [(u, v), (v, u), (u, p0), (p0, v), (u, u)] {
        ev.push(query_event(&ont, x, y));
    }
    ev
}

/// one random run; returns its events
pub fn one_run(rng: &mut Rng, large: bool, layout: u64) -> Vec<Value> {
    let mut ev: Vec<Value> = vec![];
    // a large run has deep chains: more than 30 ancestors / more than 10 parents per term cross the
    // inline capacity of the crate's small-vector backed id groups
    let n = if large { rng.range(52, 70) as usize } else { rng.range(6, 16) as usize };
    let mut ids: BTreeSet<u32> = BTreeSet::new();
    if rng.chance(1, 2) {
        ids.insert(1);
        ids.insert(118);
    }
    while ids.len() < n {
        ids.insert(if rng.chance(1, 3) { rng.range(0, 300) as u32 } else { rng.range(0, MAX_ID as u64) as u32 });
    }
    let mut order: Vec<u32> = ids.iter().copied().collect();
    rng.shuffle(&mut order);
    // a random DAG: pick a hidden topological order, every term draws 0..3 parents among the earlier ones
    let mut topo = order.clone();
    rng.shuffle(&mut topo);
    if large {
        // numeric ids versus position in the graph are adversarial in large runs (the crate's id groups
        // are sorted by id): ids ascending with depth, descending with depth, or the root in the middle
        // with the short chain (positions 3, 7, 11, ...) directly below it and the long chain above
        let mut sorted: Vec<u32> = ids.iter().copied().collect();
        sorted.sort_unstable();
        match layout % 4 {
            1 => {}
            2 => topo = sorted.clone(),
            3 => {
                topo = sorted.clone();
                topo.reverse();
            }
            _ => {
                let nb = (1..n).filter(|i| i % 4 == 3).count();
                let mut t = vec![0u32; n];
                t[0] = sorted[nb];
                let (mut lo, mut hi) = (nb, nb + 1);
                for i in 1..n {
                    if i % 4 == 3 {
                        lo -= 1;
                        t[i] = sorted[lo];
                    } else {
                        t[i] = sorted[hi];
                        hi += 1;
                    }
                }
                topo = t;
            }
        }
    }
    let mut edges: Vec<(u32, u32)> = vec![];
    for i in 1..topo.len() {
        let k = match rng.below(10) {
            0 => 0,
            1..=5 => 1,
            6..=8 => 2,
            _ => 3,
        };
        let mut ps = BTreeSet::new();
        for _ in 0..k {
            ps.insert(topo[rng.below(i as u64) as usize]);
        }
        if large {
            // two chain backbones below a common root (a long one and a short one) + an occasional
            // term with many direct parents: deep terms get > 30 ancestors, while terms of the
            // other chain are unrelated to them and shallow
            ps.clear();
            let in_b = i % 4 == 3;
            let prev = (1..i).rev().find(|j| (j % 4 == 3) == in_b).unwrap_or(0);
            ps.insert(topo[prev]);
            // extra parents stay inside the own chain (rarely a cross link), so that the two chains
            // remain mostly unrelated
            if rng.chance(1, 8) {
                let same: Vec<usize> = (1..i).filter(|j| (j % 4 == 3) == in_b).collect();
                if !same.is_empty() {
                    ps.insert(topo[*rng.pick(&same)]);
                }
            }
            if rng.chance(1, 60) {
                ps.insert(topo[rng.below(i as u64) as usize]);
            }
            // a star on top of the chains: the root becomes a direct parent of every second term of the
            // long chain (more than 30 children; shortcut edges next to long lineages)
            if !in_b && i % 2 == 0 {
                ps.insert(topo[0]);
            }
            if i > 20 && !in_b && rng.chance(1, 12) {
                for j in (1..i).rev().filter(|j| j % 4 != 3).take(12) {
                    ps.insert(topo[j]);
                }
            }
            let _ = k;
        }
        for p in ps {
            edges.push((p, topo[i]));
        }
    }
    rng.shuffle(&mut edges);
    let mut b = Builder::new();
    for id in &order {
        b.new_term(&format!("T{id}"), *id);
        ev.push(json!({"e": "NewTerm", "id": id}));
        if rng.chance(1, 8) {
            b.new_term("again", *id);
            ev.push(json!({"e": "NewTerm", "id": id}));
        }
    }
    let mut b = b.terms_complete();
    ev.push(json!({"e": "TermsComplete"}));
    for (p, c) in &edges {
        let r = b.add_parent(*p, *c);
        ev.push(json!({"e": "AddParent", "p": p, "c": c, "ok": r.is_ok()}));
        if rng.chance(1, 10) {
            let _ = b.add_parent(*p, *c);
            ev.push(json!({"e": "AddParent", "p": p, "c": c, "ok": true}));
        }
    }
    let mut b = b.connect_all_terms();
    ev.push(json!({"e": "ConnectAll"}));
    let nfacts = rng.range(0, 24);
    let nrec = rng.range(1, 7) as u32;
    for i in 0..nfacts {
        let kind = KINDS[rng.below(3) as usize];
        let x = rng.range(1, nrec as u64) as u32;
        let name = format!("n{}", i + 1);
        if rng.chance(1, 8) {
            match kind {
                Kind::Gene => b.add_gene(&name, GeneId::from(x)),
                Kind::Omim => {
                    b.add_omim_disease(&name, OmimDiseaseId::from(x));
                }
                Kind::Orpha => {
                    b.add_orpha_disease(&name, OrphaDiseaseId::from(x));
                }
            }
            ev.push(json!({"e": "AddRecord", "k": kind.name(), "x": x}));
        } else {
            let t = *rng.pick(&order);
            let r = match kind {
                Kind::Gene => b.annotate_gene(GeneId::from(x), &name, HpoTermId::from(t)),
                Kind::Omim => b.annotate_omim_disease(OmimDiseaseId::from(x), &name, HpoTermId::from(t)),
                Kind::Orpha => b.annotate_orpha_disease(OrphaDiseaseId::from(x), &name, HpoTermId::from(t)),
            };
            ev.push(json!({"e": "Annotate", "k": kind.name(), "x": x, "t": t, "ok": r.is_ok()}));
        }
    }
    // with the two standard roots present the ontology is built with the documented default
    // categories / modifiers (matters for the record filter of sub_ontology)
    let defaults = !large && ids.contains(&1) && ids.contains(&118);
    let ont = match catch(|| b.calculate_information_content().map(|x| if defaults { x.build_with_defaults().unwrap() } else { x.build_minimal() })) {
        Ok(Ok(o)) => o,
        Ok(Err(e)) => {
            ev.push(json!({"e": "BuildFailed", "why": e.to_string()}));
            return ev;
        }
        Err(p) => {
            ev.push(json!({"e": "BuildFailed", "why": p}));
            return ev;
        }
    };
    match proj_json(&ont) {
        Ok(p) => ev.push(json!({"e": "Built", "proj": p})),
        Err(p) => {
            ev.push(json!({"e": "ProjectionPanicked", "why": p}));
            return ev;
        }
    }
    // C07 on recorded ontologies: the binary round trip of an ontology that holds the two standard roots is the same
    // ontology (the event is validated like Built, under every focus)
    if order.contains(&1) && order.contains(&118) {
        match catch(|| hpo::Ontology::from_bytes(&ont.as_bytes())) {
            Ok(Ok(re)) => match proj_json(&re) {
                Ok(p) => ev.push(json!({"e": "Reloaded", "proj": p})),
                Err(p) => ev.push(json!({"e": "ReloadPanicked", "why": p})),
            },
            Ok(Err(e)) => ev.push(json!({"e": "ReloadFailed", "why": e.to_string()})),
            Err(p) => ev.push(json!({"e": "ReloadFailed", "why": p})),
        }
    }
    // C19 / C13 on recorded ontologies: the classification of every term (when the ontology carries the documented
    // defaults) and HpoSet operations on random subsets of up to 36 terms
    if defaults {
        let terms: Vec<Value> = order
            .iter()
            .filter_map(|id| ont.hpo(*id))
            .map(|t| json!({"id": t.id().as_u32(), "is_modifier": t.is_modifier(), "categories": t.categories().iter().map(|c| c.as_u32()).collect::<Vec<_>>()}))
            .collect();
        ev.push(json!({"e": "Cats", "modifier": ont.modifier().iter().map(|c| c.as_u32()).collect::<Vec<_>>(),
            "categories": ont.categories().iter().map(|c| c.as_u32()).collect::<Vec<_>>(), "terms": terms}));
    }
    for _ in 0..3 {
        let k = rng.below(order.len().min(36) as u64 + 1) as usize;
        let mut pool = order.clone();
        rng.shuffle(&mut pool);
        let mut g = hpo::term::HpoGroup::new();
        for id in pool.iter().take(k) {
            g.insert(*id);
        }
        let r = catch(|| {
            let set = hpo::HpoSet::new(&ont, g.clone());
            let ids = |s: &hpo::HpoSet| -> Vec<u32> { s.iter().map(|t| t.id().as_u32()).collect() };
            let mut inplace = hpo::HpoSet::new(&ont, g.clone());
            inplace.remove_modifier();
            let genes = sorted(set.gene_ids().iter().map(|x| x.as_u32()));
            let omim = sorted(set.omim_disease_ids().iter().map(|x| x.as_u32()));
            let ic = set.information_content().ok();
            let want = |n: usize, big_n: usize| -> f64 { if n == 0 || big_n == 0 { 0.0 } else { -((n as f64) / (big_n as f64)).ln() } };
            let ic_bad = match ic {
                Some(ic) => (ic.gene() as f64 - want(genes.len(), ont.genes().count())).abs() > 1e-5 || (ic.omim_disease() as f64 - want(omim.len(), ont.omim_diseases().count())).abs() > 1e-5,
                None => true,
            };
            let cats: Vec<Value> = { let mut c: Vec<(u32, usize)> = set.categories().into_iter().map(|(k, v)| (k.as_u32(), v)).collect(); c.sort(); c.into_iter().map(|(k, v)| json!([k, v])).collect() };
            json!({"e": "SetOp", "defaults": defaults, "set": ids(&set), "len": set.len(), "child": ids(&set.child_nodes()), "without_modifier": ids(&set.without_modifier()),
                "remove_modifier": ids(&inplace), "gene": genes, "omim": omim, "orpha": sorted(set.orpha_disease_ids().iter().map(|x| x.as_u32())), "ic_bad": ic_bad, "cats": cats})
        });
        match r {
            Ok(e) => ev.push(e),
            Err(p) => ev.push(json!({"e": "SetOpPanicked", "why": p})),
        }
    }
    // pair queries on the built ontology: the structural results are validated by TLC (focus C04) against
    // HpoSetOps / HpoSim; the eight similarity formulas are evaluated here on exactly these observed
    // arguments and the terms' observed information content
    let mut by_depth: Vec<(usize, u32)> = order.iter().map(|t| (ont.hpo(*t).map(|x| x.all_parent_ids().len()).unwrap_or(0), *t)).collect();
    by_depth.sort();
    for q in 0..(if large { 40 } else { rng.range(2, 5) }) {
        let (a, b) = if large && q % 2 == 0 {
            // a deep term (many ancestors) against a shallow one: very unequal ancestor groups
            let deep = by_depth[by_depth.len() - 1 - rng.below(5.min(by_depth.len() as u64)) as usize].1;
            let shallow = by_depth[rng.below(6.min(by_depth.len() as u64)) as usize].1;
            if q % 4 == 0 { (deep, shallow) } else { (shallow, deep) }
        } else {
            (*rng.pick(&order), *rng.pick(&order))
        };
        ev.push(query_event(&ont, a, b));
    }
    // sub-ontologies: a root and 1..3 leaves, mostly below the root
    for q in 0..rng.range(3, 6) {
        let mut root = *rng.pick(&order);
        let below: Vec<u32> = order.iter().copied().filter(|t| ont.hpo(*t).map(|x| x.all_parent_ids().contains(&HpoTermId::from(root)) || *t == root).unwrap_or(false)).collect();
        let mut leaves = BTreeSet::new();
        if q % 2 == 0 {
            // targeted: a term with several parents together with one of its direct parents as leaves,
            // below a common ancestor of both (the induced edge between the two leaves must survive)
            let multi: Vec<u32> = order.iter().copied().filter(|t| ont.hpo(*t).map(|x| x.parent_ids().len() >= 2).unwrap_or(false)).collect();
            if !multi.is_empty() {
                let t = *rng.pick(&multi);
                let term = ont.hpo(t).unwrap();
                let ps: Vec<u32> = term.parent_ids().iter().map(|x| x.as_u32()).collect();
                let p = *rng.pick(&ps);
                let anc: Vec<u32> = ont.hpo(p).unwrap().all_parent_ids().iter().map(|x| x.as_u32()).collect();
                if !anc.is_empty() {
                    root = *rng.pick(&anc);
                    leaves.insert(t);
                    leaves.insert(p);
                }
            }
        }
        if defaults && q % 3 == 1 {
            // below HP:1 with a modifier term (a child of HP:1 other than HP:118) among the leaves
            root = 1;
            let mods: Vec<u32> = ont.hpo(1u32).map(|t| t.children_ids().iter().map(|x| x.as_u32()).filter(|x| *x != 118).collect()).unwrap_or_default();
            // modifier terms: the modifier roots and everything below them
            let below: Vec<u32> = order
                .iter()
                .copied()
                .filter(|t| ont.hpo(*t).map(|x| x.all_parent_ids().iter().any(|a| mods.contains(&a.as_u32()))).unwrap_or(false))
                .collect();
            if !below.is_empty() && (mods.is_empty() || rng.chance(1, 2)) {
                leaves.insert(*rng.pick(&below));
            } else if !mods.is_empty() {
                leaves.insert(*rng.pick(&mods));
            }
        }
        for _ in 0..rng.range(if leaves.is_empty() { 1 } else { 0 }, 2) {
            if rng.chance(1, 12) {
                leaves.insert(*rng.pick(&order));
            } else {
                leaves.insert(*rng.pick(&below));
            }
        }
        let leaves: Vec<u32> = leaves.into_iter().collect();
        let res = catch(|| {
            let r = ont.hpo(root).unwrap();
            ont.sub_ontology(r, leaves.iter().map(|l| ont.hpo(*l).unwrap()))
        });
        match res {
            Ok(Ok(sub)) => match proj_json(&sub) {
                Ok(p) => ev.push(json!({"e": "SubOntology", "root": root, "leaves": leaves, "defaults": defaults, "proj": p})),
                Err(p) => ev.push(json!({"e": "SubOntologyPanicked", "root": root, "leaves": leaves, "why": p})),
            },
            Ok(Err(e)) => ev.push(json!({"e": "SubOntologyErr", "root": root, "leaves": leaves, "why": e.to_string()})),
            Err(p) => ev.push(json!({"e": "SubOntologyPanicked", "root": root, "leaves": leaves, "why": p})),
        }
    }
    ev
}

/// C15: a run whose call history interleaves calls that must be rejected (absent term ids) with
/// successful ones; every reply is logged, the built ontology is projected through the resolving
/// read API (a dangling id panics there).
pub fn reject_run(rng: &mut Rng) -> Vec<Value> {
    let mut ev: Vec<Value> = vec![];
    let n = rng.range(3, 10) as usize;
    let mut pool: BTreeSet<u32> = BTreeSet::new();
    while pool.len() < n + 4 {
        pool.insert(if rng.chance(1, 2) { rng.range(0, 40) as u32 } else { rng.range(0, MAX_ID as u64) as u32 });
    }
    let mut all: Vec<u32> = pool.into_iter().collect();
    rng.shuffle(&mut all);
    let absent: Vec<u32> = all.split_off(n);
    let order = all;
    let mut topo = order.clone();
    rng.shuffle(&mut topo);
    let mut b = Builder::new();
    for id in &order {
        b.new_term(&format!("T{id}"), *id);
        ev.push(json!({"e": "NewTerm", "id": id}));
    }
    let mut b = b.terms_complete();
    ev.push(json!({"e": "TermsComplete"}));
    for i in 1..topo.len() {
        for _ in 0..rng.range(0, 2) {
            let (mut p, mut c) = (topo[rng.below(i as u64) as usize], topo[i]);
            match rng.below(8) {
                0 => c = *rng.pick(&absent),
                1 => p = *rng.pick(&absent),
                2 => {
                    p = *rng.pick(&absent);
                    c = *rng.pick(&absent);
                }
                _ => {}
            }
            if p == c {
                continue;
            }
            let r = b.add_parent(p, c);
            ev.push(json!({"e": "AddParent", "p": p, "c": c, "ok": r.is_ok()}));
        }
    }
    let mut b = b.connect_all_terms();
    ev.push(json!({"e": "ConnectAll"}));
    let nfacts = rng.range(2, 16);
    let nrec = rng.range(1, 4) as u32;
    for i in 0..nfacts {
        let kind = KINDS[rng.below(3) as usize];
        let x = rng.range(1, nrec as u64) as u32;
        let name = format!("n{}", i + 1);
        if rng.chance(1, 8) {
            match kind {
                Kind::Gene => b.add_gene(&name, GeneId::from(x)),
                Kind::Omim => {
                    b.add_omim_disease(&name, OmimDiseaseId::from(x));
                }
                Kind::Orpha => {
                    b.add_orpha_disease(&name, OrphaDiseaseId::from(x));
                }
            }
            ev.push(json!({"e": "AddRecord", "k": kind.name(), "x": x}));
        } else {
            let t = if rng.chance(1, 3) { *rng.pick(&absent) } else { *rng.pick(&order) };
            let r = match kind {
                Kind::Gene => b.annotate_gene(GeneId::from(x), &name, HpoTermId::from(t)),
                Kind::Omim => b.annotate_omim_disease(OmimDiseaseId::from(x), &name, HpoTermId::from(t)),
                Kind::Orpha => b.annotate_orpha_disease(OrphaDiseaseId::from(x), &name, HpoTermId::from(t)),
            };
            ev.push(json!({"e": "Annotate", "k": kind.name(), "x": x, "t": t, "ok": r.is_ok()}));
        }
    }
    let ont = match catch(|| b.calculate_information_content().map(|x| x.build_minimal())) {
        Ok(Ok(o)) => o,
        Ok(Err(e)) => {
            ev.push(json!({"e": "BuildFailed", "why": e.to_string()}));
            return ev;
        }
        Err(p) => {
            ev.push(json!({"e": "BuildFailed", "why": p}));
            return ev;
        }
    };
    match proj_json(&ont) {
        Ok(p) => ev.push(json!({"e": "Built", "proj": p})),
        Err(p) => ev.push(json!({"e": "ProjectionPanicked", "why": p})),
    }
    ev
}

pub fn run(args: &Args) {
    silence_panics();
    let seed = args.num("seed", 1);
    let runs = args.num("runs", 20);
    let only = args.get("only-run").map(|s| s.parse::<u64>().unwrap());
    let chunks = args.num("chunks", 1).max(1);
    let t = Timer::start();
    let mut all: Vec<(u64, Vec<Value>)> = vec![];
    for r in 0..runs {
        let mut rng = Rng::new(seed.wrapping_mul(1_000_003).wrapping_add(r));
        if let Some(o) = only {
            if o != r {
                continue;
            }
        }
        // the id layouts of the large runs cycle deterministically (first: root in the middle)
        let le = args.num("large-every", 0);
        let fe = args.num("fan-every", 0);
        if args.num("reject", 0) > 0 {
            all.push((r, reject_run(&mut rng)));
            continue;
        }
        if fe > 0 && r % fe == fe - 1 {
            all.push((r, fan_run(&mut rng, r / fe)));
            continue;
        }
        all.push((r, one_run(&mut rng, le > 0 && r % le.max(1) == 0, if le > 0 { r / le.max(1) } else { 0 })));
    }
    // one trace file per chunk (validated by parallel TLC processes); each starts with a header
    // line: the id universes of its runs (constants of the trace specification)
    let mut index = vec![];
    let mut total = 0u64;
    for c in 0..chunks {
        let mine: Vec<&(u64, Vec<Value>)> = all.iter().enumerate().filter(|(i, _)| (*i as u64) % chunks == c).map(|(_, x)| x).collect();
        let path = if chunks == 1 { args.req("trace").to_string() } else { format!("{}.{}", args.req("trace"), c) };
        let mut f = std::fs::File::create(&path).expect("trace file");
        let mut ids: BTreeSet<u32> = BTreeSet::new();
        let mut recs: [BTreeSet<u32>; 3] = Default::default();
        for (_, ev) in &mine {
            for e in ev {
                match e["e"].as_str().unwrap_or("") {
                    "NewTerm" => {
                        ids.insert(as_u32(&e["id"]));
                    }
                    "AddRecord" | "Annotate" => {
                        recs[Kind::parse(e["k"].as_str().unwrap()) as usize].insert(as_u32(&e["x"]));
                        if let Some(t) = e.get("t") {
                            ids.insert(as_u32(t));
                        }
                    }
                    "AddParent" => {
                        ids.insert(as_u32(&e["p"]));
                        ids.insert(as_u32(&e["c"]));
                    }
                    _ => {}
                }
            }
        }
        writeln!(f, "{}", json!({"e": "Header", "ids": ids, "gene": recs[0], "omim": recs[1], "orpha": recs[2]})).unwrap();
        let mut line_no = 1u64;
        for (r, ev) in mine {
            writeln!(f, "{}", json!({"e": "Reset", "run": r})).unwrap();
            line_no += 1;
            let start = line_no;
            for e in ev {
                writeln!(f, "{}", e).unwrap();
                line_no += 1;
            }
            index.push(json!({"run": r, "chunk": c, "first_line": start, "last_line": line_no, "events": ev.len()}));
        }
        total += line_no;
    }
    let summary = json!({"cases": index.len(), "evaluations": total, "nontrivial": index.len(), "counters": {}, "samples": [], "violations": [],
                         "extra": {"runs": index, "seed": seed, "chunks": chunks, "wall_s": t.secs()}});
    std::fs::write(args.req("out"), serde_json::to_string(&summary).unwrap()).unwrap();
}
