//! C19: default categories and modifiers (spec/HpoCats.tla).  TLC emits every acyclic is_a relation
//! over every subset of a 4-5 id universe containing HP:1 / HP:118 (or not: then building with the
//! defaults must fail) with the modifier roots, the categories and every term's classification.
use crate::enc;
use crate::paths::from_bytes;
use crate::scenario::*;
use crate::util::*;
use hpo::annotations::AnnotationId;
use hpo::builder::Builder;
use hpo::Ontology;
use serde_json::{json, Value};

fn check_ont(what: &str, ont: &Ontology, cats: &Value, d: &mut Vec<String>) {
    let ids = |g: &hpo::term::HpoGroup| -> Vec<u32> { g.iter().map(|x| x.as_u32()).collect() };
    if ids(ont.modifier()) != u32_list(&cats["modifier"]) {
        d.push(format!("{what}: modifier() = {:?}, expected {}", ids(ont.modifier()), cats["modifier"]));
    }
    if ids(ont.categories()) != u32_list(&cats["categories"]) {
        d.push(format!("{what}: categories() = {:?}, expected {}", ids(ont.categories()), cats["categories"]));
    }
    for t in arr(&cats["terms"]) {
        let id = as_u32(&t["id"]);
        let Some(term) = ont.hpo(id) else {
            d.push(format!("{what}: term {id} missing"));
            continue;
        };
        if term.is_modifier() != t["is_modifier"].as_bool().unwrap() {
            d.push(format!("{what}: term {id}: is_modifier() = {}, expected {}", term.is_modifier(), t["is_modifier"]));
        }
        let c: Vec<u32> = term.categories().iter().map(|x| x.as_u32()).collect();
        if c != u32_list(&t["categories"]) {
            d.push(format!("{what}: term {id}: categories() = {:?}, expected (ascending) {}", c, t["categories"]));
        }
    }
}

fn check_line(st: &mut Stats, line: &Value) -> Vec<String> {
    let mut d = vec![];
    let ids = u32_list(&line["ids"]);
    let edges: Vec<(u32, u32)> = arr(&line["edges"]).iter().map(|e| (as_u32(&e[0]), as_u32(&e[1]))).collect();
    let cats = &line["cats"];
    let ok = cats["ok"].as_bool().unwrap();
    // Builder path
    st.evaluations += 1;
    let built = catch(|| {
        let mut b = Builder::new();
        for id in ids.iter().rev() {
            b.new_term(&format!("T{id}"), *id);
        }
        let mut b = b.terms_complete();
        for (p, c) in &edges {
            b.add_parent(*p, *c).unwrap();
        }
        b.connect_all_terms().calculate_information_content().unwrap().build_with_defaults()
    });
    match built {
        Err(p) => d.push(format!("build_with_defaults panicked: {p}")),
        Ok(Err(e)) => {
            if ok {
                d.push(format!("build_with_defaults failed although HP:1 and HP:118 are present: {e}"));
            }
        }
        Ok(Ok(ont)) => {
            if !ok {
                d.push("build_with_defaults succeeded although HP:0000001 or HP:0000118 is missing".to_string());
            } else {
                check_ont("Builder", &ont, cats, &mut d);
            }
        }
    }
    // binary path (from_bytes applies the defaults)
    st.evaluations += 1;
    let scn = Scenario {
        terms: ids.iter().map(|id| TermSpec { id: *id, name: format!("T{id}"), obsolete: false, repl: None }).collect(),
        edges: edges.clone(),
        facts: vec![],
        version: (2024, 1, 1),
    };
    // a second binary file flags every term but the two roots obsolete and gives every third one a replacement:
    // the classification is a matter of the is_a links alone
    let mut flagged = scn.clone();
    for (i, t) in flagged.terms.iter_mut().enumerate() {
        if t.id != 1 && t.id != 118 {
            t.obsolete = true;
            if i % 3 == 0 {
                t.repl = Some(118);
            }
        }
    }
    for (what, scn) in [("from_bytes", &scn), ("from_bytes (all non-root terms flagged obsolete)", &flagged)] {
        let bytes = enc::encode(&enc::abstract_of(scn), 3);
        match from_bytes(&bytes) {
            Ok(ont) => {
                if !ok {
                    d.push(format!("{what} succeeded although HP:0000001 or HP:0000118 is missing"));
                } else {
                    check_ont(what, &ont, cats, &mut d);
                }
            }
            Err(e) => {
                if ok {
                    d.push(format!("{what} failed although both root terms are present: {e}"));
                }
            }
        }
    }
    d
}

pub fn run(args: &Args) {
    silence_panics();
    let Some(shard) = shard_or_spawn("replay-cats", args) else { return };
    let prop = args.get("prop").unwrap_or("C19").to_string();
    let (n_all, lines) = read_tlc_lines_sharded(args.req("in"), "REPLAY", shard);
    if n_all == 0 {
        eprintln!("no REPLAY lines");
        std::process::exit(2);
    }
    let mut st = Stats::default();
    for (i, l) in lines.iter().enumerate() {
        st.cases += 1;
        if l["cats"]["ok"].as_bool().unwrap_or(false) && !arr(&l["cats"]["categories"]).is_empty() {
            st.nontrivial += 1;
        }
        guard_case(&mut st, &prop, "replay-cats", l, |st| {
            let mut d = check_line(st, l);
            if !d.is_empty() && st.violations.len() < 8 {
                d.truncate(10);
                st.violations.push(Violation { property: prop.clone(), what: d[0].clone(), replay: json!({"cmd": "replay-cats", "property": prop, "line": l, "diffs": d}) });
            }
        });
        if st.samples.len() < 2 && i % 37 == 11 && l["cats"]["ok"].as_bool().unwrap_or(false) {
            st.samples.push(l.clone());
        }
    }
    finish(st, args.req("out"), args.req("replay-dir"), json!({"lines": lines.len()}));
}

pub fn replay_one(v: &Value) -> bool {
    silence_panics();
    let mut st = Stats::default();
    let d = check_line(&mut st, &v["line"]);
    for l in &d {
        println!("reproduced: {l}");
    }
    !d.is_empty()
}
