//! impl -> spec at the STEP level: with `--cfg hpo_verif` the crate emits one event per step of
//! connect_all_terms / link_*_term / Arena::insert (hooks in src/verif_hooks.rs).  A random driver
//! records them interleaved with the API-level calls; TLC validates the trace against the
//! step-level machines of spec/HpoAlgo.tla (spec/trace/TraceAlgo.tla).  A mismatch is reported as
//! ALGORITHM DRIFT (advisory), never as a property violation: a refactoring that keeps the
//! properties may legitimately change the algorithm.
use crate::cmd_record::proj_json;
use crate::scenario::*;
use crate::util::*;
use hpo::annotations::{GeneId, OmimDiseaseId, OrphaDiseaseId};
use hpo::builder::Builder;
use hpo::verif_hooks::{self, Event};
use hpo::HpoTermId;
use serde_json::{json, Value};
use std::collections::BTreeSet;
use std::io::Write;

fn kname(k: u8) -> &'static str {
    KINDS[k as usize].name()
}

fn drain(out: &mut Vec<Value>) {
    let evs = verif_hooks::take();
    verif_hooks::install();
    for e in evs {
        out.push(match e {
            Event::ConnectBegin => json!({"e": "ConnectBegin"}),
            Event::ConnectEnd => json!({"e": "ConnectEnd"}),
            Event::CacheEnter(t) => json!({"e": "CacheEnter", "t": t}),
            Event::CacheReturn(t, a) => json!({"e": "CacheReturn", "t": t, "allp": a}),
            Event::GrandparentsMiss(t) => json!({"e": "GrandparentsMiss", "t": t}),
            Event::GrandparentsRead(t) => json!({"e": "GrandparentsRead", "t": t}),
            Event::LinkVisit { kind, term, id, already } => json!({"e": "LinkVisit", "k": kname(kind), "t": term, "x": id, "already": already}),
            Event::LinkLeave { kind, term, id, already } => json!({"e": "LinkLeave", "k": kname(kind), "t": term, "x": id, "already": already}),
            Event::AnnotateEnd(k) => json!({"e": "AnnotateEnd", "k": kname(k)}),
            Event::ArenaInsert { id, present, len } => json!({"e": "ArenaInsert", "id": id, "present": present, "len": len}),
        });
    }
}

fn one_run(rng: &mut Rng) -> Vec<Value> {
    let mut ev: Vec<Value> = vec![];
    let n = rng.range(3, 9) as usize;
    let mut ids: BTreeSet<u32> = BTreeSet::new();
    while ids.len() < n {
        ids.insert(rng.range(0, 60) as u32);
    }
    let mut order: Vec<u32> = ids.iter().copied().collect();
    rng.shuffle(&mut order);
    let mut topo = order.clone();
    rng.shuffle(&mut topo);
    let mut edges: Vec<(u32, u32)> = vec![];
    for i in 1..topo.len() {
        let k = rng.below(4);
        let mut ps = BTreeSet::new();
        for _ in 0..k {
            ps.insert(topo[rng.below(i as u64) as usize]);
        }
        for p in ps {
            edges.push((p, topo[i]));
        }
    }
    rng.shuffle(&mut edges);
    verif_hooks::install();
    let mut b = Builder::new();
    for id in &order {
        b.new_term(&format!("T{id}"), *id);
        drain(&mut ev);
        ev.push(json!({"e": "NewTerm", "id": id}));
    }
    let mut b = b.terms_complete();
    ev.push(json!({"e": "TermsComplete"}));
    for (p, c) in &edges {
        let r = b.add_parent(*p, *c);
        ev.push(json!({"e": "AddParent", "p": p, "c": c, "ok": r.is_ok()}));
    }
    let mut b = b.connect_all_terms();
    drain(&mut ev);
    let nfacts = rng.range(0, 10);
    for i in 0..nfacts {
        let kind = KINDS[rng.below(3) as usize];
        let x = rng.range(1, 3) as u32;
        let name = format!("n{}", i + 1);
        if rng.chance(1, 8) {
            match kind {
                Kind::Gene => b.add_gene(&name, GeneId::from(x)),
                Kind::Omim => {
                    b.add_omim_disease(&name, OmimDiseaseId::from(x));
                }
                Kind::Orpha => {
                    b.add_orpha_disease(&name, OrphaDiseaseId::from(x));
                }
            }
            ev.push(json!({"e": "AddRecord", "k": kind.name(), "x": x}));
        } else {
            let t = *rng.pick(&order);
            let _ = match kind {
                Kind::Gene => b.annotate_gene(GeneId::from(x), &name, HpoTermId::from(t)),
                Kind::Omim => b.annotate_omim_disease(OmimDiseaseId::from(x), &name, HpoTermId::from(t)),
                Kind::Orpha => b.annotate_orpha_disease(OrphaDiseaseId::from(x), &name, HpoTermId::from(t)),
            };
            drain(&mut ev);
        }
    }
    let _ = verif_hooks::take();
    if let Ok(Ok(ont)) = catch(|| b.calculate_information_content().map(|x| x.build_minimal())) {
        if let Ok(p) = proj_json(&ont) {
            ev.push(json!({"e": "Built", "proj": p}));
        }
    }
    ev
}

pub fn run(args: &Args) {
    silence_panics();
    let seed = args.num("seed", 1);
    let runs = args.num("runs", 20);
    let mut all: Vec<Vec<Value>> = vec![];
    for r in 0..runs {
        let mut rng = Rng::new(seed.wrapping_mul(7_000_003).wrapping_add(r));
        all.push(one_run(&mut rng));
    }
    let mut ids: BTreeSet<u32> = BTreeSet::new();
    let mut recs: [BTreeSet<u32>; 3] = Default::default();
    for ev in &all {
        for e in ev {
            match e["e"].as_str().unwrap_or("") {
                "NewTerm" => {
                    ids.insert(as_u32(&e["id"]));
                }
                "AddRecord" | "LinkVisit" => {
                    recs[Kind::parse(e["k"].as_str().unwrap()) as usize].insert(as_u32(&e["x"]));
                }
                _ => {}
            }
        }
    }
    let mut f = std::fs::File::create(args.req("trace")).expect("trace file");
    writeln!(f, "{}", json!({"e": "Header", "ids": ids, "gene": recs[0], "omim": recs[1], "orpha": recs[2]})).unwrap();
    let mut n = 1u64;
    let mut hook_events = 0u64;
    for (r, ev) in all.iter().enumerate() {
        writeln!(f, "{}", json!({"e": "Reset", "run": r})).unwrap();
        n += 1;
        for e in ev {
            writeln!(f, "{}", e).unwrap();
            n += 1;
            if matches!(e["e"].as_str().unwrap_or(""), "CacheEnter" | "CacheReturn" | "GrandparentsMiss" | "GrandparentsRead" | "LinkVisit" | "LinkLeave" | "ArenaInsert") {
                hook_events += 1;
            }
        }
    }
    let summary = json!({"cases": all.len(), "evaluations": n, "nontrivial": all.len(), "counters": {"hook_events": hook_events}, "samples": [], "violations": [], "extra": {"seed": seed}});
    std::fs::write(args.req("out"), serde_json::to_string(&summary).unwrap()).unwrap();
}
