//! C20: HpoTermId text / byte conversions (spec/HpoTermIdSpec.tla).  TLC emits every text of <= 5
//! characters over a small alphabet (digits, prefix characters, letter, blank, 2- and 4-byte
//! characters) with the value parsing must return (or error), and the renderings of border ids; the
//! inverse laws are additionally swept over the whole HPO id space.
use crate::util::*;
use hpo::annotations::AnnotationId;
use hpo::HpoTermId;
use serde_json::{json, Value};

fn text_of(v: &Value) -> String {
    let mut bytes = vec![];
    for ch in arr(v) {
        for b in arr(&ch) {
            bytes.push(b.as_u64().unwrap() as u8);
        }
    }
    String::from_utf8(bytes).expect("spec texts are valid UTF-8")
}

fn parse(s: &str) -> Result<Option<u32>, String> {
    catch(|| HpoTermId::try_from(s).ok().map(|x| x.as_u32()))
}

fn check_line(st: &mut Stats, line: &Value) -> Vec<String> {
    let mut d = vec![];
    if let Some(idl) = line.get("ids") {
        for e in arr(idl) {
            st.evaluations += 1;
            let id = as_u32(&e["id"]);
            let text = text_of(&e["text"]);
            let t = HpoTermId::from(id);
            if t.to_string() != text {
                d.push(format!("id {id} renders as {:?}, expected {:?}", t.to_string(), text));
            }
            match parse(&text) {
                Ok(Some(x)) if x == id => {}
                other => d.push(format!("parsing {:?} gives {:?}, expected {id}", text, other)),
            }
            let bytes: Vec<u8> = arr(&e["bytes"]).iter().map(|b| b.as_u64().unwrap() as u8).collect();
            if t.to_be_bytes().to_vec() != bytes {
                d.push(format!("id {id}: to_be_bytes {:?}, expected {:?}", t.to_be_bytes(), bytes));
            }
            if HpoTermId::from([bytes[0], bytes[1], bytes[2], bytes[3]]).as_u32() != id || HpoTermId::from_u32(id).as_u32() != id {
                d.push(format!("id {id}: from([u8;4]) / from_u32 do not give the id back"));
            }
            // the other conversions of the same id: integer widths, owned text, comparison with text
            let widths = HpoTermId::from(id as u64) == t && HpoTermId::from(id as usize) == t && t.to_usize() == id as usize && (id > 0xFFFF || HpoTermId::from(id as u16) == t);
            if !widths {
                d.push(format!("id {id}: From<u64> / From<usize> / From<u16> / to_usize disagree with From<u32>"));
            }
            match catch(|| (HpoTermId::from(text.clone()).as_u32(), t == *text.as_str(), t == text.as_str())) {
                Ok((x, e1, e2)) => {
                    if x != id || !e1 || !e2 {
                        d.push(format!("id {id}: From<String>({:?}) = {x}, == str: {e1}, == &str: {e2}", text));
                    }
                }
                Err(p) => d.push(format!("id {id}: From<String> / == on its own rendering {:?} panicked: {p}", text)),
            }
            let other = HpoTermId::from(id ^ 1).to_string();
            if let Ok(true) = catch(|| t == other.as_str()) {
                d.push(format!("id {id} compares equal to the text {:?}", other));
            }
        }
        return d;
    }
    if let Some(seq) = line.get("seq") {
        // a call SEQUENCE on this thread: every call returns Parse(text), whatever was parsed before
        let mut trail = vec![];
        for c in arr(seq) {
            st.evaluations += 1;
            let text = text_of(&c["text"]);
            let want = c["value"].as_i64().unwrap();
            let want = if want < 0 { None } else { Some(want as u32) };
            match parse(&text) {
                Err(p) => d.push(format!("HpoTermId::try_from({:?}) panicked after the calls {:?}: {p}", text, trail)),
                Ok(got) if got != want => d.push(format!("HpoTermId::try_from({:?}) = {:?} after the calls {:?}, expected {:?} (the result must not depend on earlier calls)", text, got, trail, want)),
                _ => {}
            }
            trail.push(text);
        }
        return d;
    }
    st.evaluations += 1;
    let text = text_of(&line["text"]);
    let want = line["value"].as_i64().unwrap();
    match parse(&text) {
        Err(p) => d.push(format!("HpoTermId::try_from({:?}) panicked: {p}", text)),
        Ok(got) => {
            let want = if want < 0 { None } else { Some(want as u32) };
            if got != want {
                d.push(format!("HpoTermId::try_from({:?}) = {:?}, expected {:?}", text, got, want));
            }
        }
    }
    d
}

/// beyond TLC's 32-bit integers and string lengths: the u32 borders, long and multi-byte inputs, and
/// the inverse laws for EVERY id of the HPO id space
fn big_cases(st: &mut Stats) -> Vec<String> {
    let mut d = vec![];
    let cases: Vec<(String, Option<u32>)> = vec![
        ("HP:4294967295".into(), Some(u32::MAX)),
        ("HP:4294967296".into(), None),
        ("HP:99999999999999999999".into(), None),
        ("HP:0000000000000000000000000000000000001".into(), Some(1)),
        ("HP:".into(), None),
        ("HP".into(), None),
        ("".into(), None),
        ("é".into(), None),
        ("ééé".into(), None),
        ("éé1".into(), None),
        ("H😀1".into(), None),
        ("😀1".into(), None),
        ("éa7".into(), Some(7)),
        ("HP:12é".into(), None),
        ("HP:1 ".into(), None),
        ("HP: 1".into(), None),
        ("HP:-1".into(), None),
        ("HP:1.0".into(), None),
        ("HP:٣".into(), None),
        ("XYZ0000118".into(), Some(118)),
        ("é".repeat(300), None),
        (format!("HP:{}", "9".repeat(200)), None),
    ];
    // beyond TLC's integers: digit strings whose value is congruent to a small number modulo 2^32, 2^64 or 2^128
    // (an accumulator that wraps around instead of failing would accept them)
    let mut cases = cases;
    for modulus in [1u128 << 32, 1u128 << 64, u128::MAX / 2 + 1] {
        for m in [1u128, 2, 3, 10, 1000] {
            for small in [0u128, 1, 5, 118, 9_999_999] {
                if let Some(v) = modulus.checked_mul(m).and_then(|x| x.checked_add(small)) {
                    cases.push((format!("HP:{v}"), None));
                    cases.push((format!("HP:000{v}"), None));
                }
            }
        }
    }
    // 2^128 + small and 2^256 + small as decimal strings
    for small in ["0", "1", "5", "118"] {
        let p128 = "340282366920938463463374607431768211456";
        let p256 = "115792089237316195423570985008687907853269984665640564039457584007913129639936";
        for p in [p128, p256] {
            let mut digits: Vec<u8> = p.bytes().collect();
            // add the small number to the decimal string (no carry beyond the last three digits for these constants)
            let add: u32 = small.parse().unwrap();
            let n = digits.len();
            let tail: u32 = std::str::from_utf8(&digits[n - 3..]).unwrap().parse().unwrap();
            let new_tail = format!("{:03}", tail + add);
            if new_tail.len() == 3 {
                digits[n - 3..].copy_from_slice(new_tail.as_bytes());
                cases.push((format!("HP:{}", String::from_utf8(digits).unwrap()), None));
            }
        }
    }
    for (text, want) in cases {
        st.evaluations += 1;
        match parse(&text) {
            Err(p) => d.push(format!("HpoTermId::try_from({:?}) panicked: {p}", &text[..text.len().min(40)])),
            Ok(got) if got != want => d.push(format!("HpoTermId::try_from({:?}) = {:?}, expected {:?}", &text[..text.len().min(40)], got, want)),
            _ => {}
        }
    }
    // inverse laws over the whole id space + u32 borders
    let mut id: u32 = 0;
    loop {
        let t = HpoTermId::from(id);
        let s = t.to_string();
        let ok = s.len() >= 10 && s.starts_with("HP:") && s[3..].len() == 7.max(s.len() - 3) && HpoTermId::try_from(s.as_str()).map(|x| x.as_u32()).ok() == Some(id) && HpoTermId::from(t.to_be_bytes()).as_u32() == id
            && t == s.as_str() && HpoTermId::from(id as u64) == t && t.to_usize() == id as usize;
        let padded = format!("HP:{:07}", id);
        if !ok || s != padded {
            d.push(format!("id {id}: renders as {:?} (expected {:?}) or does not parse back", s, padded));
            break;
        }
        if id == 10_000_016 {
            id = u32::MAX - 1000;
        } else if id == u32::MAX {
            break;
        } else {
            id += 1;
        }
    }
    st.bump("ids_swept", 10_000_017 + 1001);
    d
}

pub fn run(args: &Args) {
    silence_panics();
    let Some(shard) = shard_or_spawn("replay-termid", args) else { return };
    let prop = args.get("prop").unwrap_or("C20").to_string();
    let (n_all, lines) = read_tlc_lines_sharded(args.req("in"), "REPLAY", shard);
    if n_all == 0 {
        eprintln!("no REPLAY lines");
        std::process::exit(2);
    }
    let mut st = Stats::default();
    for (i, l) in lines.iter().enumerate() {
        st.cases += 1;
        if l.get("ids").is_some() || l.get("seq").is_some() || l["value"].as_i64().unwrap_or(-1) >= 0 || arr(&l["text"]).iter().any(|c| arr(c).len() > 1) {
            st.nontrivial += 1;
        }
        guard_case(&mut st, &prop, "replay-termid", l, |st| {
            let mut d = check_line(st, l);
            if !d.is_empty() && st.violations.len() < 8 {
                d.truncate(10);
                st.violations.push(Violation { property: prop.clone(), what: d[0].clone(), replay: json!({"cmd": "replay-termid", "property": prop, "line": l, "diffs": d}) });
            }
        });
        if st.samples.len() < 3 && i % 977 == 5 {
            st.samples.push(l.clone());
        }
    }
    if shard.0 == 0 {
        let mut d = big_cases(&mut st);
        if !d.is_empty() {
            d.truncate(10);
            st.violations.push(Violation { property: prop.clone(), what: d[0].clone(), replay: json!({"cmd": "replay-termid", "property": prop, "big": true, "diffs": d}) });
        }
    }
    finish(st, args.req("out"), args.req("replay-dir"), json!({"lines": lines.len()}));
}

pub fn replay_one(v: &Value) -> bool {
    silence_panics();
    let mut st = Stats::default();
    let d = if v.get("big").is_some() { big_cases(&mut st) } else { check_line(&mut st, &v["line"]) };
    for l in &d {
        println!("reproduced: {l}");
    }
    !d.is_empty()
}
