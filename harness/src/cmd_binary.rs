//! C07 / C08: the binary format.  TLC (spec/HpoBinary.tla via mc/MC_Binary.tla) emits abstract
//! ontologies, their version-v restriction, their semantic projection and the bytes of the file.
//!   C08: the real decoder must decode each file to exactly that ontology and must never accept a
//!        proper prefix, an extension, or an unsupported version byte.
//!   C07: the crate's own as_bytes output (sources built through Builder, hp.obo and binary) must
//!        load again to the same ontology; its records are compared with the independent encoder
//!        and the bytes are handed back to TLC (`Decode`) for validation against the spec.
use crate::enc;
use crate::paths::*;
use crate::project::*;
use crate::scenario::*;
use crate::util::*;
use serde_json::{json, Value};
use std::collections::{BTreeMap, BTreeSet};
use std::io::Write;

pub fn name_of(v: &Value) -> String {
    let mut bytes = vec![];
    for ch in arr(v) {
        for b in arr(&ch) {
            bytes.push(b.as_u64().unwrap() as u8);
        }
    }
    String::from_utf8(bytes).expect("spec names are valid UTF-8")
}

/// Scenario (for the Builder / JAX / encoder paths) from an abstract ontology value `o` (file order)
pub fn scenario_of(o: &Value) -> Scenario {
    let mut s = Scenario::default();
    let ver = u32_list(&o["version"]);
    s.version = (ver[0] as u16, ver[1] as u8, ver[2] as u8);
    for t in arr(&o["terms"]) {
        let repl = as_u32(&t["repl"]);
        s.terms.push(TermSpec { id: as_u32(&t["id"]), name: name_of(&t["name"]), obsolete: t["obsolete"].as_bool().unwrap(), repl: if repl == 0 { None } else { Some(repl) } });
    }
    for p in arr(&o["parents"]) {
        let c = as_u32(&p["id"]);
        for par in u32_list(&p["parents"]) {
            s.edges.push((par, c));
        }
    }
    for k in KINDS {
        for r in arr(&o[k.name()]) {
            let x = as_u32(&r["id"]);
            let name = name_of(&r["name"]);
            let terms = u32_list(&r["terms"]);
            if terms.is_empty() {
                s.facts.push(Fact { kind: k, x, name: name.clone(), term: None });
            }
            for t in terms {
                s.facts.push(Fact { kind: k, x, name: name.clone(), term: Some(t) });
            }
        }
    }
    s
}

/// Expected projection from the spec's `expect` (semantic part) and `ro` (names, flags, version)
pub fn expected_of(ro: &Value, expect: &Value) -> Expected {
    let mut e = Expected::default();
    let ver = u32_list(&ro["version"]);
    e.version = (ver[0] as u16, ver[1] as u8, ver[2] as u8);
    e.defaults = true;
    let mut meta: BTreeMap<u32, (String, bool, Option<u32>)> = BTreeMap::new();
    for t in arr(&ro["terms"]) {
        let repl = as_u32(&t["repl"]);
        meta.insert(as_u32(&t["id"]), (name_of(&t["name"]), t["obsolete"].as_bool().unwrap(), if repl == 0 { None } else { Some(repl) }));
    }
    for t in arr(&expect["terms"]) {
        let id = as_u32(&t["id"]);
        let set = |k: &str| -> BTreeSet<u32> { u32_list(&t[k]).into_iter().collect() };
        let (name, obsolete, repl) = meta[&id].clone();
        e.terms.insert(id, ExpTerm { name, obsolete, repl, parents: set("parents"), children: set("children"), allp: set("allp"), ann: [set("gene"), set("omim"), set("orpha")] });
    }
    for k in KINDS {
        let names: BTreeMap<u32, String> = arr(&ro[k.name()]).iter().map(|r| (as_u32(&r["id"]), name_of(&r["name"]))).collect();
        for r in arr(&expect[k.name()]) {
            let x = as_u32(&r["id"]);
            e.recs[k as usize].insert(x, ExpRec { name: names[&x].clone(), hpos: u32_list(&r["hpos"]).into_iter().collect() });
        }
    }
    e
}

fn bytes_of(v: &Value) -> Vec<u8> {
    arr(v).iter().map(|b| b.as_u64().unwrap() as u8).collect()
}

fn accepted(b: &[u8]) -> Option<String> {
    match from_bytes(b) {
        Ok(o) => Some(format!("accepted as an ontology with {} terms", o.len())),
        Err(_) => None,
    }
}

/// C08 on one line
fn check_c08(st: &mut Stats, line: &Value, deep: bool) -> Vec<String> {
    let mut d = vec![];
    let v = line["v"].as_u64().unwrap() as u8;
    let bytes = bytes_of(&line["bytes"]);
    let scn = scenario_of(&line["o"]);
    let exp = expected_of(&line["ro"], &line["expect"]);
    // harness encoder == TLA+ encoder (binds enc.rs to the specification)
    let mine = enc::encode(&enc::abstract_of_ordered(&scn, false), v);
    if mine != bytes {
        st.bump("encoder_mismatch", 1);
    }
    st.evaluations += 1;
    match from_bytes(&bytes) {
        Ok(ont) => {
            // information content is derived, not described by the file: it is C03's business
            for x in compare(&ont, &exp, &[Focus::Struct, Focus::Ann, Focus::Meta]) {
                d.push(format!("v{v} file ({} bytes): {x}", bytes.len()));
            }
        }
        Err(e) => d.push(format!("valid v{v} file ({} bytes) rejected: {e}", bytes.len())),
    }
    // the FILE entry point: from_binary(path) decodes what the file holds - also right after files the decoder rejected
    // (a truncated one, an extended one, one with an unsupported version) were offered to the same thread
    {
        let dir = scratch_dir();
        std::fs::create_dir_all(&dir).ok();
        let path = dir.join("o.hpo");
        let mut ext = bytes.clone();
        ext.push(0);
        let cut = bytes[..bytes.len() * 2 / 3].to_vec();
        for (what, content, must_load) in [("truncated", &cut, false), ("valid", &bytes, true), ("extended", &ext, false), ("valid", &bytes, true), ("valid", &bytes, true)] {
            st.evaluations += 1;
            std::fs::write(&path, content).expect("write scratch file");
            match catch(|| hpo::Ontology::from_binary(&path)) {
                Ok(Ok(ont)) => {
                    if !must_load {
                        d.push(format!("from_binary accepted a {what} v{v} file ({} of {} bytes)", content.len(), bytes.len()));
                    } else {
                        for x in compare(&ont, &exp, &[Focus::Struct, Focus::Ann, Focus::Meta]).into_iter().take(2) {
                            d.push(format!("from_binary of the v{v} file (after rejected files on the same thread): {x}"));
                        }
                    }
                }
                Ok(Err(e)) => {
                    if must_load {
                        d.push(format!("from_binary rejected a valid v{v} file ({} bytes) that was offered after a rejected file: {e}", bytes.len()));
                    }
                }
                Err(p) => {
                    if must_load {
                        d.push(format!("from_binary panicked on a valid v{v} file offered after a rejected file: {p}"));
                    }
                }
            }
        }
        std::fs::remove_dir_all(&dir).ok();
    }
    // crash points: every proper prefix
    for i in 0..bytes.len() {
        st.evaluations += 1;
        if let Some(how) = accepted(&bytes[..i]) {
            d.push(format!("prefix of length {i} of a {}-byte v{v} file {how}", bytes.len()));
            break;
        }
    }
    // extensions
    let mut sfx: Vec<Vec<u8>> = if deep { (0..=255u8).map(|b| vec![b]).collect() } else { vec![vec![0], vec![1], vec![255], vec![b'H']] };
    sfx.push(vec![0, 0, 0, 0]);
    sfx.push(vec![0, 0, 0, 0, 0, 0, 0, 0]);
    sfx.push(vec![0, 0, 0, 1, 0]);
    if bytes.len() > 24 {
        sfx.push(bytes[bytes.len() - 24..].to_vec());
    }
    for s in sfx {
        st.evaluations += 1;
        let mut b = bytes.clone();
        b.extend_from_slice(&s);
        if let Some(how) = accepted(&b) {
            d.push(format!("v{v} file followed by {} extra bytes {:?} {how}", s.len(), &s[..s.len().min(8)]));
            break;
        }
    }
    // a header announcing any unsupported version in front of a header-less v1 body
    if v == 1 {
        for x in 0..=255u8 {
            if x == 2 || x == 3 {
                continue;
            }
            for date in [&[][..], &[7u8, 232, 1, 1][..]] {
                st.evaluations += 1;
                let mut b = vec![b'H', b'P', b'O', x];
                b.extend_from_slice(date);
                b.extend_from_slice(&bytes);
                if let Some(how) = accepted(&b) {
                    d.push(format!("v1 body behind a header announcing version {x} {how}"));
                    break;
                }
            }
        }
    }
    // version byte
    if v >= 2 {
        for x in 0..=255u8 {
            if x == 2 || x == 3 {
                continue;
            }
            st.evaluations += 1;
            let mut b = bytes.clone();
            b[3] = x;
            if let Some(how) = accepted(&b) {
                d.push(format!("file announcing version {x} {how}"));
                break;
            }
        }
        // v3 announced as v2 and vice versa is a different (mis-labelled) file: the section count no longer matches
        let mut b = bytes.clone();
        b[3] = if v == 3 { 2 } else { 3 };
        st.evaluations += 1;
        if let Some(how) = accepted(&b) {
            d.push(format!("v{v} file relabelled as version {} {how}", b[3]));
        }
        let mut b = bytes.clone();
        b[0] ^= 1;
        st.evaluations += 1;
        if let Some(how) = accepted(&b) {
            d.push(format!("file with damaged magic {how}"));
        }
    }
    d
}

// ---------------------------------------------------------------------------------------------
// C07

/// split a v3 file produced by the crate into header + 5 sections of records
fn split_records(b: &[u8]) -> Result<(Vec<u8>, Vec<Vec<Vec<u8>>>), String> {
    if b.len() < 8 || &b[0..3] != b"HPO" || b[3] != 3 {
        return Err("as_bytes output does not start with the v3 header".into());
    }
    let mut p = 8;
    let mut sections = vec![];
    for s in 0..5 {
        if p + 4 > b.len() {
            return Err(format!("section {s}: length prefix missing"));
        }
        let n = u32::from_be_bytes([b[p], b[p + 1], b[p + 2], b[p + 3]]) as usize;
        p += 4;
        if p + n > b.len() {
            return Err(format!("section {s}: length {n} exceeds file"));
        }
        let end = p + n;
        let mut recs = vec![];
        while p < end {
            if p + 4 > end {
                return Err(format!("section {s}: dangling bytes"));
            }
            let first = u32::from_be_bytes([b[p], b[p + 1], b[p + 2], b[p + 3]]) as usize;
            let len = if s == 1 { 8 + 4 * first } else { first };
            if len == 0 || p + len > end {
                return Err(format!("section {s}: record length {len} does not fit"));
            }
            recs.push(b[p..p + len].to_vec());
            p += len;
        }
        recs.sort();
        sections.push(recs);
    }
    if p != b.len() {
        return Err("bytes after the last section".into());
    }
    Ok((b[..8].to_vec(), sections))
}

/// the abstract ontology JSON (spec schema) with some modifications, for TLC's Decode validation
fn ro_for_source(ro: &Value, clear_flags: bool, drop_empty_records: bool) -> Value {
    let mut r = ro.clone();
    if clear_flags {
        if let Some(ts) = r["terms"].as_array_mut() {
            for t in ts {
                t["obsolete"] = json!(false);
                t["repl"] = json!(0);
            }
        }
    }
    if drop_empty_records {
        for k in KINDS {
            if let Some(a) = r[k.name()].as_array_mut() {
                a.retain(|x| !arr(&x["terms"]).is_empty());
            }
        }
    }
    r
}

fn check_c07(st: &mut Stats, line: &Value, dump: &mut Option<(std::fs::File, std::fs::File)>) -> Vec<String> {
    let mut d = vec![];
    if line["v"].as_u64().unwrap() != 3 {
        return d;
    }
    let scn = scenario_of(&line["o"]);
    let exp = expected_of(&line["ro"], &line["expect"]);
    let has_flags = scn.terms.iter().any(|t| t.obsolete || t.repl.is_some());
    let has_empty = scn.facts.iter().any(|f| f.term.is_none());
    // sources through the three public constructors
    let mut sources: Vec<(&str, Built, Expected, Value)> = vec![];
    {
        // (i) Builder API: cannot express obsolete / replacement
        let mut s2 = scn.clone();
        let mut e2 = exp.clone();
        for t in s2.terms.iter_mut() {
            t.obsolete = false;
            t.repl = None;
        }
        for t in e2.terms.values_mut() {
            t.obsolete = false;
            t.repl = None;
        }
        sources.push(("builder", via_builder(&s2, EdgeOrder::AsGiven, false, true), e2, ro_for_source(&line["ro"], true, false)));
    }
    {
        // (ii) hp.obo + annotation files: cannot express records without terms
        let mut s2 = scn.clone();
        s2.facts.retain(|f| f.term.is_some());
        let mut e2 = exp.clone();
        for k in KINDS {
            e2.recs[k as usize].retain(|_, r| !r.hpos.is_empty());
        }
        // untrimmed names enter through the text files; the expected names stay the trimmed ones
        sources.push(("jax", via_jax(&jax_plain(&s2, None), false), e2, ro_for_source(&line["ro"], false, true)));
    }
    {
        // (iii) the spec-encoded v3 file itself
        sources.push(("binary", from_bytes(&bytes_of(&line["bytes"])), exp.clone(), line["ro"].clone()));
    }
    let _ = (has_flags, has_empty);
    for (name, src, e, ro) in sources {
        st.evaluations += 1;
        let ont = match src {
            Ok(o) => o,
            Err(err) => {
                // a source that cannot be constructed is not a C07 matter (C08 / C09 look at that)
                st.bump(&format!("source_unavailable:{name}"), 1);
                let _ = err;
                continue;
            }
        };
        let (bytes, back) = roundtrip(&ont);
        // what the source ontology looks like through the read API, names cut to the documented limit
        let mut seen = observe(&ont);
        for t in seen.terms.values_mut() {
            t.name = enc::trim255(&t.name).to_string();
        }
        for r in seen.recs[0].values_mut() {
            r.name = enc::trim255(&r.name).to_string();
        }
        // the spec's expectation, with the release date the source really carries
        let mut e = e;
        e.version = seen.version;
        let mut ro = ro;
        ro["version"] = json!([seen.version.0, seen.version.1, seen.version.2]);
        match &back {
            Ok(o2) => {
                for x in compare(o2, &seen, &[Focus::Struct, Focus::Ann, Focus::Ic, Focus::Meta]) {
                    d.push(format!("source {name}: reloaded ontology differs from the serialised one: {x}"));
                }
                // against the specification: what "identical up to the 255-byte limit" means (names cut on a
                // character boundary, flags, release date); structure, links and IC are compared with the source only
                for x in compare(o2, &e, &[Focus::Meta]) {
                    d.push(format!("source {name}: after as_bytes -> from_bytes: {x}"));
                }
                // Ontology::compare must see no difference either
                let cmp = catch(|| {
                    let c = ont.compare(o2);
                    (c.added_hpo_terms().len(), c.removed_hpo_terms().len(), c.added_genes().len(), c.removed_genes().len(), c.added_omim_diseases().len(), c.removed_omim_diseases().len())
                });
                match cmp {
                    Ok((0, 0, 0, 0, 0, 0)) => {}
                    Ok(t) => d.push(format!("source {name}: Ontology::compare(original, reloaded) reports added/removed {:?}", t)),
                    Err(p) => d.push(format!("source {name}: Ontology::compare panicked: {p}")),
                }
            }
            Err(err) => d.push(format!("source {name}: from_bytes(as_bytes()) fails: {err}")),
        }
        // record-level translation validation against the independent encoder
        let mut s_for_enc = scn.clone();
        if name == "builder" {
            for t in s_for_enc.terms.iter_mut() {
                t.obsolete = false;
                t.repl = None;
            }
        }
        if name == "jax" {
            s_for_enc.facts.retain(|f| f.term.is_some());
        }
        s_for_enc.version = seen.version;
        let want = enc::encode(&enc::abstract_of(&s_for_enc), 3);
        match (split_records(&bytes), split_records(&want)) {
            (Ok((h1, s1)), Ok((h2, s2))) => {
                if h1 != h2 {
                    d.push(format!("source {name}: header bytes {:?} expected {:?}", h1, h2));
                }
                for i in 0..5 {
                    if s1[i] != s2[i] {
                        d.push(format!("source {name}: section {i} records differ from the documented layout: got {} records, expected {}; first got {:?} / expected {:?}",
                            s1[i].len(), s2[i].len(), s1[i].iter().find(|r| !s2[i].contains(r)).map(|r| &r[..r.len().min(24)]), s2[i].iter().find(|r| !s1[i].contains(r)).map(|r| &r[..r.len().min(24)])));
                    }
                }
            }
            (Err(e1), _) => d.push(format!("source {name}: as_bytes output is not laid out as documented: {e1}")),
            (_, Err(e2)) => {
                st.bump("encoder_mismatch", 1);
                let _ = e2;
            }
        }
        if let Some((f, g)) = dump {
            if !bytes.is_empty() {
                let rec = json!({"src": name, "bytes": bytes, "ro": ro});
                writeln!(f, "{}", rec).ok();
                // side file, same order: the generator line each record came from (for replay files)
                writeln!(g, "{}", json!({"src": name, "line": line})).ok();
                st.bump("dumped_for_tlc", 1);
            }
        }
    }
    d
}

/// Beyond the small files TLC encodes: sections far above 65,535 bytes, a term with 300 direct parents, a gene with 400 and
/// a disease with 500 direct terms, a 255-byte gene name, a 70,000-byte disease name.  The oracle is the harness encoder (bound
/// to the TLA+ encoder byte for byte on every small file of this run) and the ontology the Builder makes of the same facts.
pub fn big_binary_case(st: &mut Stats, prop: &str) {
    st.cases += 1;
    st.nontrivial += 1;
    let mut scn = Scenario::default();
    scn.version = (2025, 11, 30);
    scn.terms.push(TermSpec { id: 1, name: "All".into(), obsolete: false, repl: None });
    scn.terms.push(TermSpec { id: 118, name: "Phenotypic abnormality".into(), obsolete: false, repl: None });
    scn.edges.push((1, 118));
    let n = 5_000u32;
    let id_of = |i: u32| 1_000 + i * 13;
    for i in 0..n {
        scn.terms.push(TermSpec { id: id_of(i), name: format!("Term number {i} {}", "x".repeat((i % 40) as usize)), obsolete: false, repl: None });
        scn.edges.push((if i < 400 { 118 } else { id_of(i % 400) }, id_of(i)));
    }
    for j in 0..300u32 {
        scn.edges.push((id_of(j), id_of(n - 1))); // the last term has 300 (+1) direct parents
    }
    let long_gene = "G".repeat(255);
    let huge = "ü".repeat(35_000); // 70,000 bytes
    for j in 0..400u32 {
        scn.facts.push(Fact { kind: Kind::Gene, x: 77, name: long_gene.clone(), term: Some(id_of(j * 7)) });
    }
    for j in 0..500u32 {
        scn.facts.push(Fact { kind: Kind::Omim, x: 600_001, name: huge.clone(), term: Some(id_of(j * 3 + 1)) });
    }
    for j in 0..40u32 {
        scn.facts.push(Fact { kind: Kind::Orpha, x: 600_001, name: format!("orpha {}", "y".repeat(300)), term: Some(id_of(j * 11 + 2)) });
    }
    scn.facts.push(Fact { kind: Kind::Gene, x: 78, name: "lonely".into(), term: None });
    let mut d: Vec<String> = vec![];
    let r = catch(|| {
        let mut d: Vec<String> = vec![];
        let built = via_builder(&scn, EdgeOrder::AsGiven, false, true);
        let src = match built {
            Ok(s) => s,
            Err(e) => return vec![format!("big source cannot be built: {e}")],
        };
        let want = observe(&src);
        if prop == "C08" {
            for v in 1..=3u8 {
                let bytes = enc::encode(&enc::abstract_of_ordered(&scn, false), v);
                match from_bytes(&bytes) {
                    Ok(ont) => {
                        let mut w = observe(&src);
                        if v < 3 {
                            w.recs[2].clear();
                            for t in w.terms.values_mut() {
                                t.ann[2].clear();
                            }
                        }
                        for x in observe_diff(&w, &observe(&ont)).into_iter().take(2) {
                            d.push(format!("big v{v} file ({} bytes) decodes to another ontology than the Builder makes of the same facts: {}", bytes.len(), x.chars().take(400).collect::<String>()));
                        }
                    }
                    Err(e) => d.push(format!("valid big v{v} file ({} bytes) rejected: {e}", bytes.len())),
                }
                for cut in (1..bytes.len()).step_by(bytes.len() / 23 + 1).chain([bytes.len() - 1, bytes.len() - 4]) {
                    if let Some(how) = accepted(&bytes[..cut]) {
                        d.push(format!("prefix of length {cut} of a {}-byte v{v} file {how}", bytes.len()));
                        break;
                    }
                }
            }
        } else {
            let bytes = src.as_bytes();
            match (split_records(&bytes), split_records(&enc::encode(&enc::abstract_of_ordered(&scn, true), 3))) {     // canonical: id lists ascending, as the crate's groups are
                (Ok((h1, s1)), Ok((h2, s2))) => {
                    if h1 != h2 {
                        d.push(format!("as_bytes header {:?}, expected {:?}", h1, h2));
                    }
                    for (i, (a, b)) in s1.iter().zip(s2.iter()).enumerate() {
                        if a != b {
                            d.push(format!("as_bytes of the big ontology: section {i} holds {} records, the independent encoder {} (or their bytes differ)", a.len(), b.len()));
                        }
                    }
                }
                (Err(e), _) => d.push(format!("as_bytes of the big ontology is not a well formed v3 file: {e}")),
                (_, Err(e)) => d.push(format!("harness encoder: {e}")),
            }
            match from_bytes(&bytes) {
                Ok(re) => {
                    for x in observe_diff(&want, &observe(&re)).into_iter().take(2) {
                        d.push(format!("big ontology ({} bytes): reloaded ontology differs from the serialised one: {}", bytes.len(), x.chars().take(400).collect::<String>()));
                    }
                }
                Err(e) => d.push(format!("from_bytes(as_bytes()) of the big ontology fails: {e}")),
            }
        }
        d
    });
    st.evaluations += 4;
    match r {
        Ok(x) => d.extend(x),
        Err(p) => d.push(format!("big binary case panicked: {p}")),
    }
    if !d.is_empty() {
        d.truncate(6);
        st.violations.push(Violation { property: prop.into(), what: d[0].clone(), replay: json!({"cmd": "replay-binary", "property": prop, "big_binary": true, "diffs": d}) });
    }
}

pub fn replay_line(st: &mut Stats, prop: &str, idx: usize, line: &Value, deep: bool, dump: &mut Option<(std::fs::File, std::fs::File)>) {
    st.cases += 1;
    let mut diffs = if prop == "C08" { check_c08(st, line, deep) } else { check_c07(st, line, dump) };
    let names_long = arr(&line["o"]["terms"]).iter().any(|t| arr(&t["name"]).len() > 10) || !arr(&line["o"]["gene"]).is_empty();
    if names_long {
        st.nontrivial += 1;
    }
    if st.samples.is_empty() && idx % 37 == 5 {
        let mut l = line.clone();
        l["bytes"] = json!(format!("{} bytes", arr(&line["bytes"]).len()));
        l["o"] = json!("...");
        l["ro"] = json!("...");
        st.samples.push(l);
    }
    if !diffs.is_empty() && st.violations.len() < 8 {
        diffs.truncate(12);
        st.violations.push(Violation { property: prop.to_string(), what: diffs[0].clone(), replay: json!({"cmd": "replay-binary", "property": prop, "line": line, "diffs": diffs}) });
    }
}

pub fn run(args: &Args) {
    silence_panics();
    let Some(shard) = shard_or_spawn("replay-binary", args) else { return };
    let prop = args.get("prop").unwrap_or("C08").to_string();
    let deep = args.num("deep", 0) == 1;
    let (n_all, lines) = read_tlc_lines_sharded(args.req("in"), "REPLAY", shard);
    if n_all == 0 {
        eprintln!("no REPLAY lines");
        std::process::exit(2);
    }
    let mut dump = args.get("dump").map(|p| {
        (std::fs::File::create(format!("{p}.{}", shard.0)).expect("dump file"), std::fs::File::create(format!("{p}.lines.{}", shard.0)).expect("dump file"))
    });
    let mut st = Stats::default();
    for (i, l) in lines.iter().enumerate() {
        guard_case(&mut st, &prop, "replay-binary", l, |st| replay_line(st, &prop, i, l, deep, &mut dump));
    }
    if shard.0 == shard.1 / 2 {
        big_binary_case(&mut st, &prop);
    }
    finish(st, args.req("out"), args.req("replay-dir"), json!({"lines": lines.len()}));
}

pub fn replay_one(v: &Value) -> bool {
    silence_panics();
    let mut st = Stats::default();
    let prop = v["property"].as_str().unwrap_or("C08").to_string();
    if v.get("big_binary").is_some() {
        big_binary_case(&mut st, &prop);
    } else {
        guard_case(&mut st, &prop, "replay-binary", &v["line"], |st| replay_line(st, &prop, 0, &v["line"], true, &mut None));
    }
    for x in &st.violations {
        println!("reproduced: {}", x.what);
        if let Some(d) = x.replay["diffs"].as_array() {
            for l in d {
                println!("   {}", l.as_str().unwrap_or(""));
            }
        }
    }
    !st.violations.is_empty()
}

/// debugging aid: print the first line on which enc.rs and the TLA+ encoder disagree
pub fn debug_mismatch(args: &Args) {
    let lines = read_tlc_lines(args.req("in"), "REPLAY");
    for line in &lines {
        let v = line["v"].as_u64().unwrap() as u8;
        let bytes = bytes_of(&line["bytes"]);
        let scn = scenario_of(&line["o"]);
        let mine = enc::encode(&enc::abstract_of(&scn), v);
        if mine != bytes {
            println!("p = {}", line["p"]);
            println!("tla  = {:?}", bytes);
            println!("mine = {:?}", mine);
            return;
        }
    }
}
