//! C15: rejected Builder calls (spec/HpoReject.tla).  TLC emits complete call histories over
//! present and absent term ids with the reply every call must give and the projection the built
//! ontology must have (rejected calls are stuttering steps).  The harness issues the very same
//! calls, compares every reply, builds, walks the whole read API under catch_unwind, compares the
//! projection, and compares with the ontology built from the successful calls alone.
use crate::project::*;
use crate::scenario::*;
use crate::util::*;
use hpo::annotations::{AnnotationId, Disease, GeneId, OmimDiseaseId, OrphaDiseaseId};
use hpo::builder::Builder;
use hpo::{HpoTermId, Ontology};
use serde_json::{json, Value};

/// Issue the calls of the history; `only_ok`: skip the calls the specification rejects.
/// Returns the ontology and the replies that differ from the specification.
fn drive(calls: &[Value], c: &Concretisation, only_ok: bool, d: &mut Vec<String>) -> Ontology {
    let mut b = Builder::new();
    let mut i = 0;
    while i < calls.len() && calls[i]["op"] == "new_term" {
        let id = c.get(as_u32(&calls[i]["a"]));
        b.new_term(&format!("T{id}"), id);
        i += 1;
    }
    let mut b = b.terms_complete();
    while i < calls.len() && calls[i]["op"] != "connect_all_terms" {
        let call = &calls[i];
        i += 1;
        if call["op"] != "add_parent" {
            continue;
        }
        let want = call["ok"].as_bool().unwrap();
        if only_ok && !want {
            continue;
        }
        let (p, ch) = (c.get(as_u32(&call["a"])), c.get(as_u32(&call["b"])));
        let got = b.add_parent(p, ch).is_ok();
        if got != want {
            d.push(format!("add_parent({p}, {ch}) returned {}, the specification says {}", if got { "Ok" } else { "Err" }, if want { "Ok" } else { "Err" }));
        }
    }
    let mut b = b.connect_all_terms();
    let mut nfact = 0;
    while i < calls.len() {
        let call = &calls[i];
        i += 1;
        let op = call["op"].as_str().unwrap();
        if op != "annotate" && op != "add_record" {
            continue;
        }
        nfact += 1;
        let want = call["ok"].as_bool().unwrap();
        if only_ok && !want {
            continue;
        }
        let kind = Kind::parse(call["c"].as_str().unwrap());
        let x = as_u32(&call["a"]);
        let name = rec_name(&c.name, kind, x, nfact);
        if op == "add_record" {
            match kind {
                Kind::Gene => b.add_gene(&name, GeneId::from(x)),
                Kind::Omim => {
                    b.add_omim_disease(&name, OmimDiseaseId::from(x));
                }
                Kind::Orpha => {
                    b.add_orpha_disease(&name, OrphaDiseaseId::from(x));
                }
            }
            continue;
        }
        let t = HpoTermId::from(c.get(as_u32(&call["b"])));
        let got = match kind {
            Kind::Gene => b.annotate_gene(GeneId::from(x), &name, t).is_ok(),
            Kind::Omim => b.annotate_omim_disease(OmimDiseaseId::from(x), &name, t).is_ok(),
            Kind::Orpha => b.annotate_orpha_disease(OrphaDiseaseId::from(x), &name, t).is_ok(),
        };
        if got != want {
            d.push(format!("annotate_{}({x}, {name}, {}) returned {}, the specification says {}", kind.name(), t.as_u32(), if got { "Ok" } else { "Err" }, if want { "Ok" } else { "Err" }));
        }
    }
    b.calculate_information_content().expect("calculate_information_content").build_minimal()
}

/// Every id the read API hands out must resolve; every resolving iterator must run to its end.
fn walk(ont: &Ontology, d: &mut Vec<String>) {
    let mut seen = 0usize;
    for t in ont.iter() {
        let id = t.id().as_u32();
        let step = |what: &str, f: &mut dyn FnMut() -> usize| -> Option<usize> {
            match catch(|| f()) {
                Ok(n) => Some(n),
                Err(_) => {
                    let _ = what;
                    None
                }
            }
        };
        let mut fail = |what: &str| d.push(format!("term {id}: {what} panicked (an id that does not resolve in the ontology)"));
        if step("parents()", &mut || t.parents().count()).is_none() {
            fail("parents()");
        }
        if step("children()", &mut || t.children().count()).is_none() {
            fail("children()");
        }
        if step("all_parents()", &mut || t.all_parents().count()).is_none() {
            fail("all_parents()");
        }
        if step("genes()", &mut || t.genes().count()).is_none() {
            fail("genes()");
        }
        if step("omim_diseases()", &mut || t.omim_diseases().count()).is_none() {
            fail("omim_diseases()");
        }
        if step("orpha_diseases()", &mut || t.orpha_diseases().count()).is_none() {
            fail("orpha_diseases()");
        }
        for (what, g) in [("parent_ids", t.parent_ids()), ("children_ids", t.children_ids()), ("all_parent_ids", t.all_parent_ids())] {
            for x in g {
                if ont.hpo(x).is_none() {
                    d.push(format!("term {id}: {what}() contains {} which is not a term of the ontology", x.as_u32()));
                }
            }
        }
        for g in t.gene_ids() {
            if ont.gene(g).is_none() {
                d.push(format!("term {id}: gene_ids() contains {} which is not a gene of the ontology", g.as_u32()));
            }
        }
        for g in t.omim_disease_ids() {
            if ont.omim_disease(g).is_none() {
                d.push(format!("term {id}: omim_disease_ids() contains {} which is not a disease of the ontology", g.as_u32()));
            }
        }
        for g in t.orpha_disease_ids() {
            if ont.orpha_disease(g).is_none() {
                d.push(format!("term {id}: orpha_disease_ids() contains {} which is not a disease of the ontology", g.as_u32()));
            }
        }
        seen += 1;
    }
    if seen != ont.len() {
        d.push(format!("iteration visited {seen} terms, len() = {}", ont.len()));
    }
    let mut rec = |kind: &str, id: u32, terms: &hpo::term::HpoGroup, set: &mut dyn FnMut() -> usize| {
        for x in terms {
            if ont.hpo(x).is_none() {
                d.push(format!("{kind} {id}: hpo_terms() contains {} which is not a term of the ontology", x.as_u32()));
            }
        }
        if catch(|| set()).is_err() {
            d.push(format!("{kind} {id}: to_hpo_set() / iteration of its terms panicked (an id that does not resolve in the ontology)"));
        }
    };
    for g in ont.genes() {
        rec("gene", g.id().as_u32(), g.hpo_terms(), &mut || g.to_hpo_set(ont).iter().count());
    }
    for g in ont.omim_diseases() {
        rec("omim disease", g.id().as_u32(), g.hpo_terms(), &mut || g.to_hpo_set(ont).iter().count());
    }
    for g in ont.orpha_diseases() {
        rec("orpha disease", g.id().as_u32(), g.hpo_terms(), &mut || g.to_hpo_set(ont).iter().count());
    }
    if catch(|| ont.as_bytes().len()).is_err() {
        d.push("as_bytes() panicked".into());
    }
}

pub fn check_line(st: &mut Stats, line: &Value, seed: u64, conc_filter: Option<&str>) -> Vec<(String, Vec<String>)> {
    let ids = u32_list(&line["ids"]);
    let calls = arr(&line["calls"]);
    let mut rng = Rng::new(seed ^ fnv(&line.to_string()));
    let mut out = vec![];
    for conc in concretisations(&ids, &mut rng, false) {
        if let Some(f) = conc_filter {
            if conc.name != f {
                continue;
            }
        }
        st.evaluations += 1;
        let mut d: Vec<String> = vec![];
        let synth = json!({"arena": line["arena"], "edges": [], "facts": [], "expect": line["expect"]});
        let (_, exp) = from_tlc(&synth, &conc);
        match catch(|| {
            let mut dd = vec![];
            let ont = drive(&calls, &conc, false, &mut dd);
            walk(&ont, &mut dd);
            dd.extend(compare(&ont, &exp, &[Focus::Struct, Focus::Ann, Focus::Ic, Focus::Meta]));
            // "the result equals the ontology built from the successful calls alone"
            let mut ignore = vec![];
            let ont2 = drive(&calls, &conc, true, &mut ignore);
            for x in observe_diff(&observe(&ont), &observe(&ont2)) {
                dd.push(format!("differs from the ontology built from the successful calls alone: {x}"));
            }
            dd
        }) {
            Ok(dd) => d.extend(dd),
            Err(p) => d.push(format!("panicked: {p}")),
        }
        if !d.is_empty() {
            d.truncate(10);
            out.push((conc.name.clone(), d));
        }
    }
    out
}

pub fn run(args: &Args) {
    silence_panics();
    let Some(shard) = shard_or_spawn("replay-reject", args) else { return };
    let prop = args.get("prop").unwrap_or("C15").to_string();
    let seed = args.num("seed", 1);
    let mut st = Stats::default();
    let mut n_lines = 0usize;
    // streamed: the thorough configurations emit millions of histories
    let n_all = stream_tlc_lines_sharded(args.req("in"), "REPLAY", shard, |i, l| {
        let l = &l;
        n_lines += 1;
        st.cases += 1;
        let rejected = arr(&l["calls"]).iter().filter(|c| !c["ok"].as_bool().unwrap_or(true)).count();
        if rejected > 0 {
            st.nontrivial += 1;
            st.bump("rejected_calls", rejected as u64);
        }
        guard_case(&mut st, &prop, "replay-reject", l, |st| {
            for (conc, d) in check_line(st, l, seed, None) {
                if st.violations.len() < 8 {
                    st.violations.push(Violation { property: prop.clone(), what: format!("[{conc}] {}", d[0]), replay: json!({"cmd": "replay-reject", "property": prop, "seed": seed, "conc": conc, "line": l, "diffs": d}) });
                }
            }
        });
        if st.samples.is_empty() && rejected >= 2 && i % 53 == 7 {
            st.samples.push(l.clone());
        }
    });
    if n_all == 0 {
        eprintln!("no REPLAY lines");
        std::process::exit(2);
    }
    finish(st, args.req("out"), args.req("replay-dir"), json!({"lines": n_lines}));
}

pub fn replay_one(v: &Value) -> bool {
    silence_panics();
    let mut st = Stats::default();
    let out = check_line(&mut st, &v["line"], v["seed"].as_u64().unwrap_or(1), v["conc"].as_str());
    for (c, d) in &out {
        for l in d {
            println!("reproduced: [{c}] {l}");
        }
    }
    !out.is_empty()
}
