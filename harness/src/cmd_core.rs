//! spec -> impl replay of builder-level behaviours emitted by TLC (MC_Connect, MC_Annot*, Sim_*):
//! every behaviour x concretisation x construction path, projected and compared with the
//! abstract state the specification says must result.
use crate::enc;
use crate::paths::*;
use crate::project::*;
use crate::scenario::*;
use crate::util::*;
use serde_json::{json, Value};
use std::collections::BTreeSet;

pub struct CoreOpts {
    pub prop: String,
    pub seed: u64,
    pub jax_every: u64,
    pub conc_filter: Option<String>,
    /// which concretisation families to use (prefix match): dense, borders, random, roots
    pub concs: Vec<String>,
}

fn check(st: &mut Stats, opts: &CoreOpts, line: &Value, conc: &Concretisation, path: &str, built: &Built, exp: &Expected, focus: &[Focus]) {
    st.evaluations += 1;
    st.bump(&format!("path:{}", path.split('/').next().unwrap_or(path)), 1);
    let diffs = match built {
        Ok(ont) => compare(ont, exp, focus),
        Err(e) => vec![format!("construction failed: {e}")],
    };
    if !diffs.is_empty() && st.violations.len() < 8 {
        st.violations.push(Violation {
            property: opts.prop.clone(),
            what: format!("{path}: {}", diffs[0]),
            replay: json!({"cmd": "replay-core", "property": opts.prop, "seed": opts.seed, "line": line, "conc": conc.to_json(), "path": path, "diffs": diffs}),
        });
    }
}

pub fn replay_line(st: &mut Stats, opts: &CoreOpts, idx: usize, line: &Value) {
    let focus = focus_for(&opts.prop);
    let mut model_ids = u32_list(&line["arena"]);
    model_ids.sort_unstable();
    let lh = fnv(&line.to_string());
    let mut rng = Rng::new(opts.seed ^ lh);
    let concs = if line.get("concrete").and_then(|v| v.as_bool()).unwrap_or(false) {
        vec![Concretisation::identity(&model_ids)]
    } else {
        concretisations(&model_ids, &mut rng, true)
    };
    st.cases += 1;
    let nontrivial = match opts.prop.as_str() {
        "C01" => !arr(&line["edges"]).is_empty(),
        _ => !arr(&line["facts"]).is_empty(),
    };
    if nontrivial {
        st.nontrivial += 1;
    }
    if st.samples.is_empty() && nontrivial && idx % 97 == 0 {
        st.samples.push(line.clone());
    }
    let only_records = arr(&line["facts"]).iter().any(|f| f.get("t").map(|t| t.is_null()).unwrap_or(true));
    for conc in &concs {
        if let Some(f) = &opts.conc_filter {
            if &conc.name != f {
                continue;
            }
        } else if !opts.concs.iter().any(|p| conc.name.starts_with(p.as_str())) {
            continue;
        }
        let (scn, exp) = from_tlc(line, conc);
        // Builder path, three supply orders
        check(st, opts, line, conc, "builder/as-given", &via_builder(&scn, EdgeOrder::AsGiven, false, false), &exp, &focus);
        check(st, opts, line, conc, "builder/reversed+dup", &via_builder(&scn, EdgeOrder::Reversed, true, false), &exp, &focus);
        if scn.edges.len() > 2 {
            check(st, opts, line, conc, "builder/shuffled", &via_builder(&scn, EdgeOrder::Shuffled(rng.next()), false, false), &exp, &focus);
        }
        if has_roots(&scn) {
            let mut expd = exp.clone();
            expd.defaults = true;
            let b = via_builder(&scn, EdgeOrder::AsGiven, false, true);
            check(st, opts, line, conc, "builder/defaults", &b, &expd, &focus);
            if let Ok(ont) = &b {
                let (_, rt) = roundtrip(ont);
                check(st, opts, line, conc, "roundtrip/as_bytes-from_bytes", &rt, &enc::restrict(&expd, 3), &focus);
            }
            // obsolete / replaced terms are reachable only through the binary and text constructors;
            // the flags are metadata and must not influence links, closure or information content
            let mut scn_f = scn.clone();
            let mut exp_f = exp.clone();
            for (i, t) in scn_f.terms.iter_mut().enumerate() {
                if i % 2 == 1 {
                    t.obsolete = true;
                    if i % 4 == 1 {
                        t.repl = Some(1);
                    }
                }
                let e = exp_f.terms.get_mut(&t.id).unwrap();
                e.obsolete = t.obsolete;
                e.repl = t.repl;
            }
            for v in 1..=3u8 {
                let (_, b) = via_binary(&scn, v, None);
                check(st, opts, line, conc, &format!("binary/v{v}"), &b, &enc::restrict(&exp, v), &focus);
                let (_, b) = via_binary(&scn_f, v, Some(rng.next()));
                check(st, opts, line, conc, &format!("binary/v{v}-permuted+flags"), &b, &enc::restrict(&exp_f, v), &focus);
            }
            // a file whose record names a term the file does not define describes no ontology: the loader may refuse it
            // (it does), but it must never hand out an ontology in which an id does not resolve (C02 "every id on either side resolves")
            if opts.prop == "C02" {
                if let Some(f0) = scn.facts.iter().find(|f| f.term.is_some()) {
                    let absent = [4242u32, 5_555_555, 77].into_iter().find(|x| !scn.terms.iter().any(|t| t.id == *x)).unwrap_or(9_000_001);
                    let mut scn_d = scn.clone();
                    scn_d.facts.push(Fact { kind: f0.kind, x: f0.x, name: f0.name.clone(), term: Some(absent) });
                    let bytes = enc::encode(&enc::abstract_of_ordered(&scn_d, false), 3);
                    if let Ok(Ok(ont)) = catch(|| hpo::Ontology::from_bytes(&bytes)) {
                        use hpo::annotations::Disease;
                        let mut bad: Vec<String> = vec![];
                        for g in ont.genes() {
                            bad.extend(g.hpo_terms().iter().filter(|t| ont.hpo(*t).is_none()).map(|t| format!("gene {} lists {t}", g.id())));
                        }
                        for g in ont.omim_diseases() {
                            bad.extend(g.hpo_terms().iter().filter(|t| ont.hpo(*t).is_none()).map(|t| format!("OMIM disease {} lists {t}", g.id())));
                        }
                        for g in ont.orpha_diseases() {
                            bad.extend(g.hpo_terms().iter().filter(|t| ont.hpo(*t).is_none()).map(|t| format!("ORPHA disease {} lists {t}", g.id())));
                        }
                        if !bad.is_empty() && st.violations.len() < 8 {
                            let what = format!("[{}] from_bytes accepted a v3 file in which a record names the undefined term {absent}; the ontology hands out ids that do not resolve: {}", conc.name, bad[0]);
                            st.violations.push(Violation { property: opts.prop.clone(), what: what.clone(), replay: json!({"cmd": "replay-core", "property": opts.prop, "seed": opts.seed, "line": line, "conc": conc.to_json(), "diffs": [what]}) });
                        }
                    }
                }
            }
            if !only_records && opts.jax_every > 0 && (idx as u64) % opts.jax_every == 0 {
                let files = jax_plain(&scn, None);
                check(st, opts, line, conc, "jax/from_standard", &via_jax(&files, false), &expd, &focus);
                let files = jax_plain(&scn_f, Some(rng.next()));
                let mut expfd = exp_f.clone();
                expfd.defaults = true;
                check(st, opts, line, conc, "jax/from_standard_transitive+flags", &via_jax(&files, true), &expfd, &focus);
            }
        }
    }
}

/// Beyond TLC's scope: an ontology of more than 65,535 terms (the width of a u16).  The statement of C01 is size
/// independent - the reported ancestors of a term are exactly the transitive closure of the reported direct parents, the
/// child relation is the inverse of the parent relation, every id resolves - so it is demanded of this ontology as it is.
fn big_closure_case(st: &mut Stats, prop: &str) {
    use hpo::builder::Builder;
    use std::collections::{BTreeMap, BTreeSet};
    st.cases += 1;
    let n = 66_500u32;
    let id_of = |i: u32| 200 + i * 7;
    let r = catch(|| -> Result<Vec<String>, String> {
        let mut b = Builder::new();
        b.new_term("root", 1u32);
        for i in 0..n {
            b.new_term(&format!("T{i}"), id_of(i));
        }
        let mut b = b.terms_complete();
        let mut parents: BTreeMap<u32, BTreeSet<u32>> = BTreeMap::new();
        for i in 0..n {
            // groups of 50: the head below the root and below the previous head, members below their head and their predecessor
            let head = i - i % 50;
            let ps: Vec<u32> = if i == head { if head == 0 { vec![1] } else { vec![1, id_of(head - 50)] } } else { vec![id_of(head), id_of(i - 1)] };
            for p in ps {
                b.add_parent(p, id_of(i)).map_err(|e| format!("add_parent({p}, {}) failed: {e}", id_of(i)))?;
                parents.entry(id_of(i)).or_default().insert(p);
            }
        }
        let ont = b.connect_all_terms().calculate_information_content().map_err(|e| e.to_string())?.build_minimal();
        let mut d = vec![];
        if ont.len() != n as usize + 1 {
            d.push(format!("len() = {} for {} added terms", ont.len(), n + 1));
        }
        // closure over the REPORTED direct parents, memoised in group order
        let mut closure: BTreeMap<u32, BTreeSet<u32>> = BTreeMap::new();
        closure.insert(1, BTreeSet::new());
        for i in 0..n {
            let id = id_of(i);
            let Some(t) = ont.hpo(id) else {
                d.push(format!("hpo({id}) returns None although the term was added (insertion #{})", i + 2));
                break;
            };
            let rep: BTreeSet<u32> = t.parent_ids().iter().map(|x| hpo::annotations::AnnotationId::as_u32(&x)).collect();
            if Some(&rep) != parents.get(&id) {
                d.push(format!("term {id}: parent_ids {:?}, it was linked to {:?}", rep, parents.get(&id)));
                break;
            }
            let mut want = rep.clone();
            for p in &rep {
                match closure.get(p) {
                    Some(c) => want.extend(c.iter().copied()),
                    None => d.push(format!("term {id}: parent {p} was not seen before")),
                }
            }
            let got: BTreeSet<u32> = t.all_parent_ids().iter().map(|x| hpo::annotations::AnnotationId::as_u32(&x)).collect();
            if got != want {
                d.push(format!("term {id} (insertion #{}): all_parent_ids has {} ids, the transitive closure of its direct parents has {} (first difference {:?})", i + 2, got.len(), want.len(), got.symmetric_difference(&want).next()));
                break;
            }
            // every id resolves, and the child relation is the inverse
            for p in &rep {
                match ont.hpo(*p) {
                    Some(pt) if pt.children_ids().contains(&id.into()) => {}
                    Some(_) => {
                        d.push(format!("term {p} does not list its child {id}"));
                    }
                    None => d.push(format!("parent {p} of term {id} does not resolve")),
                }
            }
            if d.len() > 4 {
                break;
            }
            // keep memory bounded: only heads are needed later
            if i % 50 == 49 {
                let head = id_of(i - 49);
                let keep = want.clone();
                closure.retain(|k, _| *k == 1 || *k == head);
                let _ = keep;
            }
            closure.insert(id, want);
        }
        Ok(d)
    });
    st.evaluations += n as u64;
    let d = match r {
        Ok(Ok(d)) => d,
        Ok(Err(e)) => vec![format!("an ontology of {} terms cannot be built: {e}", n + 1)],
        Err(p) => vec![format!("an ontology of {} terms: panic {p}", n + 1)],
    };
    if !d.is_empty() {
        st.violations.push(Violation { property: prop.into(), what: d[0].clone(), replay: json!({"cmd": "replay-core", "property": prop, "big_closure": true, "diffs": d}) });
    }
}

/// Beyond TLC's scope: a record universe crossing the u16 limit of the crate's count conversion.
/// The crate may refuse to build such an ontology (its documented error) - but if it builds one,
/// the information content must still be -ln(n/N).
fn big_ic_case(st: &mut Stats, prop: &str) {
    use hpo::annotations::{GeneId, OmimDiseaseId};
    use hpo::builder::Builder;
    use hpo::HpoTermId;
    st.cases += 1;
    let (n_all, n_child) = (70_000u32, 66_000u32);
    let r = catch(|| {
        let mut b = Builder::new();
        b.new_term("root", 1u32);
        b.new_term("child", 2u32);
        b.new_term("other", 3u32);
        let mut b = b.terms_complete();
        b.add_parent(1u32, 2u32).unwrap();
        b.add_parent(1u32, 3u32).unwrap();
        let mut b = b.connect_all_terms();
        for x in 0..n_all {
            let t = if x < n_child { 2u32 } else { 3u32 };
            b.annotate_gene(GeneId::from(x + 1), "g", HpoTermId::from(t)).unwrap();
        }
        b.annotate_omim_disease(OmimDiseaseId::from(1), "o", HpoTermId::from(2u32)).unwrap();
        b.add_omim_disease("o2", OmimDiseaseId::from(2));
        b.calculate_information_content().map(|x| x.build_minimal())
    });
    let mut d = vec![];
    match r {
        Ok(Ok(ont)) => {
            for (t, n) in [(1u32, n_all), (2, n_child), (3, n_all - n_child)] {
                st.evaluations += 1;
                let got = ont.hpo(t).unwrap().information_content().gene();
                let want = ic_expected(n as usize, n_all as usize);
                if !close_f32(got, want, 1e-4, 1e-6) {
                    d.push(format!("ontology with {n_all} genes: term {t} gene IC = {got}, expected -ln({n}/{n_all}) = {want}"));
                }
            }
            let got = ont.hpo(2u32).unwrap().information_content().omim_disease();
            if !close_f32(got, ic_expected(1, 2), 1e-5, 1e-6) {
                d.push(format!("ontology with {n_all} genes: term 2 OMIM IC = {got}, expected ln 2"));
            }
        }
        Ok(Err(_)) => st.bump("big_universe_refused_by_crate", 1),
        Err(p) => d.push(format!("building an ontology with {n_all} genes panicked: {p}")),
    }
    if !d.is_empty() {
        st.violations.push(Violation { property: prop.to_string(), what: d[0].clone(), replay: json!({"cmd": "replay-core", "property": prop, "big": true, "diffs": d}) });
    }
}

pub fn run(args: &Args) {
    silence_panics();
    let Some(shard) = shard_or_spawn("replay-core", args) else { return };
    let t = Timer::start();
    let opts = CoreOpts {
        prop: args.req("prop").to_string(),
        seed: args.num("seed", 1),
        jax_every: args.num("jax-every", 1),
        conc_filter: None,
        concs: args.get("concs").unwrap_or("dense,borders,random,roots,identity").split(',').map(|s| s.to_string()).collect(),
    };
    let (n_all, lines) = read_tlc_lines_sharded(args.req("in"), "REPLAY", shard);
    if n_all == 0 {
        eprintln!("no REPLAY lines in {}", args.req("in"));
        std::process::exit(2);
    }
    let distinct: BTreeSet<u64> = lines.iter().map(|l| fnv(&l.to_string())).collect();
    let prop = opts.prop.clone();
    let rd = args.req("replay-dir").to_string();
    let lines = std::sync::Arc::new(lines);       // shared with the watchdog, not copied
    let lines_for_hang = lines.clone();
    let seed = opts.seed;
    let stats = run_parallel(
        &lines[..],
        args.num("threads", 1) as usize,
        60,
        move |i| {
            let replay = json!({"cmd": "replay-core", "property": prop, "seed": seed, "line": lines_for_hang[i], "diffs": ["hang: case did not finish within 60 s"]});
            let name = format!("{}/{}-hang-{:016x}.json", rd, prop, fnv(&replay.to_string()));
            std::fs::create_dir_all(&rd).ok();
            std::fs::write(&name, serde_json::to_string_pretty(&replay).unwrap()).ok();
            println!("VIOLATION property={prop} replay={name}");
        },
        |i, line, st| guard_case(st, &opts.prop.clone(), "replay-core", line, |st| replay_line(st, &opts, i, line)),
    );
    let mut stats = stats;
    if shard.0 == 0 && opts.prop == "C03" {
        big_ic_case(&mut stats, "C03");
    }
    if shard.0 == shard.1 / 2 && opts.prop == "C01" {
        big_closure_case(&mut stats, "C01");
    }
    let extra = json!({"lines": lines.len(), "distinct_lines": distinct.len(), "shard_wall_s_max": t.secs()});
    finish(stats, args.req("out"), args.req("replay-dir"), extra);
}

/// Re-run a single recorded violation.
pub fn replay_one(v: &Value) -> bool {
    silence_panics();
    let opts = CoreOpts {
        prop: v["property"].as_str().unwrap_or("C01").to_string(),
        seed: v["seed"].as_u64().unwrap_or(1),
        jax_every: 1,
        conc_filter: v.get("conc").map(|c| Concretisation::from_json(c).name),
        concs: vec![],
    };
    let mut st = Stats::default();
    if v.get("big_closure").is_some() {
        big_closure_case(&mut st, "C01");
    } else if v.get("big").is_some() {
        big_ic_case(&mut st, "C03");
    } else {
        guard_case(&mut st, &opts.prop.clone(), "replay-core", &v["line"], |st| replay_line(st, &opts, 0, &v["line"]));
    }
    for x in &st.violations {
        println!("reproduced: {}", x.what);
        if let Some(d) = x.replay["diffs"].as_array() {
            for l in d {
                println!("   {}", l.as_str().unwrap_or(""));
            }
        }
    }
    !st.violations.is_empty()
}
