fn main() { println!("hv"); }
