//! hv: conformance harness binding the TLA+ specification in /verif/spec to the hpo crate.
mod cmd_core;
mod cmd_sim;
mod cmd_set;
mod cmd_enrich;
mod cmd_binary;
mod cmd_jax;
mod cmd_jaxrec;
mod cmd_lookup;
mod cmd_record;
mod cmd_compare;
mod cmd_linkage;
mod cmd_setmeta;
mod cmd_setmachine;
mod cmd_export;
mod cmd_ontmachine;
mod cmd_group;
mod cmd_termid;
mod cmd_cats;
mod cmd_reject;
mod cmd_order;
mod cmd_sub;
#[cfg(hpo_verif)]
mod cmd_algo;
mod enc;
mod paths;
mod project;
mod scenario;
mod util;

use util::Args;

fn main() {
    let argv: Vec<String> = std::env::args().collect();
    if argv.len() < 2 {
        eprintln!("usage: hv <command> [--key value ...]");
        std::process::exit(2);
    }
    let args = Args::parse(&argv[2..]);
    match argv[1].as_str() {
        "replay-core" => cmd_core::run(&args),
        "replay-sim" => cmd_sim::run(&args),
        "replay-set" => cmd_set::run(&args),
        "replay-enrich" => cmd_enrich::run(&args),
        "replay-binary" => cmd_binary::run(&args),
        "replay-jax" => cmd_jax::run(&args),
        "replay-lookup" => cmd_lookup::run(&args),
        "record" => cmd_record::run(&args),
        "replay-compare" => cmd_compare::run(&args),
        "record-jax" => cmd_jaxrec::run(&args),
        "record-group" => cmd_group::record(&args),
        "replay-linkage" => cmd_linkage::run(&args),
        "record-linkage" => cmd_linkage::record(&args),
        "replay-setmeta" => cmd_setmeta::run(&args),
        "replay-setmachine" => cmd_setmachine::run(&args),
        "replay-export" => cmd_export::run(&args),
        "replay-ontmachine" => cmd_ontmachine::run(&args),
        "replay-group" => cmd_group::run(&args),
        "replay-termid" => cmd_termid::run(&args),
        "replay-cats" => cmd_cats::run(&args),
        "replay-reject" => cmd_reject::run(&args),
        "replay-order" => cmd_order::run(&args),
        "replay-sub" => cmd_sub::run(&args),
        #[cfg(hpo_verif)]
        "record-algo" => cmd_algo::run(&args),
        "debug-mismatch" => cmd_binary::debug_mismatch(&args),
        "replay-one" => {
            let text = std::fs::read_to_string(args.req("file")).unwrap_or_else(|e| {
                eprintln!("cannot read replay file: {e}");
                std::process::exit(2)
            });
            let v: serde_json::Value = serde_json::from_str(&text).unwrap_or_else(|e| {
                eprintln!("bad replay file: {e}");
                std::process::exit(2)
            });
            let reproduced = match v["cmd"].as_str().unwrap_or("") {
                "replay-core" => cmd_core::replay_one(&v),
                "replay-sim" => cmd_sim::replay_one(&v),
                "replay-set" => cmd_set::replay_one(&v),
                "replay-enrich" => cmd_enrich::replay_one(&v),
                "replay-binary" => cmd_binary::replay_one(&v),
                "replay-jax" => cmd_jax::replay_one(&v),
                "replay-lookup" => cmd_lookup::replay_one(&v),
                "replay-group" => cmd_group::replay_one(&v),
                "replay-termid" => cmd_termid::replay_one(&v),
                "replay-cats" => cmd_cats::replay_one(&v),
                "replay-reject" => cmd_reject::replay_one(&v),
                "replay-order" => cmd_order::replay_one(&v),
                "replay-sub" => cmd_sub::replay_one(&v),
                "replay-compare" => cmd_compare::replay_one(&v),
                "record-jax" => cmd_jaxrec::replay_one(&v),
                "replay-linkage" => cmd_linkage::replay_one(&v),
                "replay-setmeta" => cmd_setmeta::replay_one(&v),
                "replay-setmachine" => cmd_setmachine::replay_one(&v),
                "replay-export" => cmd_export::replay_one(&v),
                "replay-ontmachine" => cmd_ontmachine::replay_one(&v),
                other => {
                    eprintln!("unknown replay cmd {other}");
                    std::process::exit(2)
                }
            };
            if reproduced {
                println!("VIOLATION property={} replay={}", v["property"].as_str().unwrap_or("?"), args.req("file"));
                std::process::exit(1);
            }
            println!("not reproduced on the current tree");
        }
        other => {
            eprintln!("unknown command {other}");
            std::process::exit(2);
        }
    }
}
