//! C16: order independence (spec/mc/MC_Order.tla).  TLC fixes a fact set and supplies terms, links
//! and annotation facts to the Builder machine in every possible order; each REPLAY line is one
//! order with the order-free projection.  The harness issues the calls in exactly that order, in
//! the canonical and in the reversed order, writes binary files and text files whose records /
//! stanzas / rows follow those orders (and random permutations), and requires every resulting
//! ontology to be observationally identical and equal to the specification's projection.
//! Beyond TLC's sizes: random fact sets with 40-90 terms under random permutations, compared
//! pairwise (the property is a metamorphic relation).
use crate::enc;
use crate::paths::*;
use crate::project::*;
use crate::scenario::*;
use crate::util::*;
use serde_json::{json, Value};

fn one_name_per_id(s: &mut Scenario) {
    for f in s.facts.iter_mut() {
        f.name = format!("{}{}#{}", f.kind.name(), f.x, f.x);
    }
}

/// the expectation that goes with `one_name_per_id`: a record's name is the one name every fact about it carries
fn one_name_per_id_exp(e: &mut Expected) {
    for (k, kind) in KINDS.iter().enumerate() {
        for (x, r) in e.recs[k].iter_mut() {
            r.name = format!("{}{}#{}", kind.name(), x, x);
        }
    }
}

fn permuted(s: &Scenario, rng: &mut Rng) -> Scenario {
    let mut p = s.clone();
    rng.shuffle(&mut p.terms);
    rng.shuffle(&mut p.edges);
    rng.shuffle(&mut p.facts);
    p
}

fn reversed(s: &Scenario) -> Scenario {
    let mut p = s.clone();
    p.terms.reverse();
    p.edges.reverse();
    p.facts.reverse();
    p
}

fn canonical(s: &Scenario) -> Scenario {
    let mut p = s.clone();
    p.terms.sort_by_key(|t| t.id);
    p.edges.sort_unstable();
    p.facts.sort_by_key(|f| (f.kind, f.x, f.term));
    p
}

/// All construction paths fed with the scenario's own order.
fn build_all(s: &Scenario, tag: &str, jax: bool, full: bool, rng: &mut Rng) -> Vec<(String, Built)> {
    let mut out = vec![(format!("builder/{tag}"), via_builder(s, EdgeOrder::AsGiven, false, false))];
    if has_roots(s) {
        let bytes = enc::encode(&enc::abstract_of_ordered(s, false), 3);
        out.push((format!("binary-v3/{tag}"), from_bytes(&bytes)));
        if full {
            out.push((format!("builder-defaults/{tag}"), via_builder(s, EdgeOrder::AsGiven, false, true)));
            out.push((format!("binary-v3-permuted/{tag}"), via_binary(s, 3, Some(rng.next())).1));
            out.push((format!("binary-v2-permuted/{tag}"), via_binary(s, 2, Some(rng.next())).1));
        }
        if jax {
            out.push((format!("jax/{tag}"), via_jax(&jax_plain(s, None), false)));
            out.push((format!("jax-shuffled-stanzas/{tag}"), via_jax(&jax_plain(s, Some(rng.next())), true)));
        }
    }
    out
}

/// Compare a family of ontologies built from the same facts: all must be observationally equal
/// (v2 files cannot carry ORPHA diseases, builder-minimal ontologies have no default categories:
/// compared within their own class).
fn pairwise(all: &[(String, Built)], d: &mut Vec<String>) {
    let class = |n: &str| -> u8 {
        if n.starts_with("builder/") {
            0
        } else if n.starts_with("binary-v2") {
            2
        } else {
            1
        }
    };
    // the classification of the terms (categories, modifier) is part of what the read API shows; ontologies built with
    // the documented defaults must agree on it, too
    let classify = |ont: &hpo::Ontology| -> Vec<(u32, Vec<u32>, bool)> {
        use hpo::annotations::AnnotationId;
        let mut v: Vec<(u32, Vec<u32>, bool)> = ont.iter().map(|t| (t.id().as_u32(), t.categories().iter().map(|c| c.as_u32()).collect(), t.is_modifier())).collect();
        v.push((u32::MAX, ont.categories().iter().map(|c| c.as_u32()).collect(), false));
        v.push((u32::MAX - 1, ont.modifier().iter().map(|c| c.as_u32()).collect(), false));
        v.sort();
        v
    };
    let mut first_class: std::collections::BTreeMap<bool, (String, Vec<(u32, Vec<u32>, bool)>)> = Default::default();
    for (name, b) in all {
        if let Ok(ont) = b {
            if let Ok(c) = catch(|| classify(ont)) {
                // ontologies with defaults (builder-defaults, binary, text) form one group, minimal builds another
                let with_defaults = !name.starts_with("builder/");
                match first_class.get(&with_defaults) {
                    None => {
                        first_class.insert(with_defaults, (name.clone(), c));
                    }
                    Some((n0, c0)) => {
                        if let Some((a, b2)) = c0.iter().zip(c.iter()).find(|(a, b2)| a != b2) {
                            d.push(format!("{n0} and {name} were built from the same facts but classify terms differently: {:?} vs {:?} (id, categories, is_modifier; id 4294967295 = Ontology::categories(), 4294967294 = Ontology::modifier())", a, b2));
                        }
                    }
                }
            }
        }
    }
    let mut first: [Option<(String, Expected)>; 3] = [None, None, None];
    for (name, b) in all {
        match b {
            Err(e) => d.push(format!("{name}: construction failed: {e}")),
            Ok(ont) => {
                let o = match catch(|| observe(ont)) {
                    Ok(o) => o,
                    Err(p) => {
                        d.push(format!("{name}: reading the ontology panicked: {p}"));
                        continue;
                    }
                };
                let c = class(name) as usize;
                match &first[c] {
                    None => first[c] = Some((name.clone(), o)),
                    Some((n0, o0)) => {
                        for x in observe_diff(o0, &o) {
                            d.push(format!("{n0} and {name} were built from the same facts but differ: {x}"));
                        }
                    }
                }
            }
        }
    }
}

pub fn check_line(st: &mut Stats, line: &Value, seed: u64, conc_filter: Option<&str>, jax: bool, all_concs: bool) -> Vec<(String, Vec<String>)> {
    let calls = arr(&line["calls"]);
    let terms: Vec<u32> = calls.iter().filter(|c| c["op"] == "new_term").map(|c| as_u32(&c["a"])).collect();
    let edges: Vec<Value> = calls.iter().filter(|c| c["op"] == "add_parent").map(|c| json!([c["a"], c["b"]])).collect();
    let facts: Vec<Value> = calls.iter().filter(|c| c["op"] == "annotate").map(|c| json!({"k": c["c"], "x": c["a"], "t": c["b"]})).collect();
    let synth = json!({"arena": terms, "edges": edges, "facts": facts, "expect": line["expect"]});
    let mut ids = terms.clone();
    ids.sort_unstable();
    let mut rng = Rng::new(seed ^ fnv(&line.to_string()));
    let mut out = vec![];
    let concs = concretisations(&ids, &mut rng, true);
    let nroots = concs.iter().filter(|c| c.name.starts_with("roots")).count().max(1);
    let pick = (fnv(&line.to_string()) % nroots as u64) as usize;
    let mut iroot = 0;
    for conc in concs {
        let is_root = conc.name.starts_with("roots");
        if is_root {
            iroot += 1;
        }
        if let Some(f) = conc_filter {
            if conc.name != f {
                continue;
            }
        } else if !all_concs && !(conc.name == "dense" || (is_root && iroot - 1 == pick)) {
            continue;
        } else if all_concs && !(conc.name == "dense" || conc.name == "random" || is_root) {
            continue;
        }
        let (mut scn, mut exp) = from_tlc(&synth, &conc);
        one_name_per_id(&mut scn);
        one_name_per_id_exp(&mut exp);
        exp.order = None;
        let mut d: Vec<String> = vec![];
        let mut all = build_all(&scn, "call-order", jax, true, &mut rng);
        all.extend(build_all(&canonical(&scn), "canonical", false, false, &mut rng));
        all.extend(build_all(&reversed(&scn), "reversed", jax, false, &mut rng));
        st.evaluations += all.len() as u64;
        // the first of every class against the specification, the rest against the first
        for (name, b) in all.iter() {
            if !name.ends_with("/call-order") {
                continue;
            }
            if let Ok(ont) = b {
                let e = if name.starts_with("builder/") {
                    exp.clone()
                } else {
                    let mut e = exp.clone();
                    e.defaults = true;
                    enc::restrict(&e, if name.starts_with("binary-v2") { 2 } else { 3 })
                };
                for x in compare(ont, &e, &[Focus::Struct, Focus::Ann, Focus::Ic, Focus::Meta]) {
                    d.push(format!("{name}: {x}"));
                }
            }
        }
        pairwise(&all, &mut d);
        if !d.is_empty() {
            d.truncate(10);
            out.push((conc.name.clone(), d));
        }
    }
    out
}

/// A random fact set beyond TLC's sizes, built under several permutations.
pub fn big_case(seed: u64, jax: bool) -> Vec<String> {
    let mut rng = Rng::new(seed);
    // every third fact set is DEEP: a backbone chain through all terms (is_a paths of 150-260 links, far beyond the
    // depth of any shipped ontology), so that a term may be supplied long before the ancestors it has to be connected to
    let deep = seed % 3 == 2;
    let n = if deep { rng.range(150, 260) as usize } else { rng.range(40, 90) as usize };
    let mut ids: Vec<u32> = vec![1, 118];
    while ids.len() < n {
        let x = if rng.chance(1, 2) { rng.range(2, 400) as u32 } else { rng.range(119, MAX_ID as u64) as u32 };
        if !ids.contains(&x) {
            ids.push(x);
        }
    }
    // hidden topological order: 1 first, 118 second
    let mut scn = Scenario::default();
    scn.version = (2024, 3, 6);
    for (i, id) in ids.iter().enumerate() {
        scn.terms.push(TermSpec { id: *id, name: format!("T{id}"), obsolete: i % 7 == 5, repl: if i % 14 == 5 { Some(ids[i / 2]) } else { None } });
        if i == 0 {
            continue;
        }
        let k = 1 + rng.below(3) as usize;
        let mut ps = std::collections::BTreeSet::new();
        for _ in 0..k {
            // deep sets: extra parents only from the last few terms (a far parent would be connected first and
            // shorten the recursion to the uncached part of the backbone)
            ps.insert(ids[if deep { i - 1 - rng.below(4.min(i as u64)) as usize } else { rng.below(i as u64) as usize }]);
        }
        if deep {
            ps.insert(ids[i - 1]);
        }
        if !deep && i > 30 && rng.chance(1, 6) {
            for j in 0..14 {
                ps.insert(ids[i - 1 - j]);
            }
        }
        for p in ps {
            scn.edges.push((p, *id));
        }
    }
    // a few terms without any link (as obsolete terms are in real data): nothing but HP:1 is "the root"
    for j in 0..3u32 {
        let id = 9_000_000 + j * 17 + (seed % 13) as u32;
        if !ids.contains(&id) {
            ids.push(id);
            scn.terms.push(TermSpec { id, name: format!("T{id}"), obsolete: true, repl: None });
        }
    }
    for _ in 0..rng.range(30, 120) {
        let kind = KINDS[rng.below(3) as usize];
        let x = rng.range(1, 12) as u32;
        let t = *rng.pick(&ids);
        if !scn.facts.iter().any(|f| f.kind == kind && f.x == x && f.term == Some(t)) {
            scn.facts.push(Fact { kind, x, name: String::new(), term: Some(t) });
        }
        // now and then the OMIM and the ORPHA disease with the SAME number on the same term, supplied one after the other
        // (rows of phenotype.hpoa that differ in the database prefix only)
        if rng.chance(1, 6) {
            for kind in [Kind::Omim, Kind::Orpha] {
                if !scn.facts.iter().any(|f| f.kind == kind && f.x == x && f.term == Some(t)) {
                    scn.facts.push(Fact { kind, x, name: String::new(), term: Some(t) });
                }
            }
        }
    }
    one_name_per_id(&mut scn);
    let mut all = vec![];
    // the builder API cannot set the obsolete flags: compare the builder family without them
    let mut plain = scn.clone();
    for t in plain.terms.iter_mut() {
        t.obsolete = false;
        t.repl = None;
    }
    let mut d = vec![];
    for i in 0..4 {
        let p = if i == 0 { plain.clone() } else if i == 1 { reversed(&plain) } else { permuted(&plain, &mut rng) };
        all.push((format!("builder/perm{i}"), via_builder(&p, EdgeOrder::AsGiven, false, false)));
        all.push((format!("builder-defaults/perm{i}"), via_builder(&p, EdgeOrder::AsGiven, false, true)));
        let bytes = enc::encode(&enc::abstract_of_ordered(&p, false), 3);
        all.push((format!("binary-v3/perm{i}"), from_bytes(&bytes)));
        all.push((format!("binary-v2-permuted/perm{i}"), via_binary(&p, 2, Some(rng.next())).1));
        if jax && i < 2 {
            all.push((format!("jax/perm{i}"), via_jax(&jax_plain(&p, Some(rng.next())), i == 1)));
        }
    }
    pairwise(&all, &mut d);
    // with obsolete / replacement flags: binary and text files only
    let mut flagged = vec![];
    for i in 0..3 {
        let p = if i == 0 { scn.clone() } else if i == 1 { reversed(&scn) } else { permuted(&scn, &mut rng) };
        let bytes = enc::encode(&enc::abstract_of_ordered(&p, false), 3);
        flagged.push((format!("flags-binary-v3/perm{i}"), from_bytes(&bytes)));
        flagged.push((format!("flags-binary-v3-permuted/perm{i}"), via_binary(&p, 3, Some(rng.next())).1));
        if jax && i < 2 {
            flagged.push((format!("flags-jax/perm{i}"), via_jax(&jax_plain(&p, Some(rng.next())), false)));
        }
    }
    pairwise(&flagged, &mut d);
    d.truncate(10);
    d
}

/// One fact set with more than 65,535 terms (the width of a u16) under two supply orders, through the Builder.
pub fn huge_case(seed: u64) -> Vec<String> {
    let mut rng = Rng::new(seed ^ 0xC16);
    let n = 66_000 + rng.below(3_000) as usize;
    let mut scn = Scenario::default();
    scn.version = (2024, 3, 7);
    scn.terms.push(TermSpec { id: 1, name: "T1".into(), obsolete: false, repl: None });
    scn.terms.push(TermSpec { id: 118, name: "T118".into(), obsolete: false, repl: None });
    scn.edges.push((1, 118));
    for i in 0..n as u32 {
        let id = 200 + i * 3;
        scn.terms.push(TermSpec { id, name: format!("T{id}"), obsolete: false, repl: None });
        // groups of 100: the first of a group below 118, the others below the first
        scn.edges.push((if i % 100 == 0 { 118 } else { 200 + (i - i % 100) * 3 }, id));
    }
    for _ in 0..60 {
        let kind = KINDS[rng.below(3) as usize];
        let t = scn.terms[rng.below(scn.terms.len() as u64) as usize].id;
        scn.facts.push(Fact { kind, x: rng.range(1, 9) as u32, name: String::new(), term: Some(t) });
    }
    one_name_per_id(&mut scn);
    let all = vec![("builder/huge-as-given".to_string(), via_builder(&scn, EdgeOrder::AsGiven, false, false)),
                   ("builder/huge-reversed".to_string(), via_builder(&reversed(&scn), EdgeOrder::AsGiven, false, false))];
    let mut d = vec![];
    for (name, b) in &all {
        if let Ok(o) = b {
            if o.len() != scn.terms.len() {
                d.push(format!("{name}: len() = {} for {} supplied terms", o.len(), scn.terms.len()));
            }
        }
    }
    pairwise(&all, &mut d);
    d.truncate(6);
    d
}

pub fn run(args: &Args) {
    silence_panics();
    let Some(shard) = shard_or_spawn("replay-order", args) else { return };
    let prop = args.get("prop").unwrap_or("C16").to_string();
    let seed = args.num("seed", 1);
    let jax_every = args.num("jax-every", 9);
    let big = args.num("big", 0);
    let stride = args.num("stride", 1).max(1);
    let all_concs = args.num("all-concs", 0) > 0;
    let (n_all, lines) = read_tlc_lines_sharded(args.req("in"), "REPLAY", shard);
    if n_all == 0 {
        eprintln!("no REPLAY lines");
        std::process::exit(2);
    }
    let mut st = Stats::default();
    for (i, l) in lines.iter().enumerate() {
        if (i as u64) % stride != 0 {
            continue;
        }
        st.cases += 1;
        let nontrivial = arr(&l["calls"]).iter().filter(|c| c["op"] == "add_parent" || c["op"] == "annotate").count() >= 2;
        if nontrivial {
            st.nontrivial += 1;
        }
        let jax = jax_every > 0 && (i as u64) % jax_every == 0;
        guard_case(&mut st, &prop, "replay-order", l, |st| {
            for (conc, d) in check_line(st, l, seed, None, jax, all_concs) {
                if st.violations.len() < 8 {
                    st.violations.push(Violation { property: prop.clone(), what: format!("[{conc}] {}", d[0]), replay: json!({"cmd": "replay-order", "property": prop, "seed": seed, "conc": conc, "jax": jax, "all_concs": all_concs, "line": l, "diffs": d}) });
                }
            }
        });
        if st.samples.is_empty() && nontrivial && i % 101 == 3 {
            st.samples.push(l.clone());
        }
    }
    // the big cases are spread over the shards
    let (k, n) = shard;
    if big > 0 && k == n / 2 {
        st.cases += 1;
        st.nontrivial += 1;
        st.bump("huge_fact_sets", 1);
        let l = json!({"huge": seed});
        guard_case(&mut st, &prop, "replay-order", &l, |st| {
            let d = huge_case(seed);
            st.evaluations += 2;
            if !d.is_empty() {
                st.violations.push(Violation { property: prop.clone(), what: d[0].clone(), replay: json!({"cmd": "replay-order", "property": prop, "huge": seed, "line": l, "diffs": d}) });
            }
        });
    }
    for b in 0..big {
        if b % n.max(1) as u64 != k as u64 {
            continue;
        }
        st.cases += 1;
        st.nontrivial += 1;
        st.bump("big_fact_sets", 1);
        let bseed = seed.wrapping_mul(7919).wrapping_add(b);
        let l = json!({"big": bseed});
        guard_case(&mut st, &prop, "replay-order", &l, |st| {
            let d = big_case(bseed, true);
            st.evaluations += 30;
            if !d.is_empty() && st.violations.len() < 8 {
                st.violations.push(Violation { property: prop.clone(), what: d[0].clone(), replay: json!({"cmd": "replay-order", "property": prop, "big": bseed, "line": l, "diffs": d}) });
            }
        });
    }
    finish(st, args.req("out"), args.req("replay-dir"), json!({"lines": lines.len()}));
}

pub fn replay_one(v: &Value) -> bool {
    silence_panics();
    if let Some(h) = v.get("huge").and_then(|b| b.as_u64()) {
        let d = huge_case(h);
        for l in &d {
            println!("reproduced: {l}");
        }
        return !d.is_empty();
    }
    if let Some(b) = v.get("big").and_then(|b| b.as_u64()) {
        let d = big_case(b, true);
        for l in &d {
            println!("reproduced: {l}");
        }
        return !d.is_empty();
    }
    let mut st = Stats::default();
    let out = check_line(&mut st, &v["line"], v["seed"].as_u64().unwrap_or(1), v["conc"].as_str(), v["jax"].as_bool().unwrap_or(true), v["all_concs"].as_bool().unwrap_or(true));
    for (c, d) in &out {
        for l in d {
            println!("reproduced: [{c}] {l}");
        }
    }
    !out.is_empty()
}
