//! The built Ontology as an object whose modifier / category roots change (spec/HpoOntMachine.tla): one
//! ontology lives through a history of set_default_* / *_mut operations; after every step every term and
//! every set of terms must be classified by the CURRENT roots.
use crate::util::*;
use hpo::annotations::AnnotationId;
use hpo::builder::Builder;
use hpo::term::HpoGroup;
use hpo::{HpoSet, Ontology};
use serde_json::{json, Value};
use std::collections::BTreeMap;

fn build(line: &Value) -> Ontology {
    let ids = u32_list(&line["terms"]);
    let mut b = Builder::new();
    for id in &ids {
        b.new_term(&format!("T{id}"), *id);
    }
    let mut b = b.terms_complete();
    for (i, ps) in arr(&line["parents"]).iter().enumerate() {
        for p in u32_list(ps) {
            b.add_parent(p, ids[i]).expect("terms exist");
        }
    }
    b.connect_all_terms().calculate_information_content().expect("ic").build_minimal()
}

fn observe(ont: &Ontology, obs: &Value, at: &str, d: &mut Vec<String>) {
    let ids = |g: &HpoGroup| -> Vec<u32> { g.iter().map(|x| x.as_u32()).collect() };
    if ids(ont.modifier()) != u32_list(&obs["modifier"]) {
        d.push(format!("{at}: modifier() = {:?}, expected {}", ids(ont.modifier()), obs["modifier"]));
    }
    if ids(ont.categories()) != u32_list(&obs["categories"]) {
        d.push(format!("{at}: categories() = {:?}, expected {}", ids(ont.categories()), obs["categories"]));
    }
    for t in arr(&obs["terms"]) {
        let id = as_u32(&t["id"]);
        let term = ont.hpo(id).expect("term of the world");
        let cats: Vec<u32> = term.categories().iter().map(|x| x.as_u32()).collect();
        if cats != u32_list(&t["categories"]) {
            d.push(format!("{at}: term {id}: categories() = {:?}, expected (ascending) {}", cats, t["categories"]));
        }
        if term.is_modifier() != t["is_modifier"].as_bool().unwrap() {
            d.push(format!("{at}: term {id}: is_modifier() = {}, expected {}", term.is_modifier(), t["is_modifier"]));
        }
    }
    for s in arr(&obs["sets"]) {
        let members = u32_list(&s["set"]);
        let mk = || {
            let mut g = HpoGroup::new();
            for id in &members {
                g.insert(*id);
            }
            HpoSet::new(ont, g)
        };
        let want = u32_list(&s["without_modifier"]);
        let got: Vec<u32> = mk().without_modifier().iter().map(|t| t.id().as_u32()).collect();
        let mut inplace = mk();
        inplace.remove_modifier();
        let got2: Vec<u32> = inplace.iter().map(|t| t.id().as_u32()).collect();
        if got != want || got2 != want {
            d.push(format!("{at}: without_modifier({:?}) = {:?}, remove_modifier gives {:?}, expected {:?}", members, got, got2, want));
        }
        let want: BTreeMap<u32, usize> = arr(&s["categories"]).iter().map(|p| (as_u32(&p[0]), p[1].as_u64().unwrap() as usize)).collect();
        let got: BTreeMap<u32, usize> = mk().categories().into_iter().map(|(k, v)| (k.as_u32(), v)).collect();
        if got != want {
            d.push(format!("{at}: HpoSet::categories({:?}) = {:?}, expected {:?}", members, got, want));
        }
        if d.len() > 6 {
            return;
        }
    }
}

pub fn replay_history(st: &mut Stats, line: &Value) -> Vec<String> {
    let mut d = vec![];
    let mut ont = build(line);
    observe(&ont, &line["initial"], "after build_minimal", &mut d);
    let mut trail = String::from("build_minimal");
    for step in arr(&line["steps"]) {
        st.evaluations += 1;
        let op = step["op"].as_str().unwrap();
        let arg = as_u32(&step["arg"]);
        match op {
            "set_default_modifier" => ont.set_default_modifier().expect("roots exist"),
            "set_default_categories" => ont.set_default_categories().expect("roots exist"),
            "insert_modifier" => {
                ont.modifier_mut().insert(arg);
            }
            "insert_category" => {
                ont.categories_mut().insert(arg);
            }
            "clear_modifier" => *ont.modifier_mut() = HpoGroup::new(),
            other => panic!("unknown operation {other}"),
        }
        trail = if arg > 0 { format!("{trail}; {op}({arg})") } else { format!("{trail}; {op}") };
        observe(&ont, &step["obs"], &trail, &mut d);
        if d.len() > 6 {
            break;
        }
    }
    d
}

pub fn run(args: &Args) {
    silence_panics();
    let Some(shard) = shard_or_spawn("replay-ontmachine", args) else { return };
    let prop = args.get("prop").unwrap_or("C13").to_string();
    let mut st = Stats::default();
    let n_all = stream_tlc_lines_sharded(args.req("in"), "REPLAY", shard, |i, l| {
        let l = &l;
        st.cases += 1;
        st.nontrivial += 1;
        guard_case(&mut st, &prop, "replay-ontmachine", &json!({"steps": l["steps"].as_array().map(|s| s.iter().map(|x| json!([x["op"], x["arg"]])).collect::<Vec<_>>())}), |st| {
            let mut d = replay_history(st, l);
            if !d.is_empty() && st.violations.len() < 6 {
                d.truncate(8);
                // the replay file keeps the operations and the world, not the (large) observations
                let ops: Vec<Value> = arr(&l["steps"]).iter().map(|s| json!({"op": s["op"], "arg": s["arg"], "obs": s["obs"]})).collect();
                st.violations.push(Violation { property: prop.clone(), what: d[0].clone(), replay: json!({"cmd": "replay-ontmachine", "property": prop, "line": {"terms": l["terms"], "parents": l["parents"], "initial": l["initial"], "steps": ops}, "diffs": d}) });
            }
        });
        if st.samples.is_empty() && i % 17 == 5 {
            st.samples.push(json!({"terms": l["terms"], "parents": l["parents"], "operations": arr(&l["steps"]).iter().map(|s| json!([s["op"], s["arg"]])).collect::<Vec<_>>(),
                "observation_after_last_step": {"modifier": l["steps"].as_array().and_then(|s| s.last()).map(|s| s["obs"]["modifier"].clone()), "terms": l["steps"].as_array().and_then(|s| s.last()).map(|s| s["obs"]["terms"].clone())}}));
        }
    });
    if n_all == 0 {
        eprintln!("no REPLAY lines");
        std::process::exit(2);
    }
    finish(st, args.req("out"), args.req("replay-dir"), json!({}));
}

pub fn replay_one(v: &Value) -> bool {
    silence_panics();
    let mut st = Stats::default();
    let d = match catch(|| replay_history(&mut st, &v["line"])) {
        Ok(d) => d,
        Err(p) => vec![format!("panic: {p}")],
    };
    for l in &d {
        println!("reproduced: {l}");
    }
    !d.is_empty()
}
