//! Growth beyond the listed properties: metadata dependent HpoSet operations against
//! spec/HpoSetMeta.tla (without_modifier, without_obsolete, with_replaced_obsolete, categories).
use crate::paths::from_bytes;
use crate::util::*;
use hpo::annotations::AnnotationId;
use hpo::term::HpoGroup;
use hpo::HpoSet;
use serde_json::{json, Value};
use std::collections::BTreeMap;

fn bytes_of(v: &Value) -> Vec<u8> {
    arr(v).iter().map(|b| b.as_u64().unwrap() as u8).collect()
}

pub fn replay_line(st: &mut Stats, prop: &str, line: &Value) {
    st.cases += 1;
    let Ok(ont) = from_bytes(&bytes_of(&line["bytes"])) else {
        st.violations.push(Violation { property: prop.to_string(), what: "cannot load ontology".into(), replay: json!({"cmd": "replay-setmeta", "property": prop, "line": line, "diffs": []}) });
        return;
    };
    let mut d: Vec<String> = vec![];
    let ids = |g: &HpoGroup| -> Vec<u32> { g.iter().map(|x| x.as_u32()).collect() };
    if ids(ont.modifier()) != u32_list(&line["modifier"]) || ids(ont.categories()) != u32_list(&line["categories"]) {
        d.push(format!("modifier()/categories() = {:?}/{:?}, expected {}/{}", ids(ont.modifier()), ids(ont.categories()), line["modifier"], line["categories"]));
    }
    for t in arr(&line["terms"]) {
        let id = as_u32(&t["id"]);
        let Some(term) = ont.hpo(id) else { continue };
        st.evaluations += 1;
        let cats: Vec<u32> = term.categories().iter().map(|x| x.as_u32()).collect();
        if cats != u32_list(&t["categories"]) {
            d.push(format!("term {id}: categories() = {:?}, expected (ascending) {}", cats, t["categories"]));
        }
        if term.is_modifier() != t["is_modifier"].as_bool().unwrap() {
            d.push(format!("term {id}: is_modifier() = {}, expected {}", term.is_modifier(), t["is_modifier"]));
        }
    }
    for s in arr(&line["sets"]) {
        st.evaluations += 1;
        let members = u32_list(&s["set"]);
        let mk = || {
            let mut g = HpoGroup::new();
            for id in &members {
                g.insert(*id);
            }
            HpoSet::new(&ont, g)
        };
        let collect = |set: &HpoSet| -> Vec<u32> { (0..set.len()).filter_map(|i| catch(|| set.get(i).map(|t| t.id().as_u32())).ok().flatten()).collect() };
        // non-mutating variants
        let set = mk();
        let wm = catch(|| collect(&set.without_modifier()));
        let wo = catch(|| collect(&set.without_obsolete()));
        if wm.as_ref().ok() != Some(&u32_list(&s["without_modifier"])) {
            d.push(format!("without_modifier({:?}) = {:?}, expected {}", members, wm, s["without_modifier"]));
        }
        if wo.as_ref().ok() != Some(&u32_list(&s["without_obsolete"])) {
            d.push(format!("without_obsolete({:?}) = {:?}, expected {}", members, wo, s["without_obsolete"]));
        }
        // mutating variants must agree
        let mut m1 = mk();
        m1.remove_modifier();
        let mut m2 = mk();
        m2.remove_obsolete();
        if collect(&m1) != u32_list(&s["without_modifier"]) || collect(&m2) != u32_list(&s["without_obsolete"]) {
            d.push(format!("remove_modifier / remove_obsolete on {:?} give {:?} / {:?}", members, collect(&m1), collect(&m2)));
        }
        // replacement: compare membership through contains() (a dangling replacement id cannot be iterated)
        let want: Vec<u32> = u32_list(&s["replaced"]);
        let r1 = mk().with_replaced_obsolete();
        let mut r2 = mk();
        r2.replace_obsolete();
        for r in [&r1, &r2] {
            if r.len() != want.len() || !want.iter().all(|x| r.contains(&(*x).into())) {
                d.push(format!("with_replaced_obsolete({:?}) has {} members, expected {:?}", members, r.len(), want));
            }
        }
        // categories
        let want: BTreeMap<u32, usize> = arr(&s["categories"]).iter().map(|p| (as_u32(&p[0]), p[1].as_u64().unwrap() as usize)).collect();
        match catch(|| mk().categories()) {
            Ok(got) => {
                let got: BTreeMap<u32, usize> = got.into_iter().map(|(k, v)| (k.as_u32(), v)).collect();
                if got != want {
                    d.push(format!("categories({:?}) = {:?}, expected {:?}", members, got, want));
                }
            }
            Err(p) => d.push(format!("categories({:?}) panicked: {p}", members)),
        }
    }
    if !d.is_empty() && st.violations.len() < 4 {
        d.truncate(8);
        st.violations.push(Violation { property: prop.to_string(), what: d[0].clone(), replay: json!({"cmd": "replay-setmeta", "property": prop, "line": line, "diffs": d}) });
    }
}

pub fn run(args: &Args) {
    silence_panics();
    let Some(shard) = shard_or_spawn("replay-setmeta", args) else { return };
    let (n_all, lines) = read_tlc_lines_sharded(args.req("in"), "REPLAY", shard);
    if n_all == 0 {
        eprintln!("no REPLAY lines");
        std::process::exit(2);
    }
    let prop = args.get("prop").unwrap_or("EXTRA").to_string();
    let mut st = Stats::default();
    for l in &lines {
        guard_case(&mut st, &prop, "replay-setmeta", l, |st| replay_line(st, &prop, l));
    }
    finish(st, args.req("out"), args.req("replay-dir"), json!({"lines": lines.len()}));
}

pub fn replay_one(v: &Value) -> bool {
    silence_panics();
    let mut st = Stats::default();
    let prop = v["property"].as_str().unwrap_or("C13").to_string();
    guard_case(&mut st, &prop, "replay-setmeta", &v["line"], |st| replay_line(st, &prop, &v["line"]));
    for x in &st.violations {
        println!("reproduced: {}", x.what);
    }
    !st.violations.is_empty()
}
