//! Growth: Ontology::as_mermaid / as_graphviz against spec/HpoExport.tla.  The specification gives the
//! structure (node set, edge set, bag of name pairs); the text the crate prints must be the documented
//! header followed by exactly those node / edge lines in any order.
use crate::paths::from_bytes;
use crate::util::*;
use serde_json::{json, Value};

fn bytes_of(v: &Value) -> Vec<u8> {
    arr(v).iter().map(|b| b.as_u64().unwrap() as u8).collect()
}
fn text_of(v: &Value) -> String {
    let mut bytes = vec![];
    for ch in arr(v) {
        for b in arr(&ch) {
            bytes.push(b.as_u64().unwrap() as u8);
        }
    }
    String::from_utf8(bytes).expect("spec names are valid UTF-8")
}

/// `text` must be a concatenation of a permutation of `chunks` (bag); returns a description of the first problem
fn consume(mut text: &str, mut chunks: Vec<String>, what: &str) -> Option<String> {
    while !text.is_empty() {
        // the longest matching chunk first (a chunk may be a prefix of another one)
        let mut best: Option<usize> = None;
        for (i, c) in chunks.iter().enumerate() {
            if text.starts_with(c.as_str()) && best.map_or(true, |b| chunks[b].len() < c.len()) {
                best = Some(i);
            }
        }
        match best {
            Some(i) => {
                text = &text[chunks[i].len()..];
                chunks.swap_remove(i);
            }
            None => return Some(format!("{what}: unexpected output {:?} (still expected: {:?})", &text[..text.len().min(60)], chunks.iter().take(3).collect::<Vec<_>>())),
        }
    }
    if chunks.is_empty() {
        None
    } else {
        Some(format!("{what}: {} expected lines are missing, e.g. {:?}", chunks.len(), chunks[0]))
    }
}

pub fn check_line(st: &mut Stats, line: &Value) -> Vec<String> {
    let mut d = vec![];
    let Ok(ont) = from_bytes(&bytes_of(&line["bytes"])) else { return vec!["cannot load the ontology".into()] };
    let ex = &line["export"];
    let hp = |id: u32| format!("HP:{:07}", id);
    st.evaluations += 2;
    // mermaid
    let mut chunks: Vec<String> = arr(&ex["nodes"]).iter().map(|n| format!("{}[\"{}\n{}\"]\n", hp(as_u32(&n["id"])), hp(as_u32(&n["id"])), text_of(&n["name"]))).collect();
    chunks.extend(arr(&ex["edges"]).iter().map(|e| format!("{} --> {}\n", hp(as_u32(&e[0])), hp(as_u32(&e[1])))));
    match catch(|| ont.as_mermaid()) {
        Err(p) => d.push(format!("as_mermaid() panicked: {p}")),
        Ok(text) => match text.strip_prefix("graph TD\n") {
            None => d.push(format!("as_mermaid() does not start with the header: {:?}", &text[..text.len().min(30)])),
            Some(rest) => {
                if let Some(e) = consume(rest, chunks, "as_mermaid()") {
                    d.push(e);
                }
            }
        },
    }
    // graphviz
    for layout in ["dot", "fdp"] {
        let chunks: Vec<String> = arr(&ex["gv"]).iter().map(|e| format!("\"{}\" -> \"{}\"\n", text_of(&e[0]), text_of(&e[1]))).collect();
        match catch(|| ont.as_graphviz(layout)) {
            Err(p) => d.push(format!("as_graphviz() panicked: {p}")),
            Ok(text) => {
                let head = format!("digraph G  {{\nlayout={layout}\n");
                match text.strip_prefix(head.as_str()).and_then(|r| r.strip_suffix("}\n")) {
                    None => d.push(format!("as_graphviz({layout}) lacks the header / footer: {:?}", &text[..text.len().min(40)])),
                    Some(rest) => {
                        if let Some(e) = consume(rest, chunks, "as_graphviz()") {
                            d.push(e);
                        }
                    }
                }
            }
        }
    }
    d
}

pub fn run(args: &Args) {
    silence_panics();
    let Some(shard) = shard_or_spawn("replay-export", args) else { return };
    let prop = args.get("prop").unwrap_or("EXTRA").to_string();
    let (n_all, lines) = read_tlc_lines_sharded(args.req("in"), "REPLAY", shard);
    if n_all == 0 {
        eprintln!("no REPLAY lines");
        std::process::exit(2);
    }
    let mut st = Stats::default();
    for l in &lines {
        st.cases += 1;
        if !arr(&l["export"]["edges"]).is_empty() {
            st.nontrivial += 1;
        }
        guard_case(&mut st, &prop, "replay-export", l, |st| {
            let mut d = check_line(st, l);
            if !d.is_empty() && st.violations.len() < 4 {
                d.truncate(6);
                st.violations.push(Violation { property: prop.clone(), what: d[0].clone(), replay: json!({"cmd": "replay-export", "property": prop, "line": l, "diffs": d}) });
            }
        });
    }
    finish(st, args.req("out"), args.req("replay-dir"), json!({"lines": lines.len()}));
}

pub fn replay_one(v: &Value) -> bool {
    silence_panics();
    let mut st = Stats::default();
    let d = check_line(&mut st, &v["line"]);
    for l in &d {
        println!("reproduced: {l}");
    }
    !d.is_empty()
}
