//! C04: the eight built-in term similarities.  TLC supplies, for every ordered pair of every
//! behaviour, the structural arguments (common / union ancestors, distance, annotation overlap);
//! the formula table of spec/HpoSim.tla is evaluated here in f64 and compared with the crate
//! through `Builtins::*`, `Builtins::new(name, kind)`, the concrete structs and
//! `HpoTerm::similarity_score`.
use crate::paths::*;
use crate::project::*;
use crate::scenario::*;
use crate::util::*;
use hpo::similarity::{Builtins, Distance, GraphIc, InformationCoefficient, Jc, Lin, Mutation, Relevance, Resnik, Similarity};
use hpo::Ontology;
use serde_json::{json, Value};
use std::collections::BTreeMap;

pub const ALGOS: [&str; 8] = ["graphic", "resnik", "lin", "jc", "relevance", "informationcoefficient", "distance", "mutation"];
const ALIASES: [(&str, &str); 8] = [
    ("dist", "distance"),
    ("ic", "informationcoefficient"),
    ("jc2", "jc"),
    ("rel", "relevance"),
    ("mut", "mutation"),
    ("GraphIC", "graphic"),
    ("RESNIK", "resnik"),
    ("Lin", "lin"),
];

pub struct PairArgs {
    pub a: u32,
    pub b: u32,
    pub common: Vec<u32>,
    pub union: Vec<u32>,
    pub dist: i64,
    pub ov: [(u64, u64); 3],
}

pub fn expected_score(algo: &str, k: Kind, p: &PairArgs, ic: &BTreeMap<u32, [f64; 3]>) -> f64 {
    let icv = |t: u32| ic[&t][k as usize];
    let resnik = p.common.iter().map(|c| icv(*c)).fold(0.0f64, f64::max);
    let lin = {
        let den = icv(p.a) + icv(p.b);
        if den == 0.0 {
            0.0
        } else {
            2.0 * resnik / den
        }
    };
    match algo {
        "resnik" => resnik,
        "graphic" => {
            if p.a == p.b {
                1.0
            } else {
                let den: f64 = p.union.iter().map(|c| icv(*c)).sum();
                if den == 0.0 {
                    0.0
                } else {
                    p.common.iter().map(|c| icv(*c)).sum::<f64>() / den
                }
            }
        }
        "lin" => lin,
        "jc" => {
            if p.a == p.b {
                1.0
            } else if icv(p.a) == 0.0 || icv(p.b) == 0.0 {
                0.0
            } else {
                1.0 / (icv(p.a) + icv(p.b) - 2.0 * resnik + 1.0)
            }
        }
        "relevance" => lin * (1.0 - (-resnik).exp()),
        "informationcoefficient" => lin * (1.0 - 1.0 / (1.0 + resnik)),
        "distance" => {
            if p.dist < 0 {
                0.0
            } else {
                1.0 / (p.dist as f64 + 1.0)
            }
        }
        "mutation" => {
            if p.a == p.b {
                1.0
            } else {
                let (i, u) = p.ov[k as usize];
                if u == 0 {
                    0.0
                } else {
                    i as f64 / u as f64
                }
            }
        }
        _ => unreachable!(),
    }
}

pub fn builtin(algo: &str, k: Kind) -> Builtins {
    let kind = ic_kind(k);
    match algo {
        "graphic" => Builtins::GraphIc(kind),
        "resnik" => Builtins::Resnik(kind),
        "lin" => Builtins::Lin(kind),
        "jc" => Builtins::Jc(kind),
        "relevance" => Builtins::Relevance(kind),
        "informationcoefficient" => Builtins::InformationCoefficient(kind),
        "distance" => Builtins::Distance(kind),
        "mutation" => Builtins::Mutation(kind),
        _ => unreachable!(),
    }
}

fn concrete(algo: &str, k: Kind, a: &hpo::HpoTerm, b: &hpo::HpoTerm) -> f32 {
    let kind = ic_kind(k);
    match algo {
        "graphic" => GraphIc::new(kind).calculate(a, b),
        "resnik" => Resnik::new(kind).calculate(a, b),
        "lin" => Lin::new(kind).calculate(a, b),
        "jc" => Jc::new(kind).calculate(a, b),
        "relevance" => Relevance::new(kind).calculate(a, b),
        "informationcoefficient" => InformationCoefficient::new(kind).calculate(a, b),
        "distance" => Distance::new().calculate(a, b),
        "mutation" => Mutation::new(kind).calculate(a, b),
        _ => unreachable!(),
    }
}

/// Similarity values are plain values: a score is a function of (ontology, a, b) and never of what the
/// same value was asked before.  One value per algorithm and kind lives as long as the process and is
/// asked about EVERY ontology of the run, next to the fresh values above.
struct LongLived {
    graphic: [GraphIc; 3],
    resnik: [Resnik; 3],
    lin: [Lin; 3],
    jc: [Jc; 3],
    relevance: [Relevance; 3],
    ic: [InformationCoefficient; 3],
    distance: Distance,
    mutation: [Mutation; 3],
}
thread_local! {
    static LONG_LIVED: LongLived = LongLived {
        graphic: KINDS.map(|k| GraphIc::new(ic_kind(k))),
        resnik: KINDS.map(|k| Resnik::new(ic_kind(k))),
        lin: KINDS.map(|k| Lin::new(ic_kind(k))),
        jc: KINDS.map(|k| Jc::new(ic_kind(k))),
        relevance: KINDS.map(|k| Relevance::new(ic_kind(k))),
        ic: KINDS.map(|k| InformationCoefficient::new(ic_kind(k))),
        distance: Distance::new(),
        mutation: KINDS.map(|k| Mutation::new(ic_kind(k))),
    };
}
pub fn long_lived(algo: &str, k: Kind, a: &hpo::HpoTerm, b: &hpo::HpoTerm) -> f32 {
    LONG_LIVED.with(|l| match algo {
        "graphic" => l.graphic[k as usize].calculate(a, b),
        "resnik" => l.resnik[k as usize].calculate(a, b),
        "lin" => l.lin[k as usize].calculate(a, b),
        "jc" => l.jc[k as usize].calculate(a, b),
        "relevance" => l.relevance[k as usize].calculate(a, b),
        "informationcoefficient" => l.ic[k as usize].calculate(a, b),
        "distance" => l.distance.calculate(a, b),
        "mutation" => l.mutation[k as usize].calculate(a, b),
        _ => unreachable!(),
    })
}

fn check_ont(st: &mut Stats, prop: &str, line: &Value, conc: &Concretisation, path: &str, ont: &Ontology, exp: &Expected, pairs: &[PairArgs]) {
    let mut diffs: Vec<String> = vec![];
    // C04 is about the FORMULAS: they are evaluated on the terms' own (observed) information content,
    // and only when the ancestor / annotation sets they read are the ones the specification derived
    // (if those differ, C01 / C02 are broken, which is their checks' business, not C04's).
    if !compare(ont, exp, &[Focus::Struct, Focus::Ann]).is_empty() {
        st.bump("skipped_inputs_differ_from_spec", 1);
        return;
    }
    let mut ic: BTreeMap<u32, [f64; 3]> = BTreeMap::new();
    for (id, _) in &exp.terms {
        let mut v = [0.0; 3];
        if let Some(t) = ont.hpo(*id) {
            for k in KINDS {
                v[k as usize] = t.information_content().get_kind(&ic_kind(k)) as f64;
            }
        }
        ic.insert(*id, v);
    }
    for p in pairs {
        let (Some(a), Some(b)) = (ont.hpo(p.a), ont.hpo(p.b)) else {
            diffs.push(format!("term {} or {} missing", p.a, p.b));
            continue;
        };
        for algo in ALGOS {
            for k in KINDS {
                st.evaluations += 1;
                let want = expected_score(algo, k, p, &ic);
                let bi = builtin(algo, k);
                let got = match catch(|| bi.calculate(&a, &b)) {
                    Ok(x) => x,
                    Err(e) => {
                        diffs.push(format!("{algo}/{}({},{}) panicked: {e}", k.name(), p.a, p.b));
                        continue;
                    }
                };
                if !got.is_finite() || !(got >= 0.0) {
                    diffs.push(format!("{algo}/{}({},{}) = {got} is not a finite number >= 0 (expected {want})", k.name(), p.a, p.b));
                    continue;
                }
                if !close_f32(got, want, 1e-4, 1e-5) {
                    diffs.push(format!("{algo}/{}({},{}) = {got}, formula gives {want}", k.name(), p.a, p.b));
                    continue;
                }
                // argument order
                let rev = catch(|| bi.calculate(&b, &a)).unwrap_or(f32::NAN);
                if !close_f32(rev, got as f64, 1e-5, 1e-6) {
                    diffs.push(format!("{algo}/{}: score({},{}) = {got} but score({},{}) = {rev}", k.name(), p.a, p.b, p.b, p.a));
                }
                // the other entry points give the same number
                let c = catch(|| concrete(algo, k, &a, &b)).unwrap_or(f32::NAN);
                let s = catch(|| a.similarity_score(&b, &bi)).unwrap_or(f32::NAN);
                let n = catch(|| Builtins::new(algo, ic_kind(k)).map(|x| x.calculate(&a, &b)).unwrap_or(f32::NAN)).unwrap_or(f32::NAN);
                let ll = catch(|| long_lived(algo, k, &a, &b)).unwrap_or(f32::NAN);
                for (what, v) in [("concrete struct", c), ("similarity_score", s), ("Builtins::new by name", n), ("a long-lived value of the concrete struct (asked about earlier ontologies before)", ll)] {
                    if v.to_bits() != got.to_bits() {
                        diffs.push(format!("{algo}/{}({},{}): {what} gives {v}, Builtins variant gives {got}", k.name(), p.a, p.b));
                    }
                }
            }
        }
        // aliases dispatch to the same algorithm (checked once per pair on the gene kind)
        for (alias, algo) in ALIASES {
            let x = catch(|| Builtins::new(alias, ic_kind(Kind::Omim)).map(|x| x.calculate(&a, &b)).unwrap_or(f32::NAN)).unwrap_or(f32::NAN);
            let y = catch(|| builtin(algo, Kind::Omim).calculate(&a, &b)).unwrap_or(f32::NAN);
            if x.to_bits() != y.to_bits() && !(x.is_nan() && y.is_nan()) {
                diffs.push(format!("Builtins::new({alias:?}) gives {x}, {algo} gives {y} for ({},{})", p.a, p.b));
            }
        }
        if diffs.len() > 12 {
            break;
        }
    }
    if !diffs.is_empty() && st.violations.len() < 8 {
        diffs.truncate(12);
        st.violations.push(Violation {
            property: prop.to_string(),
            what: format!("{path}: {}", diffs[0]),
            replay: json!({"cmd": "replay-sim", "property": prop, "line": line, "conc": conc.to_json(), "path": path, "diffs": diffs}),
        });
    }
}

/// Growth beyond the listed properties (spec/HpoSetOps.tla): path queries (any shortest path is
/// allowed) and HpoSet operations.  Mismatches are reported under the pseudo property "EXTRA".
fn check_extras(st: &mut Stats, line: &Value, conc: &Concretisation, ont: &Ontology, mode: &str) {
    let (want_paths, want_queries, want_sets) = (mode == "C11", mode == "C12", mode == "C13");
    let exp_parents: BTreeMap<u32, Value> = arr(&line["expect"]["terms"])
        .iter()
        .map(|t| (conc.get(as_u32(&t["id"])), Value::from(u32_list(&t["parents"]).into_iter().map(|m| conc.get(m)).collect::<Vec<u32>>())))
        .collect();
    use hpo::annotations::AnnotationId;
    use hpo::term::HpoGroup;
    use hpo::HpoSet;
    let mut d: Vec<String> = vec![];
    let cv = |v: &Value| -> Vec<u32> { u32_list(v).into_iter().map(|m| conc.get(m)).collect() };
    for p in arr(&line["paths"]) {
        let (a, b) = (conc.get(as_u32(&p["a"])), conc.get(as_u32(&p["b"])));
        let (Some(ta), Some(tb)) = (ont.hpo(a), ont.hpo(b)) else { continue };
        st.bump("pair_queries", 1);
        st.evaluations += 1;
        let ids = |g: HpoGroup| -> Vec<u32> { g.iter().map(|x| x.as_u32()).collect() };
        if want_queries {
            // C12: ancestor queries are the set algebra of the ancestor sets (ids and resolving variants)
            let res = |c: hpo::term::group::Combined| -> Vec<u32> { c.iter().map(|t| t.id().as_u32()).collect() };
            let checks: Vec<(&str, Vec<u32>, Vec<u32>)> = vec![
                ("common_ancestor_ids", ids(ta.common_ancestor_ids(&tb)), cv(&p["common"])),
                ("all_common_ancestor_ids", ids(ta.all_common_ancestor_ids(&tb)), cv(&p["commonself"])),
                ("union_ancestor_ids", ids(ta.union_ancestor_ids(&tb)), cv(&p["union"])),
                ("all_union_ancestor_ids", ids(ta.all_union_ancestor_ids(&tb)), cv(&p["union"])),
                ("common_ancestors()", res(ta.common_ancestors(&tb)), cv(&p["common"])),
                ("all_common_ancestors()", res(ta.all_common_ancestors(&tb)), cv(&p["commonself"])),
                ("union_ancestors()", res(ta.union_ancestors(&tb)), cv(&p["union"])),
                ("all_union_ancestors()", res(ta.all_union_ancestors(&tb)), cv(&p["union"])),
            ];
            for (what, got, want) in checks {
                if got != want {
                    d.push(format!("{what}({a},{b}) = {:?}, expected {:?}", got, want));
                }
            }
        }
        if !want_paths {
            continue;
        }
        // C11: distances are the spec's (BFS layers / minimum over common ancestors); paths are VALID WALKS of
        // exactly that length: a chain of parent links for path_to_ancestor, parent/child links for path_to_term
        let par = |x: u32| -> Vec<u32> { u32_list(&exp_parents[&x]) };
        let linked = |x: u32, y: u32| -> bool { par(x).contains(&y) || par(y).contains(&x) };
        let updist = as_i64(&p["updist"]);
        let got = ta.distance_to_ancestor(&tb).map(|x| x as i64).unwrap_or(-1);
        if got != updist {
            d.push(format!("distance_to_ancestor({a},{b}) = {got}, expected {updist}"));
        }
        match catch(|| ta.path_to_ancestor(&tb)) {
            Ok(Some(path)) => {
                let path: Vec<u32> = path.iter().map(|x| x.as_u32()).collect();
                let mut cur = a;
                let mut chain = true;
                for x in &path {
                    chain &= par(cur).contains(x);
                    cur = *x;
                }
                if updist < 0 || path.len() as i64 != updist || !chain || (a != b && cur != b) {
                    d.push(format!("path_to_ancestor({a},{b}) = {:?} is not a chain of parent links of length {updist} ending in {b}", path));
                }
            }
            Ok(None) => {
                if updist >= 0 {
                    d.push(format!("path_to_ancestor({a},{b}) = None although {b} is an ancestor (or the term itself) at distance {updist}"));
                }
            }
            Err(e) => d.push(format!("path_to_ancestor({a},{b}) panicked: {e}")),
        }
        let dist = as_i64(&p["dist"]);
        let got = ta.distance_to_term(&tb).map(|x| x as i64).unwrap_or(-1);
        let rev = tb.distance_to_term(&ta).map(|x| x as i64).unwrap_or(-1);
        if got != dist || rev != dist {
            d.push(format!("distance_to_term({a},{b}) = {got} (reverse {rev}), expected {dist}"));
        }
        match catch(|| ta.path_to_term(&tb)) {
            Ok(Some(path)) => {
                let path: Vec<u32> = path.iter().map(|x| x.as_u32()).collect();
                if a != b {
                    let mut cur = a;
                    let mut walk = true;
                    for x in &path {
                        walk &= linked(cur, *x);
                        cur = *x;
                    }
                    if dist < 0 || path.len() as i64 != dist || !walk || cur != b {
                        d.push(format!("path_to_term({a},{b}) = {:?} is not a walk along parent/child links with exactly {dist} steps ending in {b}", path));
                    }
                }
            }
            Ok(None) => {
                if dist >= 0 {
                    d.push(format!("path_to_term({a},{b}) = None although the terms share an ancestor (distance {dist})"));
                }
            }
            Err(e) => d.push(format!("path_to_term({a},{b}) panicked: {e}")),
        }
        // the Distance similarity is 1 / (distance + 1), 0 without a common ancestor
        {
            use hpo::similarity::{Builtins, Similarity};
            let sc = Builtins::Distance(hpo::term::InformationContentKind::Omim).calculate(&ta, &tb);
            let want = if dist < 0 { 0.0 } else { 1.0 / (dist as f64 + 1.0) };
            if !close_f32(sc, want, 1e-5, 1e-6) {
                d.push(format!("Distance similarity({a},{b}) = {sc}, expected {want}"));
            }
            // a Distance value that has been asked about other ontologies before gives the same answer
            let ll = long_lived("distance", Kind::Omim, &ta, &tb);
            if !close_f32(ll, want, 1e-5, 1e-6) {
                d.push(format!("Distance similarity({a},{b}) from a long-lived Distance value (asked about earlier ontologies before) = {ll}, expected {want}"));
            }
        }
    }
    for s in arr(&line["sets"]) {
        if !want_sets {
            break;
        }
        st.bump("set_queries", 1);
        st.evaluations += 1;
        let mut g = HpoGroup::new();
        for id in cv(&s["set"]) {
            g.insert(id);
        }
        let set = HpoSet::new(ont, g);
        let child: Vec<u32> = set.child_nodes().iter().map(|t| t.id().as_u32()).collect();
        if child != cv(&s["child"]) {
            d.push(format!("child_nodes({:?}) = {:?}, expected {:?}", cv(&s["set"]), child, cv(&s["child"])));
        }
        let want = |k: &str| -> std::collections::BTreeSet<u32> { u32_list(&s[k]).into_iter().collect() };
        let g: std::collections::BTreeSet<u32> = set.gene_ids().iter().map(|x| x.as_u32()).collect();
        let o: std::collections::BTreeSet<u32> = set.omim_disease_ids().iter().map(|x| x.as_u32()).collect();
        let r: std::collections::BTreeSet<u32> = set.orpha_disease_ids().iter().map(|x| x.as_u32()).collect();
        if g != want("gene") || o != want("omim") || r != want("orpha") {
            d.push(format!("HpoSet{:?}: gene/omim/orpha ids {:?}/{:?}/{:?}, expected {:?}/{:?}/{:?}", cv(&s["set"]), g, o, r, want("gene"), want("omim"), want("orpha")));
        }
        if let Ok(ic) = set.information_content() {
            let wg = ic_expected(s["icgene"][0].as_u64().unwrap() as usize, s["icgene"][1].as_u64().unwrap() as usize);
            let wo = ic_expected(s["icomim"][0].as_u64().unwrap() as usize, s["icomim"][1].as_u64().unwrap() as usize);
            if !close_f32(ic.gene(), wg, 1e-5, 1e-6) || !close_f32(ic.omim_disease(), wo, 1e-5, 1e-6) {
                d.push(format!("HpoSet{:?}.information_content() = ({}, {}), expected ({wg}, {wo})", cv(&s["set"]), ic.gene(), ic.omim_disease()));
            }
        }
    }
    if !d.is_empty() && st.violations.len() < 8 {
        d.truncate(8);
        st.violations.push(Violation { property: mode.to_string(), what: d[0].clone(), replay: json!({"cmd": "replay-sim", "property": mode, "line": line, "conc": conc.to_json(), "diffs": d}) });
    }
}

/// The previous ontology of this process (builder path, dense ids) is kept alive: a similarity score is a function of
/// the ontology the two terms belong to, so asking the same ordered pair of ids first in the previous and IMMEDIATELY
/// afterwards in the current ontology (same algorithm, same kind, no call in between) must give each ontology's own value.
struct Live {
    ont: Ontology,
    pairs: Vec<PairArgs>,
    ic: BTreeMap<u32, [f64; 3]>,
    line: Value,
}
thread_local! {
    static PREVIOUS: std::cell::RefCell<Option<Live>> = std::cell::RefCell::new(None);
}

fn observed_ic(ont: &Ontology, exp: &Expected) -> BTreeMap<u32, [f64; 3]> {
    let mut ic: BTreeMap<u32, [f64; 3]> = BTreeMap::new();
    for (id, _) in &exp.terms {
        let mut v = [0.0; 3];
        if let Some(t) = ont.hpo(*id) {
            for k in KINDS {
                v[k as usize] = t.information_content().get_kind(&ic_kind(k)) as f64;
            }
        }
        ic.insert(*id, v);
    }
    ic
}

fn alternate(st: &mut Stats, prop: &str, line: &Value, conc: &Concretisation, ont: Ontology, exp: &Expected, pairs: Vec<PairArgs>) {
    if !compare(&ont, exp, &[Focus::Struct, Focus::Ann]).is_empty() {
        return; // inputs differ from the specification: C01 / C02's business
    }
    let cur = Live { ic: observed_ic(&ont, exp), ont, pairs, line: line.clone() };
    let mut diffs: Vec<String> = vec![];
    PREVIOUS.with(|p| {
        if let Some(prev) = p.borrow().as_ref() {
            let mut asked = 0;
            for pc in &cur.pairs {
                let Some(pp) = prev.pairs.iter().find(|q| q.a == pc.a && q.b == pc.b) else { continue };
                let (Some(a1), Some(b1), Some(a2), Some(b2)) = (prev.ont.hpo(pc.a), prev.ont.hpo(pc.b), cur.ont.hpo(pc.a), cur.ont.hpo(pc.b)) else { continue };
                asked += 1;
                if asked > 6 {
                    break;
                }
                for algo in ALGOS {
                    for k in KINDS {
                        st.evaluations += 2;
                        let bi = builtin(algo, k);
                        // previous ontology, then at once the current one, then the previous one again
                        let x1 = catch(|| bi.calculate(&a1, &b1)).unwrap_or(f32::NAN);
                        let x2 = catch(|| bi.calculate(&a2, &b2)).unwrap_or(f32::NAN);
                        let x3 = catch(|| bi.calculate(&a1, &b1)).unwrap_or(f32::NAN);
                        let (w1, w2) = (expected_score(algo, k, pp, &prev.ic), expected_score(algo, k, pc, &cur.ic));
                        if !close_f32(x1, w1, 1e-4, 1e-5) || !close_f32(x2, w2, 1e-4, 1e-5) || !close_f32(x3, w1, 1e-4, 1e-5) {
                            diffs.push(format!("{algo}/{}({},{}) asked alternately in two ontologies that are alive at the same time: previous ontology {x1} (formula {w1}), current ontology {x2} (formula {w2}), previous again {x3}", k.name(), pc.a, pc.b));
                        }
                    }
                }
                if diffs.len() > 6 {
                    break;
                }
            }
            if !diffs.is_empty() && st.violations.len() < 8 {
                diffs.truncate(8);
                st.violations.push(Violation { property: prop.into(), what: diffs[0].clone(),
                    replay: json!({"cmd": "replay-sim", "property": prop, "line": line, "prev_line": prev.line, "conc": conc.to_json(), "diffs": diffs}) });
            }
        }
    });
    PREVIOUS.with(|p| *p.borrow_mut() = Some(cur));
}

pub fn replay_line(st: &mut Stats, prop: &str, seed: u64, idx: usize, line: &Value, conc_filter: Option<&str>) {
    let mut model_ids = u32_list(&line["arena"]);
    model_ids.sort_unstable();
    let mut rng = Rng::new(seed ^ fnv(&line.to_string()));
    st.cases += 1;
    let nontrivial = !arr(&line["facts"]).is_empty() && !arr(&line["edges"]).is_empty();
    if nontrivial {
        st.nontrivial += 1;
    }
    if st.samples.is_empty() && nontrivial && idx % 53 == 0 {
        let mut l = line.clone();
        if let Some(p) = l.get_mut("pairs").and_then(|p| p.as_array_mut()) {
            p.truncate(3);
        }
        st.samples.push(l);
    }
    for conc in concretisations(&model_ids, &mut rng, true) {
        if let Some(f) = conc_filter {
            if conc.name != f {
                continue;
            }
        } else if !(conc.name == "dense" || conc.name == "roots0_1" || (conc.name == "random" && idx % 4 == 0)) {
            continue;
        }
        let (scn, exp) = from_tlc(line, &conc);
        let pairs: Vec<PairArgs> = arr(&line["pairs"])
            .iter()
            .map(|p| PairArgs {
                a: conc.get(as_u32(&p["a"])),
                b: conc.get(as_u32(&p["b"])),
                common: u32_list(&p["common"]).into_iter().map(|m| conc.get(m)).collect(),
                union: u32_list(&p["union"]).into_iter().map(|m| conc.get(m)).collect(),
                dist: as_i64(&p["dist"]),
                ov: [
                    (p["gene"][0].as_u64().unwrap(), p["gene"][1].as_u64().unwrap()),
                    (p["omim"][0].as_u64().unwrap(), p["omim"][1].as_u64().unwrap()),
                    (p["orpha"][0].as_u64().unwrap(), p["orpha"][1].as_u64().unwrap()),
                ],
            })
            .collect();
        match via_builder(&scn, EdgeOrder::AsGiven, false, false) {
            Ok(ont) => {
                if prop == "C04" {
                    check_ont(st, prop, line, &conc, "builder", &ont, &exp, &pairs);
                    if conc.name == "dense" && !pairs.is_empty() {
                        // (the binary path below builds its own ontology; this one is handed over to stay alive)
                        let pairs2: Vec<PairArgs> = pairs.iter().map(|p| PairArgs { a: p.a, b: p.b, common: p.common.clone(), union: p.union.clone(), dist: p.dist, ov: p.ov }).collect();
                        alternate(st, prop, line, &conc, ont, &exp, pairs2);
                    }
                } else {
                    check_extras(st, line, &conc, &ont, prop);
                    continue;
                }
            }
            Err(e) => st.violations.push(Violation { property: prop.into(), what: format!("builder: {e}"), replay: json!({"cmd":"replay-sim","property":prop,"line":line,"conc":conc.to_json(),"diffs":[e]}) }),
        }
        if has_roots(&scn) {
            let (_, b) = via_binary(&scn, 3, Some(rng.next()));
            match b {
                Ok(ont) => check_ont(st, prop, line, &conc, "binary/v3", &ont, &crate::enc::restrict(&exp, 3), &pairs),
                Err(e) => st.violations.push(Violation { property: prop.into(), what: format!("binary/v3: {e}"), replay: json!({"cmd":"replay-sim","property":prop,"line":line,"conc":conc.to_json(),"diffs":[e]}) }),
            }
        }
    }
}

pub fn run(args: &Args) {
    silence_panics();
    let Some(shard) = shard_or_spawn("replay-sim", args) else { return };
    let prop = args.get("prop").unwrap_or("C04").to_string();
    let seed = args.num("seed", 1);
    let (n_all, lines) = read_tlc_lines_sharded(args.req("in"), "REPLAY", shard);
    if n_all == 0 {
        eprintln!("no REPLAY lines");
        std::process::exit(2);
    }
    let p2 = prop.clone();
    let rd = args.req("replay-dir").to_string();
    let stats = run_parallel(
        &lines,
        1,
        120,
        move |_| {
            println!("VIOLATION property={p2} replay={rd}/hang");
        },
        |i, line, st| guard_case(st, &prop, "replay-sim", line, |st| replay_line(st, &prop, seed, i, line, None)),
    );
    finish(stats, args.req("out"), args.req("replay-dir"), json!({"lines": lines.len()}));
}

pub fn replay_one(v: &Value) -> bool {
    silence_panics();
    let mut st = Stats::default();
    let conc = v.get("conc").map(|c| Concretisation::from_json(c).name);
    let prop = v["property"].as_str().unwrap_or("C04").to_string();
    if v.get("prev_line").is_some() {
        // a history of two ontologies: replay the previous one first (it stays alive), then the reported one
        guard_case(&mut st, &prop, "replay-sim", &v["prev_line"], |st| replay_line(st, &prop, v["seed"].as_u64().unwrap_or(1), 0, &v["prev_line"], conc.as_deref()));
    }
    guard_case(&mut st, &prop, "replay-sim", &v["line"], |st| replay_line(st, &prop, v["seed"].as_u64().unwrap_or(1), 0, &v["line"], conc.as_deref()));
    for x in &st.violations {
        println!("reproduced: {}", x.what);
        if let Some(d) = x.replay["diffs"].as_array() {
            for l in d {
                println!("   {}", l.as_str().unwrap_or(""));
            }
        }
    }
    !st.violations.is_empty()
}
