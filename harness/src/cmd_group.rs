//! C12: `HpoGroup` behaves as a sorted set (spec/HpoGroupSpec.tla).  TLC emits every insertion
//! sequence of <= 4 ids and every ordered pair of subsets of a 5-id universe with the results of
//! | & and +; in addition set semantics (size independent) is demanded of random groups whose sizes
//! cross the inline capacity of 30, with touching / interleaved / nested id ranges.
use crate::util::*;
use hpo::annotations::AnnotationId;
use hpo::term::HpoGroup;
use hpo::HpoTermId;
use serde_json::{json, Value};
use std::collections::{BTreeSet, HashSet};

fn ids(g: &HpoGroup) -> Vec<u32> {
    g.iter().map(|x| x.as_u32()).collect()
}
fn mk(v: &[u32]) -> HpoGroup {
    let mut g = HpoGroup::new();
    for x in v {
        g.insert(*x);
    }
    g
}

/// everything the read API shows of a group must be the view of the set `want` (ascending)
fn view_diff(what: &str, g: &HpoGroup, want: &[u32]) -> Option<String> {
    let got = ids(g);
    if got != want {
        return Some(format!("{what}: iterates {:?}, expected {:?}", got, want));
    }
    if g.len() != want.len() || g.is_empty() != want.is_empty() {
        return Some(format!("{what}: len() = {}, is_empty() = {}, expected {} elements", g.len(), g.is_empty(), want.len()));
    }
    for (i, x) in want.iter().enumerate() {
        if g.get(i).map(|t| t.as_u32()) != Some(*x) {
            return Some(format!("{what}: get({i}) = {:?}, expected {x}", g.get(i)));
        }
        if !g.contains(&HpoTermId::from(*x)) {
            return Some(format!("{what}: contains({x}) is false, the group iterates {:?}", got));
        }
    }
    if g.get(want.len()).is_some() {
        return Some(format!("{what}: get({}) is Some beyond the end", want.len()));
    }
    let set: BTreeSet<u32> = want.iter().copied().collect();
    for x in want.iter().flat_map(|x| [x.wrapping_sub(1), x.wrapping_add(1)]).chain([0, u32::MAX]) {
        if !set.contains(&x) && g.contains(&HpoTermId::from(x)) {
            return Some(format!("{what}: contains({x}) is true, the group iterates {:?}", got));
        }
    }
    None
}

fn check_ops(a: &[u32], b: &[u32], d: &mut Vec<String>) {
    let (sa, sb): (BTreeSet<u32>, BTreeSet<u32>) = (a.iter().copied().collect(), b.iter().copied().collect());
    let union: Vec<u32> = sa.union(&sb).copied().collect();
    let inter: Vec<u32> = sa.intersection(&sb).copied().collect();
    let (ga, gb) = (mk(a), mk(b));
    let r = catch(|| {
        let mut d = vec![];
        for (what, g) in [("&a | &b", &ga | &gb), ("a | b (owned)", ga.clone() | gb.clone()), ("a | &b", ga.clone() | &gb)] {
            if let Some(e) = view_diff(what, &g, &union) {
                d.push(format!("{e}  (a = {:?}, b = {:?})", a, b));
            }
        }
        for (what, g) in [("&a & &b", &ga & &gb), ("a & b (owned)", ga.clone() & gb.clone()), ("a & &b", ga.clone() & &gb)] {
            if let Some(e) = view_diff(what, &g, &inter) {
                d.push(format!("{e}  (a = {:?}, b = {:?})", a, b));
            }
        }
        d
    });
    match r {
        Ok(x) => d.extend(x),
        Err(p) => d.push(format!("group operation panicked on a = {:?}, b = {:?}: {p}", a, b)),
    }
}

fn check_line(st: &mut Stats, line: &Value) -> Vec<String> {
    let mut d = vec![];
    match line["kind"].as_str().unwrap() {
        "insert" => {
            let mut g = HpoGroup::new();
            for op in arr(&line["log"]) {
                st.evaluations += 1;
                let id = as_u32(&op["id"]);
                let new = g.insert(id);
                if new != op["new"].as_bool().unwrap() {
                    d.push(format!("insert({id}) returned {new}, expected {} (log {})", op["new"], line["log"]));
                }
            }
            let want = u32_list(&line["iter"]);
            if let Some(e) = view_diff("after the insertions", &g, &want) {
                d.push(e);
            }
            // every constructor gives the same set
            let seq: Vec<u32> = arr(&line["log"]).iter().map(|o| as_u32(&o["id"])).collect();
            let from_vec_u32 = HpoGroup::from(seq.clone());
            let from_vec_ids = HpoGroup::from(seq.iter().map(|x| HpoTermId::from(*x)).collect::<Vec<HpoTermId>>());
            let from_hash = HpoGroup::from(seq.iter().map(|x| HpoTermId::from(*x)).collect::<HashSet<HpoTermId>>());
            let from_iter: HpoGroup = seq.iter().map(|x| HpoTermId::from(*x)).collect();
            // collecting TERMS (not ids), in the order of the log: needs an ontology that holds them
            let from_terms: HpoGroup = {
                let mut b = hpo::builder::Builder::new();
                for x in seq.iter().collect::<BTreeSet<_>>() {
                    b.new_term(&format!("T{x}"), *x);
                }
                let ont = b.terms_complete().connect_all_terms().calculate_information_content().unwrap().build_minimal();
                seq.iter().map(|x| ont.hpo(*x).expect("term was added")).collect()
            };
            for (what, g2) in [("From<Vec<u32>>", &from_vec_u32), ("From<Vec<HpoTermId>>", &from_vec_ids), ("From<HashSet>", &from_hash), ("FromIterator<HpoTermId>", &from_iter), ("FromIterator<HpoTerm>", &from_terms)] {
                if let Some(e) = view_diff(what, g2, &want) {
                    d.push(e);
                }
            }
        }
        _ => {
            let (a, b) = (u32_list(&line["a"]), u32_list(&line["b"]));
            st.evaluations += 1;
            let (ga, gb) = (mk(&a), mk(&b));
            for (what, g, want) in [("&a | &b", &ga | &gb, u32_list(&line["union"])), ("&a & &b", &ga & &gb, u32_list(&line["inter"]))] {
                if let Some(e) = view_diff(what, &g, &want) {
                    d.push(format!("{e}  (a = {:?}, b = {:?})", a, b));
                }
            }
            check_ops(&a, &b, &mut d);
            for ad in arr(&line["add"]) {
                let x = as_u32(&ad["x"]);
                let want = u32_list(&ad["r"]);
                for (what, g) in [("&a + id", &ga + HpoTermId::from(x)), ("a + id (owned)", ga.clone() + HpoTermId::from(x)), ("&a | id", &ga | HpoTermId::from(x))] {
                    if let Some(e) = view_diff(what, &g, &want) {
                        d.push(format!("{e}  (a = {:?}, id = {x})", a));
                    }
                }
            }
        }
    }
    d
}

/// sizes beyond TLC's universe: groups across the inline capacity (30), very unequal sizes, touching ranges
fn big_cases(st: &mut Stats, seed: u64) -> Vec<String> {
    let mut d = vec![];
    let mut rng = Rng::new(seed ^ 0xC12);
    let sizes = [0usize, 1, 2, 3, 15, 16, 29, 30, 31, 32, 33, 47, 48, 64, 100, 500];
    for round in 0..400u64 {
        let na = sizes[rng.below(sizes.len() as u64) as usize];
        let nb = sizes[rng.below(sizes.len() as u64) as usize];
        let span = [40u64, 200, 2000, 9_999_999][rng.below(4) as usize].max((na + nb) as u64 * 2);
        let base = rng.below(1000) as u32;
        let draw = |rng: &mut Rng, n: usize| -> Vec<u32> {
            let mut s = BTreeSet::new();
            while s.len() < n {
                s.insert(base + rng.below(span) as u32);
            }
            let mut v: Vec<u32> = s.into_iter().collect();
            rng.shuffle(&mut v);
            v
        };
        let mut a = draw(&mut rng, na);
        let mut b = match round % 5 {
            0 => a.iter().copied().filter(|_| rng.chance(1, 2)).collect(),          // nested
            1 => {
                let m = a.iter().copied().max().unwrap_or(base);                      // touching: b starts at max(a)
                (0..nb as u32).map(|i| m + i * 2).collect()
            }
            2 => a.clone(),                                                           // equal
            _ => draw(&mut rng, nb),
        };
        if round % 7 == 3 {
            std::mem::swap(&mut a, &mut b);
        }
        st.evaluations += 1;
        st.bump("big_group_pairs", 1);
        check_ops(&a, &b, &mut d);
        // insertion in arbitrary order builds the ascending set, duplicates are reported
        let mut g = HpoGroup::new();
        let mut seen = BTreeSet::new();
        for x in a.iter().chain(a.iter().take(3)) {
            let new = g.insert(*x);
            if new != seen.insert(*x) {
                d.push(format!("insert({x}) returned {new} on a group of {} ids", g.len()));
            }
        }
        let want: Vec<u32> = seen.into_iter().collect();
        if let Some(e) = view_diff("large group after insertions", &g, &want) {
            d.push(e);
        }
        if d.len() > 10 {
            break;
        }
    }
    d
}

/// impl -> spec (spec/trace/TraceGroup.tla): random groups far beyond TLC's universe are built by insertion and combined by the crate; every
/// reply and every view is RECORDED (nothing is judged here) and TLC replays the events on the group machine of spec/HpoGroupSpec.tla.
///   Start | Ins id new | View iter len | Ops a b union inter x plus bitor_id
pub fn record(args: &Args) {
    use std::io::Write;
    silence_panics();
    let seed = args.num("seed", 1);
    let runs = args.num("runs", 60);
    let path = args.req("trace").to_string();
    let mut fh = std::fs::File::create(&path).expect("cannot create trace file");
    let mut st = Stats::default();
    let mut rng = Rng::new(seed ^ 0x7C12);
    let sizes = [0usize, 1, 2, 3, 15, 29, 30, 31, 32, 33, 48, 64, 100, 200];
    let mut n_events = 0u64;
    let mut index = vec![];
    for run in 0..runs {
        let first = n_events + 1;
        let na = sizes[rng.below(sizes.len() as u64) as usize];
        let nb = sizes[rng.below(sizes.len() as u64) as usize];
        let span = [40u64, 200, 2000, 9_999_999][rng.below(4) as usize].max((na + nb) as u64 * 2);
        let base = rng.below(1000) as u32;
        let mut draw = |rng: &mut Rng, n: usize| -> Vec<u32> { (0..n).map(|_| base + rng.below(span) as u32).collect() };       // duplicates welcome
        let a = draw(&mut rng, na);
        let b: Vec<u32> = match run % 5 {
            0 => a.iter().copied().filter(|_| rng.chance(1, 2)).collect(),
            1 => { let m = a.iter().copied().max().unwrap_or(base); (0..nb as u32).map(|k| m + k).collect() }
            2 => a.clone(),
            _ => draw(&mut rng, nb),
        };
        let res = catch(|| {
            let mut ev: Vec<Value> = vec![json!({"e": "Start", "run": run})];
            let mut g = HpoGroup::new();
            for x in &a {
                let new = g.insert(*x);
                ev.push(json!({"e": "Ins", "id": x, "new": new}));
            }
            ev.push(json!({"e": "View", "iter": ids(&g), "len": g.len(), "empty": g.is_empty()}));
            let gb = mk(&b);
            let x = if rng.chance(1, 2) && !a.is_empty() { *rng.pick(&a) } else { base + rng.below(span) as u32 };
            ev.push(json!({"e": "Ops", "a": ids(&g), "b": ids(&gb), "union": ids(&(&g | &gb)), "inter": ids(&(&g & &gb)), "x": x,
                           "plus": ids(&(&g + HpoTermId::from(x))), "bitor_id": ids(&(&g | HpoTermId::from(x)))}));
            ev
        });
        st.cases += 1;
        st.nontrivial += 1;
        st.evaluations += 1;
        let ev = match res {
            Ok(ev) => ev,
            Err(p) => vec![json!({"e": "Start", "run": run}), json!({"e": "Panicked", "error": p, "a": a, "b": b})],
        };
        for e in &ev {
            writeln!(fh, "{}", serde_json::to_string(e).unwrap()).unwrap();
            n_events += 1;
        }
        index.push(json!({"run": run, "first_line": first, "last_line": n_events, "a": a.len(), "b": b.len()}));
    }
    finish(st, args.req("out"), args.req("replay-dir"), json!({"file": path, "events": n_events, "runs": index}));
}

pub fn run(args: &Args) {
    silence_panics();
    let Some(shard) = shard_or_spawn("replay-group", args) else { return };
    let prop = args.get("prop").unwrap_or("C12").to_string();
    let (n_all, lines) = read_tlc_lines_sharded(args.req("in"), "REPLAY", shard);
    if n_all == 0 {
        eprintln!("no REPLAY lines");
        std::process::exit(2);
    }
    let mut st = Stats::default();
    for (i, l) in lines.iter().enumerate() {
        st.cases += 1;
        st.nontrivial += 1;
        guard_case(&mut st, &prop, "replay-group", l, |st| {
            let mut d = check_line(st, l);
            if !d.is_empty() && st.violations.len() < 8 {
                d.truncate(10);
                st.violations.push(Violation { property: prop.clone(), what: d[0].clone(), replay: json!({"cmd": "replay-group", "property": prop, "line": l, "diffs": d}) });
            }
        });
        if st.samples.len() < 2 && i % 131 == 7 {
            st.samples.push(l.clone());
        }
    }
    if shard.0 == 0 {
        let mut d = big_cases(&mut st, args.num("seed", 1));
        if !d.is_empty() {
            d.truncate(10);
            st.violations.push(Violation { property: prop.clone(), what: d[0].clone(), replay: json!({"cmd": "replay-group", "property": prop, "big": true, "seed": args.num("seed", 1), "diffs": d}) });
        }
    }
    finish(st, args.req("out"), args.req("replay-dir"), json!({"lines": lines.len()}));
}

pub fn replay_one(v: &Value) -> bool {
    silence_panics();
    let mut st = Stats::default();
    let d = if v.get("big").is_some() { big_cases(&mut st, v["seed"].as_u64().unwrap_or(1)) } else { check_line(&mut st, &v["line"]) };
    for l in &d {
        println!("reproduced: {l}");
    }
    !d.is_empty()
}
