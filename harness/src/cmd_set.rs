//! C05: set similarity = combiner(matrix of pairwise similarities), caching adaptor.
//! The lever is the property's own: a user-supplied `Similarity` that returns arbitrary
//! (asymmetric) integers, so the expected value is the exact rational TLC computed.
use crate::util::*;
use hpo::builder::Builder;
use hpo::matrix::Matrix;
use hpo::similarity::{CachedSimilarity, GroupSimilarity, Similarity, SimilarityCombiner, StandardCombiner};
use hpo::term::HpoGroup;
use hpo::{HpoSet, HpoTerm, Ontology};
use serde_json::{json, Value};
use std::cell::Cell;
use std::collections::HashMap;

const COMBINERS: [(&str, StandardCombiner); 3] = [("funsimavg", StandardCombiner::FunSimAvg), ("funsimmax", StandardCombiner::FunSimMax), ("bma", StandardCombiner::Bma)];

/// user supplied similarity: a table on ordered pairs of term ids
struct TableSim {
    table: HashMap<(u32, u32), f32>,
    calls: Cell<u64>,
}
impl Similarity for TableSim {
    fn calculate(&self, a: &HpoTerm, b: &HpoTerm) -> f32 {
        use hpo::annotations::AnnotationId;
        self.calls.set(self.calls.get() + 1);
        *self.table.get(&(a.id().as_u32(), b.id().as_u32())).unwrap_or(&-1000.0)
    }
}
/// `Similarity` is taken by value by HpoSet::similarity; this lets several calls share one adaptor
struct ByRef<'a, T>(&'a T);
impl<T: Similarity> Similarity for ByRef<'_, T> {
    fn calculate(&self, a: &HpoTerm, b: &HpoTerm) -> f32 {
        self.0.calculate(a, b)
    }
}

thread_local! {
    /// the table the long-lived group similarities read (they live as long as the process, the table changes per case)
    static CURRENT_TABLE: std::cell::RefCell<HashMap<(u32, u32), f32>> = std::cell::RefCell::new(HashMap::new());
    /// one GroupSimilarity per combiner that is used for EVERY case of the run: a score never depends on what the
    /// same object was asked before (sizes shrink and grow between cases)
    static LONG_LIVED_GS: [GroupSimilarity<TlsSim, StandardCombiner>; 3] = [
        GroupSimilarity::new(StandardCombiner::FunSimAvg, TlsSim),
        GroupSimilarity::new(StandardCombiner::FunSimMax, TlsSim),
        GroupSimilarity::new(StandardCombiner::Bma, TlsSim),
    ];
}
struct TlsSim;
impl Similarity for TlsSim {
    fn calculate(&self, a: &HpoTerm, b: &HpoTerm) -> f32 {
        use hpo::annotations::AnnotationId;
        CURRENT_TABLE.with(|t| *t.borrow().get(&(a.id().as_u32(), b.id().as_u32())).unwrap_or(&-1000.0))
    }
}

fn flat_ontology(ids: &[u32]) -> Ontology {
    let mut b = Builder::new();
    for id in ids {
        b.new_term(&format!("T{id}"), *id);
    }
    b.terms_complete().connect_all_terms().calculate_information_content().unwrap().build_minimal()
}

fn rat(v: &Value) -> f64 {
    v[0].as_i64().unwrap() as f64 / v[1].as_i64().unwrap() as f64
}

fn close(a: f32, want: f64) -> bool {
    a.is_finite() && ((a as f64) - want).abs() <= 1e-6 * (1.0 + want.abs())
}

fn set_of<'a>(ont: &'a Ontology, ids: &[u32]) -> HpoSet<'a> {
    let mut g = HpoGroup::new();
    // insert in reverse order: the set must still present its terms in ascending id order
    for id in ids.iter().rev() {
        g.insert(*id);
    }
    HpoSet::new(ont, g)
}

/// a "matrix" line: r x c integer matrix and the three expected rationals
fn check_matrix(st: &mut Stats, prop: &str, line: &Value, variant: u32) -> Vec<String> {
    let mut d = vec![];
    let r = line["r"].as_u64().unwrap() as usize;
    let c = line["c"].as_u64().unwrap() as usize;
    let m: Vec<Vec<f32>> = arr(&line["m"]).iter().map(|row| arr(row).iter().map(|x| x.as_i64().unwrap() as f32).collect()).collect();
    // row ids / column ids: disjoint, overlapping, or sparse
    let (row_ids, col_ids): (Vec<u32>, Vec<u32>) = match variant {
        0 => ((1..=r as u32).collect(), (101..=100 + c as u32).collect()),
        1 => ((1..=r as u32).collect(), (1..=c as u32).collect()),
        _ => {
            let stride = 9_000_000 / (r.max(1) as u32);
            ((0..r as u32).map(|i| i * stride + 7).collect(), (0..c as u32).map(|j| 9_999_999 - j * 31).rev().collect())
        }
    };
    let mut all: Vec<u32> = row_ids.iter().chain(col_ids.iter()).copied().collect();
    all.sort_unstable();
    all.dedup();
    all.push(5_000_001); // a term that is in neither set
    let ont = flat_ontology(&all);
    let mut table = HashMap::new();
    for (i, a) in row_ids.iter().enumerate() {
        for (j, b) in col_ids.iter().enumerate() {
            table.insert((*a, *b), m[i][j]);
        }
    }
    let a = set_of(&ont, &row_ids);
    let b = set_of(&ont, &col_ids);
    let flat: Vec<f32> = m.iter().flatten().copied().collect();
    CURRENT_TABLE.with(|t| *t.borrow_mut() = table.clone());
    // the same set, built through From<Vec<u32>> from a list that names every id twice (not adjacent): still that set
    let a_dup = {
        let mut v: Vec<u32> = row_ids.iter().rev().copied().collect();
        v.extend(row_ids.iter().copied());
        HpoSet::new(&ont, HpoGroup::from(v))
    };
    // growth (EXTRA): the Matrix view itself - rows() / cols() are the rows / columns of the spec's M, dim / len / is_empty
    {
        let mx = Matrix::new(r, c, &flat);
        let rows: Vec<Vec<f32>> = mx.rows().map(|row| row.copied().collect()).collect();
        let cols: Vec<Vec<f32>> = mx.cols().map(|col| col.copied().collect()).collect();
        let want_cols: Vec<Vec<f32>> = (0..c).map(|j| (0..r).map(|i| m[i][j]).collect()).collect();
        let rows_ok = if r * c == 0 { rows.iter().all(|x| x.is_empty()) } else { rows == *m };
        let cols_ok = if r * c == 0 { cols.iter().all(|x| x.is_empty()) } else { cols == want_cols };
        if !rows_ok || !cols_ok || mx.dim() != (r, c) || mx.len() != r * c || mx.is_empty() != (r * c == 0) {
            let what = format!("Matrix::new({r}, {c}, {:?}): rows() = {:?}, cols() = {:?}, dim() = {:?}, len() = {}, is_empty() = {}", flat, rows, cols, mx.dim(), mx.len(), mx.is_empty());
            if st.violations.iter().filter(|v| v.property == "EXTRA").count() < 2 {
                st.violations.push(Violation { property: "EXTRA".into(), what: what.clone(), replay: json!({"cmd": "replay-set", "property": "EXTRA", "line": line, "diffs": [what]}) });
            }
        }
        st.bump("extra_matrix_views", 1);
    }
    for (name, comb) in COMBINERS {
        let want = rat(&line[name]);
        st.evaluations += 1;
        let sim = TableSim { table: table.clone(), calls: Cell::new(0) };
        match catch(|| a.similarity(&b, ByRef(&sim), comb)) {
            Ok(got) if close(got, want) => {}
            Ok(got) => d.push(format!("HpoSet::similarity {name} on {r}x{c} matrix {:?} = {got}, expected {want}", m)),
            Err(e) => d.push(format!("HpoSet::similarity {name} panicked: {e}")),
        }
        match catch(|| GroupSimilarity::new(comb, ByRef(&sim)).calculate(&a, &b)) {
            Ok(got) if close(got, want) => {}
            Ok(got) => d.push(format!("GroupSimilarity::calculate {name} on {r}x{c} matrix {:?} = {got}, expected {want}", m)),
            Err(e) => d.push(format!("GroupSimilarity::calculate {name} panicked: {e}")),
        }
        // a GroupSimilarity object that has served every earlier case of this process
        let idx = COMBINERS.iter().position(|(n, _)| *n == name).unwrap();
        match catch(|| LONG_LIVED_GS.with(|g| g[idx].calculate(&a, &b))) {
            Ok(got) if close(got, want) => {}
            Ok(got) => d.push(format!("a long-lived GroupSimilarity ({name}) that was used for earlier comparisons gives {got} on {r}x{c} matrix {:?}, expected {want}", m)),
            Err(e) => d.push(format!("long-lived GroupSimilarity {name} panicked: {e}")),
        }
        match catch(|| a_dup.similarity(&b, ByRef(&sim), comb)) {
            Ok(got) if close(got, want) => {}
            Ok(got) => d.push(format!("HpoSet::similarity {name} with A built by HpoGroup::from(vec naming every id twice) = {got}, expected {want} ({r}x{c} matrix {:?})", m)),
            Err(e) => d.push(format!("HpoSet::similarity {name} (A from a Vec with repeated ids) panicked: {e}")),
        }
        // the combiner on a Matrix directly (row-major data)
        match catch(|| comb.calculate(&Matrix::new(r, c, &flat))) {
            Ok(got) if close(got, want) => {}
            Ok(got) => d.push(format!("SimilarityCombiner::calculate {name} on Matrix {r}x{c} {:?} = {got}, expected {want}", m)),
            Err(e) => d.push(format!("SimilarityCombiner::calculate {name} panicked: {e}")),
        }
        // caching adaptor: same result, twice
        let cached = CachedSimilarity::new(TableSim { table: table.clone(), calls: Cell::new(0) });
        for round in 0..2 {
            match catch(|| a.similarity(&b, ByRef(&cached), comb)) {
                Ok(got) if close(got, want) => {}
                Ok(got) => d.push(format!("cached (round {round}) {name} on {r}x{c} {:?} = {got}, uncached definition gives {want}", m)),
                Err(e) => d.push(format!("cached {name} panicked: {e}")),
            }
        }
        // either set empty -> 0
        let empty = set_of(&ont, &[]);
        for (what, got) in [("(A, {})", catch(|| a.similarity(&empty, ByRef(&sim), comb))), ("({}, B)", catch(|| empty.similarity(&b, ByRef(&sim), comb)))] {
            match got {
                Ok(x) if x == 0.0 => {}
                Ok(x) => d.push(format!("{name} {what} = {x}, expected 0")),
                Err(e) => d.push(format!("{name} {what} panicked: {e}")),
            }
        }
    }
    let _ = prop;
    d
}

/// a "calls" line: F on ordered pairs of ids 1..N and a sequence of set-level calls sharing one cache
fn check_calls(st: &mut Stats, line: &Value, stride: u32) -> Vec<String> {
    let mut d = vec![];
    let f: Vec<Vec<f32>> = arr(&line["f"]).iter().map(|row| arr(row).iter().map(|x| x.as_i64().unwrap() as f32).collect()).collect();
    let n = f.len() as u32;
    // stride 0: ids that differ from each other only in single high bits (5, 5 + 2^20, 5 + 2^21, ...):
    // any packing of the id pair into too few bits makes distinct pairs collide
    let id = |m: u32| if stride == 0 { if m == 1 { 5 } else { 5 + (1u32 << (18 + m)) } } else { m * stride };
    let ids: Vec<u32> = (1..=n).map(id).collect();
    let ont = flat_ontology(&ids);
    let mut table = HashMap::new();
    for a in 1..=n {
        for b in 1..=n {
            table.insert((id(a), id(b)), f[a as usize - 1][b as usize - 1]);
        }
    }
    // one cache per combiner, shared by the whole call sequence
    for (name, comb) in COMBINERS {
        let cached = CachedSimilarity::new(TableSim { table: table.clone(), calls: Cell::new(0) });
        for (i, call) in arr(&line["calls"]).iter().enumerate() {
            st.evaluations += 1;
            let a_ids: Vec<u32> = u32_list(&call["A"]).into_iter().map(id).collect();
            let b_ids: Vec<u32> = u32_list(&call["B"]).into_iter().map(id).collect();
            let a = set_of(&ont, &a_ids);
            let b = set_of(&ont, &b_ids);
            let want = rat(&call[name]);
            match catch(|| a.similarity(&b, ByRef(&cached), comb)) {
                Ok(got) if close(got, want) => {}
                Ok(got) => d.push(format!("call #{} {name}(A={:?}, B={:?}) through a shared CachedSimilarity = {got}, expected {want}", i + 1, a_ids, b_ids)),
                Err(e) => d.push(format!("call #{} {name} panicked: {e}", i + 1)),
            }
            let plain = TableSim { table: table.clone(), calls: Cell::new(0) };
            match catch(|| a.similarity(&b, ByRef(&plain), comb)) {
                Ok(got) if close(got, want) => {}
                Ok(got) => d.push(format!("call #{} {name}(A={:?}, B={:?}) uncached = {got}, expected {want}", i + 1, a_ids, b_ids)),
                Err(e) => d.push(format!("call #{} {name} uncached panicked: {e}", i + 1)),
            }
        }
    }
    d
}

pub fn replay_line(st: &mut Stats, prop: &str, idx: usize, line: &Value) {
    st.cases += 1;
    let is_matrix = line.get("m").is_some();
    let mut diffs = vec![];
    if is_matrix {
        let r = line["r"].as_u64().unwrap();
        let c = line["c"].as_u64().unwrap();
        if r != c || r * c > 1 {
            st.nontrivial += 1;
        }
        for variant in 0..3 {
            diffs.extend(check_matrix(st, prop, line, variant));
        }
    } else {
        if arr(&line["calls"]).len() > 1 {
            st.nontrivial += 1;
        }
        diffs.extend(check_calls(st, line, 1));
        diffs.extend(check_calls(st, line, 3_333_333));
        diffs.extend(check_calls(st, line, 0));
    }
    if st.samples.len() < 2 && idx % 101 == 3 {
        st.samples.push(line.clone());
    }
    if !diffs.is_empty() && st.violations.len() < 8 {
        diffs.truncate(12);
        st.violations.push(Violation {
            property: prop.to_string(),
            what: diffs[0].clone(),
            replay: json!({"cmd": "replay-set", "property": prop, "line": line, "diffs": diffs}),
        });
    }
}

pub fn run(args: &Args) {
    silence_panics();
    let Some(shard) = shard_or_spawn("replay-set", args) else { return };
    let prop = args.get("prop").unwrap_or("C05").to_string();
    let (n_all, lines) = read_tlc_lines_sharded(args.req("in"), "REPLAY", shard);
    if n_all == 0 {
        eprintln!("no REPLAY lines");
        std::process::exit(2);
    }
    let stats = run_parallel(&lines, 1, 120, |_| {}, |i, line, st| guard_case(st, &prop, "replay-set", line, |st| replay_line(st, &prop, i, line)));
    finish(stats, args.req("out"), args.req("replay-dir"), json!({"lines": lines.len()}));
}

pub fn replay_one(v: &Value) -> bool {
    silence_panics();
    let mut st = Stats::default();
    let prop = v["property"].as_str().unwrap_or("C05").to_string();
    guard_case(&mut st, &prop, "replay-set", &v["line"], |st| replay_line(st, &prop, 0, &v["line"]));
    for x in &st.violations {
        println!("reproduced: {}", x.what);
    }
    !st.violations.is_empty()
}
