//! C17: stats::Linkage against spec/HpoLinkage.tla.
//! The specification is nondeterministic (ties): the dendrogram the crate returns must be ONE of
//! the allowed merge sequences TLC computed.
use crate::util::*;
use hpo::builder::Builder;
use hpo::stats::Linkage;
use hpo::term::HpoGroup;
use hpo::annotations::AnnotationId;
use hpo::HpoSet;
use serde_json::{json, Value};

pub fn replay_line(st: &mut Stats, prop: &str, line: &Value) {
    st.cases += 1;
    st.evaluations += 1;
    st.nontrivial += 1;
    let n = line["n"].as_u64().unwrap() as usize;
    let scale = line["scale"].as_f64().unwrap() as f32;
    let union_mode = line["mode"].as_str().unwrap() == "union";
    let div = if union_mode { 1.0 } else { scale };
    let d0: Vec<f32> = arr(&line["d0"]).iter().map(|x| x.as_f64().unwrap() as f32 / div).collect();
    let w: Vec<f32> = arr(&line["w"]).iter().map(|x| x.as_f64().unwrap() as f32).collect();
    let mode = line["mode"].as_str().unwrap();
    // every call of the distance callback: the pairs it was offered, as sorted term-id lists
    let calls: std::cell::RefCell<Vec<Vec<(Vec<u32>, Vec<u32>)>>> = std::cell::RefCell::new(vec![]);
    let res = catch(|| {
        let mut b = Builder::new();
        for i in 0..n {
            b.new_term(&format!("T{i}"), 10 + i as u32);
        }
        let ont = b.terms_complete().connect_all_terms().calculate_information_content().unwrap().build_minimal();
        let sets: Vec<HpoSet> = (0..n)
            .map(|i| {
                let mut g = HpoGroup::new();
                g.insert(10 + i as u32);
                HpoSet::new(&ont, g)
            })
            .collect();
        let ids = |s: &HpoSet<'_>| -> Vec<u32> {
            let mut v: Vec<u32> = s.iter().map(|t| t.id().as_u32()).collect();
            v.sort_unstable();
            v
        };
        let weight = |v: &[u32]| -> f32 { v.iter().map(|t| w[(*t - 10) as usize]).sum() };
        let dist = |c: hpo::utils::Combinations<HpoSet<'_>>| -> Vec<f32> {
            let pairs: Vec<(Vec<u32>, Vec<u32>)> = c.map(|(a, b)| (ids(a), ids(b))).collect();
            let first = calls.borrow().is_empty();
            let out: Vec<f32> = if union_mode {
                // the user distance: |W(A) - W(B)|, a function of the CONTENT of the two sets
                pairs.iter().map(|(a, b)| (weight(a) - weight(b)).abs()).collect()
            } else if first {
                d0.iter().copied().take(pairs.len()).collect()
            } else {
                vec![f32::NAN; pairs.len()]
            };
            calls.borrow_mut().push(pairs);
            out
        };
        let l = match mode {
            "single" => Linkage::single(sets, dist),
            "complete" => Linkage::complete(sets, dist),
            "average" => Linkage::average(sets, dist),
            _ => Linkage::union(sets, dist),
        };
        let cl = l.cluster().map(|c| (c.lhs() as u64, c.rhs() as u64, c.distance(), c.len() as u64)).collect::<Vec<_>>();
        let idx: Vec<u64> = l.indicies().into_iter().map(|x| x as u64).collect();
        let into: Vec<(u64, u64, f32, u64)> = l.into_cluster().map(|c| (c.lhs() as u64, c.rhs() as u64, c.distance(), c.len() as u64)).collect();
        (cl, idx, into)
    });
    let mut d: Vec<String> = vec![];
    match res {
        Err(p) => d.push(format!("Linkage::{mode} panicked: {p}")),
        Ok((got, idx, into)) => {
            let allowed = arr(&line["allowed"]);
            let matches = |a: &Value| -> bool {
                let s = arr(&a["merges"]);
                s.len() == got.len()
                    && s.iter().zip(got.iter()).all(|(w, g)| {
                        let (wl, wr) = (w["lhs"].as_u64().unwrap(), w["rhs"].as_u64().unwrap());
                        let wd = w["dist"].as_f64().unwrap() as f32 / div;
                        ((wl, wr) == (g.0, g.1) || (wl, wr) == (g.1, g.0)) && (wd - g.2).abs() < 1e-6 && w["size"].as_u64().unwrap() == g.3
                    })
            };
            if !allowed.iter().any(matches) {
                d.push(format!("Linkage::{mode} on distances {:?} (weights {:?}) returned {:?}, which is none of the {} allowed dendrograms", d0, w, got, allowed.len()));
            }
            if into != got {
                d.push(format!("Linkage::{mode}: into_cluster() {:?} differs from cluster() {:?}", into, got));
            }
            // tree shape, independent of the tie break
            if got.len() + 1 != n {
                d.push(format!("Linkage::{mode}: {} merges for {} sets", got.len(), n));
            }
            let mut used: Vec<u64> = got.iter().flat_map(|g| [g.0, g.1]).collect();
            used.sort_unstable();
            if used != (0..(2 * n as u64).saturating_sub(2)).collect::<Vec<_>>() {
                d.push(format!("Linkage::{mode}: merged indices {:?} are not every input and intermediate cluster exactly once", used));
            }
            for (k, g) in got.iter().enumerate() {
                if g.0 >= (n + k) as u64 || g.1 >= (n + k) as u64 {
                    d.push(format!("Linkage::{mode}: merge {k} refers to cluster {} / {} which does not exist yet", g.0, g.1));
                }
            }
            if got.last().map(|g| g.3) != Some(n as u64) {
                d.push(format!("Linkage::{mode}: size of the last merge is {:?}, expected {n}", got.last().map(|g| g.3)));
            }
            // the leaf order: a permutation, and the order in which the merges mention the inputs
            let mut exp_idx: Vec<u64> = vec![];
            for g in &got {
                if g.0 < n as u64 {
                    exp_idx.push(g.0);
                }
                if g.1 < n as u64 {
                    exp_idx.push(g.1);
                }
            }
            let mut sorted = idx.clone();
            sorted.sort_unstable();
            if sorted != (0..n as u64).collect::<Vec<_>>() {
                d.push(format!("Linkage::{mode}: indicies() = {:?} is not a permutation of 0..{n}", idx));
            } else if idx != exp_idx {
                d.push(format!("Linkage::{mode}: indicies() = {:?}, the merges mention the inputs in the order {:?}", idx, exp_idx));
            }
            // the callback: first call = every unordered pair of inputs exactly once
            let calls = calls.borrow();
            let mut first: Vec<(u32, u32)> = calls.first().map(|c| c.iter().map(|(a, b)| (a[0].min(b[0]), a[0].max(b[0]))).collect()).unwrap_or_default();
            first.sort_unstable();
            let mut want: Vec<(u32, u32)> = vec![];
            for i in 0..n as u32 {
                for j in (i + 1)..n as u32 {
                    want.push((10 + i, 10 + j));
                }
            }
            if first != want || calls.first().map_or(true, |c| c.iter().any(|(a, b)| a.len() != 1 || b.len() != 1)) {
                d.push(format!("Linkage::{mode}: the first call of the distance callback offered the pairs {:?}, expected every unordered pair once: {:?}", first, want));
            }
            if !union_mode && calls.len() != 1 {
                d.push(format!("Linkage::{mode}: the distance callback was called {} times, the arithmetic methods need it once", calls.len()));
            }
            if union_mode {
                // k-th later call: new cluster (union of the merged sets) against every live set
                if calls.len() != n {
                    d.push(format!("Linkage::union: the distance callback was called {} times, expected {n} (initial + one per merge)", calls.len()));
                }
                let mut members: Vec<Vec<u32>> = (0..n as u32).map(|i| vec![10 + i]).collect();
                let mut live: Vec<bool> = vec![true; n];
                for (k, g) in got.iter().enumerate() {
                    let (a, b) = (g.0 as usize, g.1 as usize);
                    if a >= members.len() || b >= members.len() {
                        break;
                    }
                    let mut m = members[a].clone();
                    m.extend(members[b].iter().copied());
                    m.sort_unstable();
                    live[a] = false;
                    live[b] = false;
                    if let Some(call) = calls.get(k + 1) {
                        let want: Vec<(Vec<u32>, Vec<u32>)> = live.iter().enumerate().filter(|(_, l)| **l).map(|(i, _)| (m.clone(), members[i].clone())).collect();
                        let offered: Vec<(Vec<u32>, Vec<u32>)> = call.iter().take(want.len()).cloned().collect();
                        if offered != want {
                            d.push(format!("Linkage::union: after merge {k} the callback was offered {:?}, expected the union {:?} against every live set: {:?}", call, m, want));
                        }
                    }
                    members.push(m);
                    live.push(true);
                }
            }
        }
    }
    if !d.is_empty() && st.violations.len() < 4 {
        st.violations.push(Violation { property: prop.to_string(), what: d[0].clone(), replay: json!({"cmd": "replay-linkage", "property": prop, "line": line, "diffs": d}) });
    }
}

pub fn run(args: &Args) {
    silence_panics();
    let Some(shard) = shard_or_spawn("replay-linkage", args) else { return };
    let (n_all, lines) = read_tlc_lines_sharded(args.req("in"), "REPLAY", shard);
    if n_all == 0 {
        eprintln!("no REPLAY lines");
        std::process::exit(2);
    }
    let prop = args.get("prop").unwrap_or("EXTRA").to_string();
    let mut st = Stats::default();
    for l in &lines {
        guard_case(&mut st, &prop, "replay-linkage", l, |st| replay_line(st, &prop, l));
    }
    finish(st, args.req("out"), args.req("replay-dir"), json!({"lines": lines.len()}));
}
