//! Growth beyond the listed properties: stats::Linkage against spec/HpoLinkage.tla.
//! The specification is nondeterministic (ties): the dendrogram the crate returns must be ONE of
//! the allowed merge sequences TLC computed.
use crate::util::*;
use hpo::builder::Builder;
use hpo::stats::Linkage;
use hpo::term::HpoGroup;
use hpo::HpoSet;
use serde_json::{json, Value};

pub fn replay_line(st: &mut Stats, prop: &str, line: &Value) {
    st.cases += 1;
    st.evaluations += 1;
    let n = line["n"].as_u64().unwrap() as usize;
    let scale = line["scale"].as_f64().unwrap() as f32;
    let d0: Vec<f32> = arr(&line["d0"]).iter().map(|x| x.as_f64().unwrap() as f32 / scale).collect();
    let mode = line["mode"].as_str().unwrap();
    let res = catch(|| {
        let mut b = Builder::new();
        for i in 0..n {
            b.new_term(&format!("T{i}"), 10 + i as u32);
        }
        let ont = b.terms_complete().connect_all_terms().calculate_information_content().unwrap().build_minimal();
        let sets: Vec<HpoSet> = (0..n)
            .map(|i| {
                let mut g = HpoGroup::new();
                g.insert(10 + i as u32);
                HpoSet::new(&ont, g)
            })
            .collect();
        let d = d0.clone();
        let dist = move |c: hpo::utils::Combinations<HpoSet<'_>>| -> Vec<f32> {
            let cnt = c.count();
            d.iter().copied().take(cnt).collect()
        };
        let l = match mode {
            "single" => Linkage::single(sets, dist),
            "complete" => Linkage::complete(sets, dist),
            _ => Linkage::average(sets, dist),
        };
        l.cluster().map(|c| (c.lhs() as u64, c.rhs() as u64, c.distance(), c.len() as u64)).collect::<Vec<_>>()
    });
    let mut d: Vec<String> = vec![];
    match res {
        Err(p) => d.push(format!("Linkage::{mode} panicked: {p}")),
        Ok(got) => {
            let allowed = arr(&line["allowed"]);
            let matches = |seq: &Value| -> bool {
                let s = arr(seq);
                s.len() == got.len()
                    && s.iter().zip(got.iter()).all(|(w, g)| {
                        let (wl, wr) = (w["lhs"].as_u64().unwrap(), w["rhs"].as_u64().unwrap());
                        let wd = w["dist"].as_f64().unwrap() as f32 / scale;
                        ((wl, wr) == (g.0, g.1) || (wl, wr) == (g.1, g.0)) && (wd - g.2).abs() < 1e-6 && w["size"].as_u64().unwrap() == g.3
                    })
            };
            if !allowed.iter().any(matches) {
                d.push(format!("Linkage::{mode} on distances {:?} returned {:?}, which is none of the {} allowed dendrograms", d0, got, allowed.len()));
            }
        }
    }
    if !d.is_empty() && st.violations.len() < 4 {
        st.violations.push(Violation { property: prop.to_string(), what: d[0].clone(), replay: json!({"cmd": "replay-linkage", "property": prop, "line": line, "diffs": d}) });
    }
}

pub fn run(args: &Args) {
    silence_panics();
    let Some(shard) = shard_or_spawn("replay-linkage", args) else { return };
    let (n_all, lines) = read_tlc_lines_sharded(args.req("in"), "REPLAY", shard);
    if n_all == 0 {
        eprintln!("no REPLAY lines");
        std::process::exit(2);
    }
    let prop = args.get("prop").unwrap_or("EXTRA").to_string();
    let mut st = Stats::default();
    for l in &lines {
        guard_case(&mut st, &prop, "replay-linkage", l, |st| replay_line(st, &prop, l));
    }
    finish(st, args.req("out"), args.req("replay-dir"), json!({"lines": lines.len()}));
}
