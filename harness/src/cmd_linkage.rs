//! C17: stats::Linkage against spec/HpoLinkage.tla.
//! The specification is nondeterministic (ties): the dendrogram the crate returns must be ONE of
//! the allowed merge sequences TLC computed.
use crate::util::*;
use hpo::stats::Linkage;
use hpo::term::HpoGroup;
use hpo::annotations::AnnotationId;
use hpo::HpoSet;
use serde_json::{json, Value};

/// The ontology the clustered sets live in: HP:1, HP:118 and one term per item (ids 10, 11, ...) below HP:118, loaded
/// from a binary file so that the items carry metadata a clustering must ignore: every third item is flagged obsolete,
/// every third names a replacement.
fn item_ontology(n_items: usize) -> hpo::Ontology {
    use crate::scenario::{Scenario, TermSpec};
    let mut scn = Scenario::default();
    scn.version = (2024, 1, 1);
    scn.terms.push(TermSpec { id: 1, name: "All".into(), obsolete: false, repl: None });
    scn.terms.push(TermSpec { id: 118, name: "Phenotypic abnormality".into(), obsolete: false, repl: None });
    scn.edges.push((1, 118));
    for i in 0..n_items as u32 {
        scn.terms.push(TermSpec { id: 10 + i, name: format!("T{i}"), obsolete: i % 3 == 1, repl: if i % 3 == 2 { Some(118) } else { None } });
        scn.edges.push((118, 10 + i));
    }
    let bytes = crate::enc::encode(&crate::enc::abstract_of_ordered(&scn, false), 3);
    crate::paths::from_bytes(&bytes).expect("item ontology loads")
}

pub fn replay_line(st: &mut Stats, prop: &str, line: &Value) {
    st.cases += 1;
    st.evaluations += 1;
    st.nontrivial += 1;
    let n = line["n"].as_u64().unwrap() as usize;
    let scale = line["scale"].as_f64().unwrap() as f32;
    let union_mode = line["mode"].as_str().unwrap() == "union";
    let div = if union_mode { 1.0 } else { scale };
    let inf = line["inf"].as_f64().unwrap_or(f64::MAX);
    let conv = |x: f64| -> f32 { if x == inf { f32::INFINITY } else { x as f32 / div } };
    let d0: Vec<f32> = arr(&line["d0"]).iter().map(|x| conv(x.as_f64().unwrap())).collect();
    // union mode: every input is a set of items (they may overlap), every item has a weight
    let w: Vec<f32> = arr(&line["iw"]).iter().map(|x| x.as_f64().unwrap() as f32).collect();
    let input_sets: Vec<Vec<u32>> = arr(&line["sets"]).iter().map(|s| u32_list(s).into_iter().map(|i| 10 + i).collect()).collect();
    let n_items = w.len().max(n);
    let mode = line["mode"].as_str().unwrap();
    // every call of the distance callback: the pairs it was offered, as sorted term-id lists
    let calls: std::cell::RefCell<Vec<Vec<(Vec<u32>, Vec<u32>)>>> = std::cell::RefCell::new(vec![]);
    let res = catch(|| {
        let ont = item_ontology(n_items);
        let sets: Vec<HpoSet> = (0..n)
            .map(|i| {
                let mut g = HpoGroup::new();
                for t in &input_sets[i] {
                    g.insert(*t);
                }
                HpoSet::new(&ont, g)
            })
            .collect();
        let ids = |s: &HpoSet<'_>| -> Vec<u32> {
            let mut v: Vec<u32> = s.iter().map(|t| t.id().as_u32()).collect();
            v.sort_unstable();
            v
        };
        let weight = |v: &[u32]| -> f32 { v.iter().map(|t| w[(*t - 10) as usize]).sum() };
        let dist = |c: hpo::utils::Combinations<HpoSet<'_>>| -> Vec<f32> {
            let pairs: Vec<(Vec<u32>, Vec<u32>)> = c.map(|(a, b)| (ids(a), ids(b))).collect();
            let first = calls.borrow().is_empty();
            let out: Vec<f32> = if union_mode {
                // the user distance: |W(A) - W(B)|, a function of the CONTENT of the two sets
                pairs.iter().map(|(a, b)| (weight(a) - weight(b)).abs()).collect()
            } else if first {
                d0.iter().copied().take(pairs.len()).collect()
            } else {
                vec![f32::NAN; pairs.len()]
            };
            calls.borrow_mut().push(pairs);
            out
        };
        // the sets are handed over as an iterator; its size hint may promise more than it yields (two extra sets are filtered
        // out again) or nothing at all (from_fn): the clustering is about the sets that ARE yielded
        let form = fnv(&line.to_string()) % 3;
        let extra: Vec<HpoSet> = (0..2).map(|_| HpoSet::new(&ont, HpoGroup::new())).collect();
        let mut plain = sets.into_iter();
        let boxed: Box<dyn Iterator<Item = HpoSet>> = match form {
            0 => Box::new(plain),
            1 => Box::new(plain.chain(extra).enumerate().filter(move |(i, _)| *i < n).map(|(_, s)| s)),
            _ => Box::new(std::iter::from_fn(move || plain.next())),
        };
        let l = match mode {
            "single" => Linkage::single(boxed, dist),
            "complete" => Linkage::complete(boxed, dist),
            "average" => Linkage::average(boxed, dist),
            _ => Linkage::union(boxed, dist),
        };
        let cl = l.cluster().map(|c| (c.lhs() as u64, c.rhs() as u64, c.distance(), c.len() as u64)).collect::<Vec<_>>();
        let idx: Vec<u64> = l.indicies().into_iter().map(|x| x as u64).collect();
        // the other views of the same dendrogram: exact size, back to front, `for c in &linkage`, mixed ends
        let tup = |c: &hpo::stats::cluster::Cluster| (c.lhs() as u64, c.rhs() as u64, c.distance(), c.len() as u64);
        let mut views_ok = l.cluster().len() == cl.len();
        let mut back: Vec<_> = l.cluster().rev().map(tup).collect();
        back.reverse();
        views_ok &= back == cl;
        views_ok &= (&l).into_iter().map(tup).collect::<Vec<_>>() == cl;
        let mut it = l.cluster();
        let (mut front, mut tail) = (vec![], vec![]);
        let mut turn = 0;
        loop {
            turn += 1;
            let x = if turn % 3 == 0 { it.next_back().map(|c| tail.push(tup(c))) } else { it.next().map(|c| front.push(tup(c))) };
            if x.is_none() || turn > 10_000 {
                break;
            }
            views_ok &= it.len() + front.len() + tail.len() == cl.len();
        }
        tail.reverse();
        front.extend(tail);
        views_ok &= front == cl;
        if !views_ok {
            panic!("the views of the dendrogram disagree: cluster() {:?}, reversed {:?}, mixed ends {:?}", cl, back, front);
        }
        let into: Vec<(u64, u64, f32, u64)> = l.into_cluster().map(|c| (c.lhs() as u64, c.rhs() as u64, c.distance(), c.len() as u64)).collect();
        (cl, idx, into)
    });
    let mut d: Vec<String> = vec![];
    match res {
        Err(p) => d.push(format!("Linkage::{mode} panicked: {p}")),
        Ok((got, idx, into)) => {
            let allowed = arr(&line["allowed"]);
            let matches = |a: &Value| -> bool {
                let s = arr(&a["merges"]);
                s.len() == got.len()
                    && s.iter().zip(got.iter()).all(|(w, g)| {
                        let (wl, wr) = (w["lhs"].as_u64().unwrap(), w["rhs"].as_u64().unwrap());
                        let wd = conv(w["dist"].as_f64().unwrap());
                        ((wl, wr) == (g.0, g.1) || (wl, wr) == (g.1, g.0)) && (wd == g.2 || (wd - g.2).abs() < 1e-6) && w["size"].as_u64().unwrap() == g.3
                    })
            };
            if !allowed.iter().any(matches) {
                d.push(format!("Linkage::{mode} on distances {:?} (sets {:?}, item weights {:?}) returned {:?}, which is none of the {} allowed dendrograms", d0, input_sets, w, got, allowed.len()));
            }
            if into != got {
                d.push(format!("Linkage::{mode}: into_cluster() {:?} differs from cluster() {:?}", into, got));
            }
            // tree shape, independent of the tie break
            if got.len() + 1 != n {
                d.push(format!("Linkage::{mode}: {} merges for {} sets", got.len(), n));
            }
            let mut used: Vec<u64> = got.iter().flat_map(|g| [g.0, g.1]).collect();
            used.sort_unstable();
            if used != (0..(2 * n as u64).saturating_sub(2)).collect::<Vec<_>>() {
                d.push(format!("Linkage::{mode}: merged indices {:?} are not every input and intermediate cluster exactly once", used));
            }
            for (k, g) in got.iter().enumerate() {
                if g.0 >= (n + k) as u64 || g.1 >= (n + k) as u64 {
                    d.push(format!("Linkage::{mode}: merge {k} refers to cluster {} / {} which does not exist yet", g.0, g.1));
                }
            }
            if got.last().map(|g| g.3) != Some(n as u64) {
                d.push(format!("Linkage::{mode}: size of the last merge is {:?}, expected {n}", got.last().map(|g| g.3)));
            }
            // the leaf order: a permutation, and the order in which the merges mention the inputs
            let mut exp_idx: Vec<u64> = vec![];
            for g in &got {
                if g.0 < n as u64 {
                    exp_idx.push(g.0);
                }
                if g.1 < n as u64 {
                    exp_idx.push(g.1);
                }
            }
            let mut sorted = idx.clone();
            sorted.sort_unstable();
            if sorted != (0..n as u64).collect::<Vec<_>>() {
                d.push(format!("Linkage::{mode}: indicies() = {:?} is not a permutation of 0..{n}", idx));
            } else if idx != exp_idx && st.violations.iter().filter(|v| v.property == "EXTRA").count() < 2 {
                // the property asks for a permutation; WHICH one (the crate documents: the order in which the merges mention the inputs) is
                // behaviour specified beyond the listed properties
                let what = format!("Linkage::{mode}: indicies() = {:?}, the merges mention the inputs in the order {:?}", idx, exp_idx);
                st.violations.push(Violation { property: "EXTRA".into(), what: what.clone(), replay: json!({"cmd": "replay-linkage", "property": "EXTRA", "line": line, "diffs": [what]}) });
            }
            // the callback: first call = every unordered pair of inputs exactly once
            let calls = calls.borrow();
            let norm = |a: &Vec<u32>, b: &Vec<u32>| -> (Vec<u32>, Vec<u32>) { if a <= b { (a.clone(), b.clone()) } else { (b.clone(), a.clone()) } };
            let mut first: Vec<(Vec<u32>, Vec<u32>)> = calls.first().map(|c| c.iter().map(|(a, b)| norm(a, b)).collect()).unwrap_or_default();
            first.sort();
            let mut want: Vec<(Vec<u32>, Vec<u32>)> = vec![];
            for i in 0..n {
                for j in (i + 1)..n {
                    want.push(norm(&input_sets[i], &input_sets[j]));
                }
            }
            want.sort();
            if first != want {
                d.push(format!("Linkage::{mode}: the first call of the distance callback offered the pairs {:?}, expected every unordered pair of inputs once: {:?}", first, want));
            }
            if union_mode {
                // k-th later call: new cluster (union of the merged sets) against every live set
                // initial call + one per merge; the call after the last merge has nothing to offer and is optional
                if calls.len() != n && calls.len() + 1 != n {
                    d.push(format!("Linkage::union: the distance callback was called {} times, expected {n} (initial + one per merge)", calls.len()));
                }
                let mut members: Vec<Vec<u32>> = input_sets.clone();
                let mut live: Vec<bool> = vec![true; n];
                for (k, g) in got.iter().enumerate() {
                    let (a, b) = (g.0 as usize, g.1 as usize);
                    if a >= members.len() || b >= members.len() {
                        break;
                    }
                    let mut m = members[a].clone();
                    m.extend(members[b].iter().copied());
                    m.sort_unstable();
                    m.dedup();
                    live[a] = false;
                    live[b] = false;
                    if let Some(call) = calls.get(k + 1) {
                        let want: Vec<(Vec<u32>, Vec<u32>)> = live.iter().enumerate().filter(|(_, l)| **l).map(|(i, _)| (m.clone(), members[i].clone())).collect();
                        let offered: Vec<(Vec<u32>, Vec<u32>)> = call.iter().take(want.len()).cloned().collect();
                        if offered != want {
                            d.push(format!("Linkage::union: after merge {k} the callback was offered {:?}, expected the union {:?} against every live set: {:?}", call, m, want));
                        }
                    }
                    members.push(m);
                    live.push(true);
                }
            }
        }
    }
    if !d.is_empty() && st.violations.len() < 4 {
        st.violations.push(Violation { property: prop.to_string(), what: d[0].clone(), replay: json!({"cmd": "replay-linkage", "property": prop, "line": line, "diffs": d}) });
    }
}

pub fn run(args: &Args) {
    silence_panics();
    let Some(shard) = shard_or_spawn("replay-linkage", args) else { return };
    let (n_all, lines) = read_tlc_lines_sharded(args.req("in"), "REPLAY", shard);
    if n_all == 0 {
        eprintln!("no REPLAY lines");
        std::process::exit(2);
    }
    let prop = args.get("prop").unwrap_or("EXTRA").to_string();
    let mut st = Stats::default();
    for l in &lines {
        guard_case(&mut st, &prop, "replay-linkage", l, |st| replay_line(st, &prop, l));
    }
    finish(st, args.req("out"), args.req("replay-dir"), json!({"lines": lines.len()}));
}

/// impl -> spec: random runs of Linkage recorded for spec/trace/TraceLinkage.tla, one trace file per
/// (number of inputs, mode): `<trace>.<n>.<mode>`.
pub fn record(args: &Args) {
    silence_panics();
    let seed = args.num("seed", 1);
    let runs = args.num("runs", 100);
    let max_n = args.num("max-n", 12);
    let prefix = args.req("trace").to_string();
    let mut files: std::collections::BTreeMap<(usize, String), Vec<String>> = Default::default();
    let mut index = vec![];
    let mut rng = Rng::new(seed.wrapping_mul(0x9E37_79B9).wrapping_add(17));
    let modes = ["single", "complete", "average", "union"];
    const INF: i64 = 1 << 30;
    for run in 0..runs {
        // every `big_every`-th run clusters 31..100 sets (sizes around 32 / 64 and beyond): single / complete / union only,
        // the repeated halving of the average linkage would leave the exact integer range
        let big_every = args.num("big-every", 0);
        let big = big_every > 0 && run % big_every == big_every - 1;
        let mode = if big { ["single", "complete", "union"][(run / big_every.max(1) % 3) as usize] } else { modes[(run % 4) as usize] };
        let big_sizes: &[usize] = if args.num("big-max", 33) > 33 { &[31, 32, 33, 64, 65, 100] } else { &[31, 32, 33] };
        let n = if big { *rng.pick(big_sizes) } else { rng.range(2, max_n) as usize };
        let scale: i64 = if big { 1 } else { 1 << n };
        let npairs = n * (n - 1) / 2;
        // inputs: union mode = random non-empty subsets of 2..7 items with weights 2^i (every subset has its own weight);
        // every fifth union run uses disjoint singletons.  arithmetic modes: singletons, free matrix.
        let n_items = if mode == "union" && run % 5 != 4 { rng.range(2, 7) as usize } else { n };
        let sets: Vec<Vec<u32>> = (0..n)
            .map(|i| {
                if n_items == n && !(mode == "union" && run % 5 != 4) {
                    vec![i as u32]
                } else {
                    let mut s: Vec<u32> = (0..n_items as u32).filter(|_| rng.chance(1, 2)).collect();
                    if s.is_empty() && run % 7 != 3 {
                        s.push(rng.below(n_items as u64) as u32); // (every seventh run keeps empty input sets)
                    }
                    s
                }
            })
            .collect();
        // weights 2^i give every subset its own weight; beyond 20 items (disjoint singletons only) small distinct weights
        let iw: Vec<i64> = (0..n_items).map(|i| if n_items > 20 { (i * i + 3 * i + 1) as i64 } else { 1i64 << i }).collect();
        let weight = |v: &[u32]| -> i64 { v.iter().map(|t| iw[*t as usize]).sum() };
        // the initial matrix in the order of Combinations (i < j, lexicographic)
        let style = rng.below(10);
        let mut vals: Vec<i64> = (1..=(npairs as i64 * 3)).collect();
        rng.shuffle(&mut vals);
        let mut d0: Vec<i64> = vec![];
        let mut k = 0;
        for i in 0..n {
            for j in (i + 1)..n {
                let v = if mode == "union" {
                    (weight(&sets[i]) - weight(&sets[j])).abs()
                } else if style == 2 {
                    (vals[k] - npairs as i64) * scale // tie free, about a third of the distances negative (a user function may return e.g. -similarity)
                } else if style == 0 {
                    (1 + rng.below(3) as i64) * scale // many ties
                } else if style == 1 && rng.chance(1, 4) {
                    INF
                } else {
                    vals[k] * scale // tie free
                };
                k += 1;
                d0.push(v);
            }
        }
        let to_f = |v: i64| -> f32 { if v >= INF { f32::INFINITY } else if mode == "union" { v as f32 } else { v as f32 / scale as f32 } };
        let from_f = |x: f32| -> i64 {
            if x.is_infinite() && x > 0.0 {
                return INF;
            }
            let y = if mode == "union" { x as f64 } else { x as f64 * scale as f64 };
            if (y - y.round()).abs() < 1e-6 && y.abs() < 9.0e8 { y.round() as i64 } else { -999_999_937 } // (sentinel: not an exact scaled integer)
        };
        let calls: std::cell::RefCell<Vec<Vec<(Vec<u32>, Vec<u32>)>>> = std::cell::RefCell::new(vec![]);
        let res = catch(|| {
            let ont = item_ontology(n_items.max(n));
            let hsets: Vec<HpoSet> = sets
                .iter()
                .map(|s| {
                    let mut g = HpoGroup::new();
                    for t in s {
                        g.insert(10 + *t);
                    }
                    HpoSet::new(&ont, g)
                })
                .collect();
            let ids = |s: &HpoSet<'_>| -> Vec<u32> {
                let mut v: Vec<u32> = s.iter().map(|t| t.id().as_u32() - 10).collect();
                v.sort_unstable();
                v
            };
            let dist = |c: hpo::utils::Combinations<HpoSet<'_>>| -> Vec<f32> {
                let pairs: Vec<(Vec<u32>, Vec<u32>)> = c.map(|(a, b)| (ids(a), ids(b))).collect();
                let first = calls.borrow().is_empty();
                let out: Vec<f32> = if mode == "union" {
                    pairs.iter().map(|(a, b)| (weight(a) - weight(b)).abs() as f32).collect()
                } else if first {
                    d0.iter().map(|v| to_f(*v)).take(pairs.len()).collect()
                } else {
                    vec![f32::NAN; pairs.len()]
                };
                calls.borrow_mut().push(pairs);
                out
            };
            let l = match mode {
                "single" => Linkage::single(hsets, dist),
                "complete" => Linkage::complete(hsets, dist),
                "average" => Linkage::average(hsets, dist),
                _ => Linkage::union(hsets, dist),
            };
            let cl = l.cluster().map(|c| (c.lhs() as u64, c.rhs() as u64, c.distance(), c.len() as u64)).collect::<Vec<_>>();
            let idx: Vec<u64> = l.indicies().into_iter().map(|x| x as u64).collect();
            (cl, idx)
        });
        let norm = |a: &Vec<u32>, b: &Vec<u32>| -> Value { if a <= b { json!([a, b]) } else { json!([b, a]) } };
        let out = files.entry((n, mode.to_string())).or_default();
        let first_line = out.len() + 1;
        let calls = calls.borrow();
        let first: Vec<Value> = calls.first().map(|c| c.iter().map(|(a, b)| norm(a, b)).collect()).unwrap_or_default();
        out.push(json!({"e": "Start", "run": run, "n": n, "mode": mode, "scale": scale, "d0": d0, "sets": sets, "iw": iw, "first": first}).to_string());
        match res {
            Err(p) => out.push(json!({"e": "Panicked", "run": run, "msg": p}).to_string()),
            Ok((cl, idx)) => {
                for (k, g) in cl.iter().enumerate() {
                    let offered: Vec<Value> = if mode == "union" { calls.get(k + 1).map(|c| c.iter().map(|(a, b)| norm(a, b)).collect()).unwrap_or_default() } else { vec![] };
                    out.push(json!({"e": "Merge", "run": run, "lhs": g.0, "rhs": g.1, "dist": from_f(g.2), "size": g.3, "offered": offered}).to_string());
                }
                out.push(json!({"e": "Done", "run": run, "indices": idx, "ncalls": calls.len()}).to_string());
            }
        }
        index.push(json!({"run": run, "n": n, "mode": mode, "first_line": first_line, "last_line": out.len()}));
    }
    let mut groups = vec![];
    for ((n, mode), lines) in &files {
        let name = format!("{prefix}.{n}.{mode}");
        std::fs::write(&name, lines.join("\n") + "\n").expect("write trace");
        groups.push(json!({"n": n, "mode": mode, "file": name, "events": lines.len()}));
    }
    let total: usize = files.values().map(|l| l.len()).sum();
    let summary = json!({"cases": runs, "evaluations": total, "nontrivial": runs, "counters": {"linkage_events": total}, "samples": [], "violations": [], "extra": {"groups": groups, "runs": index}});
    std::fs::write(args.req("out"), serde_json::to_string(&summary).unwrap()).expect("write summary");
}

pub fn replay_one(v: &Value) -> bool {
    silence_panics();
    let mut st = Stats::default();
    let prop = v["property"].as_str().unwrap_or("C17").to_string();
    guard_case(&mut st, &prop, "replay-linkage", &v["line"], |st| replay_line(st, &prop, &v["line"]));
    let mut hit = false;
    for x in st.violations.iter().filter(|x| x.property == prop) {
        println!("reproduced: {}", x.what);
        hit = true;
    }
    hit
}
