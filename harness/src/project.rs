//! The one projection of a real `Ontology` onto the abstract state of the specification,
//! using only the public read API, and its comparison with an `Expected`.
use crate::scenario::*;
use crate::util::catch;
use hpo::annotations::{AnnotationId, Disease, GeneId, OmimDiseaseId, OrphaDiseaseId};
use hpo::term::InformationContentKind;
use hpo::{HpoTermId, Ontology};
use std::collections::BTreeSet;

#[derive(Clone, Copy, PartialEq, Eq, Debug)]
pub enum Focus {
    /// C01: parents / children / ancestors / child_of / parent_of / iteration
    Struct,
    /// C02: inherited links, records, resolvability, no leaks
    Ann,
    /// C03: information content
    Ic,
    /// names, obsolete, replacement, version, categories, modifiers (C07, C09)
    Meta,
}

pub fn focus_for(prop: &str) -> Vec<Focus> {
    match prop {
        "C01" => vec![Focus::Struct],
        "C02" => vec![Focus::Ann],
        "C03" => vec![Focus::Ic],
        _ => vec![Focus::Struct, Focus::Ann, Focus::Ic, Focus::Meta],
    }
}

fn ids<'a, I: IntoIterator<Item = HpoTermId>>(i: I) -> BTreeSet<u32> {
    i.into_iter().map(|x| x.as_u32()).collect()
}

pub fn ic_expected(n: usize, total: usize) -> f64 {
    if n == 0 || total == 0 {
        0.0
    } else {
        -((n as f64) / (total as f64)).ln()
    }
}

pub fn close_f32(actual: f32, expected: f64, rel: f64, abs: f64) -> bool {
    let a = actual as f64;
    if !a.is_finite() {
        return false;
    }
    (a - expected).abs() <= abs + rel * expected.abs()
}

pub fn ic_kind(k: Kind) -> InformationContentKind {
    match k {
        Kind::Gene => InformationContentKind::Gene,
        Kind::Omim => InformationContentKind::Omim,
        Kind::Orpha => InformationContentKind::Orpha,
    }
}

/// An id group of the public API must BEHAVE like the expected set: iteration, length (no
/// duplicates) and membership queries (`contains` relies on the group being sorted).
fn group_diff(g: &hpo::term::HpoGroup, want: &BTreeSet<u32>) -> Option<String> {
    let got: Vec<u32> = g.iter().map(|x| x.as_u32()).collect();
    let gs: BTreeSet<u32> = got.iter().copied().collect();
    if &gs != want {
        return Some(format!("iterates {:?}, expected {:?}", got, want));
    }
    if got.len() != want.len() || g.len() != want.len() {
        return Some(format!("has duplicates / wrong len(): {:?} (len {})", got, g.len()));
    }
    for x in want {
        if !g.contains(&HpoTermId::from(*x)) {
            return Some(format!("contains({x}) is false although the group iterates {:?}", got));
        }
        for y in [x.wrapping_sub(1), x.wrapping_add(1)] {
            if !want.contains(&y) && g.contains(&HpoTermId::from(y)) {
                return Some(format!("contains({y}) is true although the group iterates {:?}", got));
            }
        }
    }
    None
}

macro_rules! diff {
    ($d:expr, $($arg:tt)*) => { if $d.len() < 12 { $d.push(format!($($arg)*)); } };
}

/// Compare; returns human readable differences (empty = conforms).
pub fn compare(ont: &Ontology, exp: &Expected, focus: &[Focus]) -> Vec<String> {
    let mut d: Vec<String> = vec![];
    let f = |x: Focus| focus.contains(&x);

    // ---- term universe (needed by every focus; reported under Struct only) ----
    let iter_ids: Vec<u32> = ont.iter().map(|t| t.id().as_u32()).collect();
    if f(Focus::Struct) {
        if ont.len() != exp.terms.len() {
            diff!(d, "len() = {} but {} terms expected", ont.len(), exp.terms.len());
        }
        let set: BTreeSet<u32> = iter_ids.iter().copied().collect();
        if set.len() != iter_ids.len() {
            diff!(d, "iter() yields a term more than once: {:?}", iter_ids);
        }
        let want: BTreeSet<u32> = exp.terms.keys().copied().collect();
        if set != want {
            diff!(d, "iter() yields {:?}, expected terms {:?}", set, want);
        }
    }
    for (id, et) in &exp.terms {
        let Some(term) = ont.hpo(*id) else {
            if f(Focus::Struct) {
                diff!(d, "term {id} missing");
            }
            continue;
        };
        if f(Focus::Struct) {
            if term.id().as_u32() != *id {
                diff!(d, "hpo({id}) returned term {}", term.id());
            }
            let p = ids(term.parent_ids());
            if p != et.parents {
                diff!(d, "term {id}: parent_ids {:?} expected {:?}", p, et.parents);
            }
            let c = ids(term.children_ids());
            if c != et.children {
                diff!(d, "term {id}: children_ids {:?} expected {:?}", c, et.children);
            }
            let a = ids(term.all_parent_ids());
            if a != et.allp {
                diff!(d, "term {id}: all_parent_ids {:?} expected closure {:?}", a, et.allp);
            }
            if term.all_parent_ids().len() != a.len() {
                diff!(d, "term {id}: all_parent_ids contains duplicates");
            }
            for (what, g, want) in [("parent_ids", term.parent_ids(), &et.parents), ("children_ids", term.children_ids(), &et.children), ("all_parent_ids", term.all_parent_ids(), &et.allp)] {
                if let Some(e) = group_diff(g, want) {
                    diff!(d, "term {id}: {what} {e}");
                }
            }
            // resolving iterators
            match catch(|| {
                (
                    term.parents().map(|t| t.id().as_u32()).collect::<BTreeSet<u32>>(),
                    term.children().map(|t| t.id().as_u32()).collect::<BTreeSet<u32>>(),
                    term.all_parents().map(|t| t.id().as_u32()).collect::<BTreeSet<u32>>(),
                )
            }) {
                Ok((rp, rc, ra)) => {
                    if rp != et.parents {
                        diff!(d, "term {id}: parents() {:?} expected {:?}", rp, et.parents);
                    }
                    if rc != et.children {
                        diff!(d, "term {id}: children() {:?} expected {:?}", rc, et.children);
                    }
                    if ra != et.allp {
                        diff!(d, "term {id}: all_parents() {:?} expected {:?}", ra, et.allp);
                    }
                }
                Err(e) => diff!(d, "term {id}: resolving parents()/children()/all_parents() panicked: {e}"),
            }
            // child_of / parent_of = membership in the closure, for every ordered pair
            for (other, eo) in &exp.terms {
                if let Some(o) = ont.hpo(*other) {
                    let want = et.allp.contains(other);
                    if term.child_of(&o) != want {
                        diff!(d, "{id}.child_of({other}) = {} expected {}", term.child_of(&o), want);
                    }
                    let wantp = eo.allp.contains(id);
                    if term.parent_of(&o) != wantp {
                        diff!(d, "{id}.parent_of({other}) = {} expected {}", term.parent_of(&o), wantp);
                    }
                }
            }
        }
        if f(Focus::Ann) {
            let g: BTreeSet<u32> = term.gene_ids().iter().map(|x| x.as_u32()).collect();
            let o: BTreeSet<u32> = term.omim_disease_ids().iter().map(|x| x.as_u32()).collect();
            let r: BTreeSet<u32> = term.orpha_disease_ids().iter().map(|x| x.as_u32()).collect();
            for (k, got) in [(Kind::Gene, &g), (Kind::Omim, &o), (Kind::Orpha, &r)] {
                if got != &et.ann[k as usize] {
                    diff!(d, "term {id}: {} ids {:?} expected {:?}", k.name(), got, et.ann[k as usize]);
                }
            }
            // resolving iterators: every id must resolve to a record of the same kind
            match catch(|| {
                (
                    term.genes().map(|x| x.id().as_u32()).collect::<BTreeSet<u32>>(),
                    term.omim_diseases().map(|x| x.id().as_u32()).collect::<BTreeSet<u32>>(),
                    term.orpha_diseases().map(|x| x.id().as_u32()).collect::<BTreeSet<u32>>(),
                )
            }) {
                Ok((rg, ro, rr)) => {
                    for (k, got) in [(Kind::Gene, &rg), (Kind::Omim, &ro), (Kind::Orpha, &rr)] {
                        if got != &et.ann[k as usize] {
                            diff!(d, "term {id}: resolved {}s {:?} expected {:?}", k.name(), got, et.ann[k as usize]);
                        }
                    }
                }
                Err(e) => diff!(d, "term {id}: an annotation id does not resolve to a record: {e}"),
            }
        }
        if f(Focus::Ic) {
            let ic = term.information_content();
            for k in KINDS {
                let want = ic_expected(et.ann[k as usize].len(), exp.n_total(k));
                let got = match k {
                    Kind::Gene => ic.gene(),
                    Kind::Omim => ic.omim_disease(),
                    Kind::Orpha => ic.orpha_disease(),
                };
                let got2 = ic.get_kind(&ic_kind(k));
                if !close_f32(got, want, 1e-5, 1e-6) {
                    diff!(d, "term {id}: IC({}) = {} expected -ln({}/{}) = {}", k.name(), got, et.ann[k as usize].len(), exp.n_total(k), want);
                }
                if got.to_bits() != got2.to_bits() {
                    diff!(d, "term {id}: get_kind({}) = {} differs from accessor {}", k.name(), got2, got);
                }
                if !(got >= 0.0) || !got.is_finite() {
                    diff!(d, "term {id}: IC({}) = {} is negative or not finite", k.name(), got);
                }
                // monotone among annotated terms: ancestor <= descendant
                if !et.ann[k as usize].is_empty() {
                    for a in &et.allp {
                        if let Some(at) = ont.hpo(*a) {
                            let ga = at.information_content().get_kind(&ic_kind(k));
                            if ga > got + 1e-6 {
                                diff!(d, "IC({}) decreases from ancestor {a} ({ga}) to descendant {id} ({got})", k.name());
                            }
                        }
                    }
                }
            }
        }
        if f(Focus::Meta) {
            if term.name() != et.name {
                diff!(d, "term {id}: name {:?} expected {:?}", term.name(), et.name);
            }
            if term.is_obsolete() != et.obsolete {
                diff!(d, "term {id}: obsolete {} expected {}", term.is_obsolete(), et.obsolete);
            }
            let r = term.replacement_id().map(|x| x.as_u32());
            if r != et.repl {
                diff!(d, "term {id}: replacement {:?} expected {:?}", r, et.repl);
            }
            let cats: BTreeSet<u32> = term.categories().iter().map(|x| x.as_u32()).collect();
            let mut anc_self = et.allp.clone();
            anc_self.insert(*id);
            let want: BTreeSet<u32> = exp.category_roots().intersection(&anc_self).copied().collect();
            if cats != want {
                diff!(d, "term {id}: categories {:?} expected {:?}", cats, want);
            }
            let wm = exp.modifier_roots().intersection(&anc_self).next().is_some();
            if term.is_modifier() != wm {
                diff!(d, "term {id}: is_modifier {} expected {}", term.is_modifier(), wm);
            }
        }
    }
    if f(Focus::Ann) {
        // records: exactly the expected ids per kind, each with exactly its direct terms
        let g: BTreeSet<u32> = ont.genes().map(|x| x.id().as_u32()).collect();
        let o: BTreeSet<u32> = ont.omim_diseases().map(|x| x.id().as_u32()).collect();
        let r: BTreeSet<u32> = ont.orpha_diseases().map(|x| x.id().as_u32()).collect();
        for (k, got) in [(Kind::Gene, &g), (Kind::Omim, &o), (Kind::Orpha, &r)] {
            let want: BTreeSet<u32> = exp.recs[k as usize].keys().copied().collect();
            if got != &want {
                diff!(d, "{} records {:?} expected {:?}", k.name(), got, want);
            }
        }
        for k in KINDS {
            for (x, er) in &exp.recs[k as usize] {
                let grp: Option<&hpo::term::HpoGroup> = match k {
                    Kind::Gene => ont.gene(&GeneId::from(*x)).map(|g| g.hpo_terms()),
                    Kind::Omim => ont.omim_disease(&OmimDiseaseId::from(*x)).map(|g| g.hpo_terms()),
                    Kind::Orpha => ont.orpha_disease(&OrphaDiseaseId::from(*x)).map(|g| g.hpo_terms()),
                };
                if let Some(g) = grp {
                    if let Some(e) = group_diff(g, &er.hpos) {
                        diff!(d, "{} {x}: hpo_terms {e}", k.name());
                    }
                }
                let got: Option<(u32, String, BTreeSet<u32>)> = match k {
                    Kind::Gene => ont.gene(&GeneId::from(*x)).map(|g| (g.id().as_u32(), g.name().to_string(), ids(g.hpo_terms()))),
                    Kind::Omim => ont.omim_disease(&OmimDiseaseId::from(*x)).map(|g| (g.id().as_u32(), g.name().to_string(), ids(g.hpo_terms()))),
                    Kind::Orpha => ont.orpha_disease(&OrphaDiseaseId::from(*x)).map(|g| (g.id().as_u32(), g.name().to_string(), ids(g.hpo_terms()))),
                };
                match got {
                    None => diff!(d, "{} {x}: lookup by id returns nothing", k.name()),
                    Some((gid, name, hpos)) => {
                        if gid != *x {
                            diff!(d, "{} {x}: lookup returned record {gid}", k.name());
                        }
                        if hpos != er.hpos {
                            diff!(d, "{} {x}: hpo_terms {:?} expected the direct terms {:?}", k.name(), hpos, er.hpos);
                        }
                        if name != er.name {
                            diff!(d, "{} {x}: name {:?} expected {:?}", k.name(), name, er.name);
                        }
                        for t in &hpos {
                            if ont.hpo(*t).is_none() {
                                diff!(d, "{} {x}: direct term {t} does not resolve", k.name());
                            }
                        }
                    }
                }
            }
        }
    }
    if f(Focus::Meta) {
        let want = format!("{:0>4}-{:0>2}-{:0>2}", exp.version.0, exp.version.1, exp.version.2);
        if ont.hpo_version() != want {
            diff!(d, "hpo_version {} expected {}", ont.hpo_version(), want);
        }
        let cats: BTreeSet<u32> = ids(ont.categories());
        if cats != exp.category_roots() {
            diff!(d, "categories() {:?} expected {:?}", cats, exp.category_roots());
        }
        let mods: BTreeSet<u32> = ids(ont.modifier());
        if mods != exp.modifier_roots() {
            diff!(d, "modifier() {:?} expected {:?}", mods, exp.modifier_roots());
        }
        if let Some(order) = &exp.order {
            if &iter_ids != order && iter_ids.len() == order.len() {
                // iteration order is not part of any property; recorded nowhere
            }
        }
    }
    d
}

/// The full projection of a real ontology through the public read API, in the same shape as an
/// `Expected` (used when the property relates two real ontologies, e.g. a serialisation round trip).
pub fn observe(ont: &Ontology) -> Expected {
    let mut e = Expected::default();
    for t in ont.iter() {
        let id = t.id().as_u32();
        e.terms.insert(
            id,
            ExpTerm {
                name: t.name().to_string(),
                obsolete: t.is_obsolete(),
                repl: t.replacement_id().map(|x| x.as_u32()),
                parents: ids(t.parent_ids()),
                children: ids(t.children_ids()),
                allp: ids(t.all_parent_ids()),
                ann: [
                    t.gene_ids().iter().map(|x| x.as_u32()).collect(),
                    t.omim_disease_ids().iter().map(|x| x.as_u32()).collect(),
                    t.orpha_disease_ids().iter().map(|x| x.as_u32()).collect(),
                ],
            },
        );
    }
    for g in ont.genes() {
        e.recs[0].insert(g.id().as_u32(), ExpRec { name: g.name().to_string(), hpos: ids(g.hpo_terms()) });
    }
    for g in ont.omim_diseases() {
        e.recs[1].insert(g.id().as_u32(), ExpRec { name: g.name().to_string(), hpos: ids(g.hpo_terms()) });
    }
    for g in ont.orpha_diseases() {
        e.recs[2].insert(g.id().as_u32(), ExpRec { name: g.name().to_string(), hpos: ids(g.hpo_terms()) });
    }
    let v: Vec<u32> = ont.hpo_version().split('-').map(|x| x.parse().unwrap_or(0)).collect();
    if v.len() == 3 {
        e.version = (v[0] as u16, v[1] as u8, v[2] as u8);
    }
    e.defaults = e.has_roots();
    e
}

/// Differences between two observed ontologies (iteration order is not part of an observation).
pub fn observe_diff(a: &Expected, b: &Expected) -> Vec<String> {
    let mut d = vec![];
    if a.terms != b.terms {
        let ka: Vec<&u32> = a.terms.keys().collect();
        let kb: Vec<&u32> = b.terms.keys().collect();
        if ka != kb {
            d.push(format!("term ids differ: {:?} vs {:?}", ka, kb));
        }
        // the first differing term, in full (the whole maps can be hundreds of terms)
        if let Some((id, ta)) = a.terms.iter().find(|(id, ta)| b.terms.get(*id).map_or(false, |tb| tb != *ta)) {
            let n = a.terms.iter().filter(|(id, ta)| b.terms.get(*id).map_or(true, |tb| tb != *ta)).count();
            d.push(format!("{n} terms differ, the first is term {id}: {:?} vs {:?}", ta, b.terms[id]));
        }
    }
    for k in 0..3 {
        let x: Vec<(u32, String, Vec<u32>)> = a.recs[k].iter().map(|(i, r)| (*i, r.name.clone(), r.hpos.iter().copied().collect())).collect();
        let y: Vec<(u32, String, Vec<u32>)> = b.recs[k].iter().map(|(i, r)| (*i, r.name.clone(), r.hpos.iter().copied().collect())).collect();
        if x != y {
            d.push(format!("{} records differ: {:?} vs {:?}", KINDS[k].name(), x, y));
        }
    }
    d
}

