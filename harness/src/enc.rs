//! Independent encoder for the documented binary layout v1 / v2 / v3, written from the layout
//! table in spec/HpoBinary.tla (NOT from the crate's writer).  It is cross-checked byte for byte
//! against the TLA+ encoder on every MC_Binary behaviour (`hv replay-binary`), so that the much
//! larger scenario spaces of the other checks can use it for the "binary v1-v3" construction path.
use crate::scenario::*;
use std::collections::BTreeMap;

fn u32be(out: &mut Vec<u8>, n: u32) {
    out.extend_from_slice(&n.to_be_bytes());
}

pub struct AbstractOnt {
    pub version: (u16, u8, u8),
    /// terms in file order
    pub terms: Vec<TermSpec>,
    /// (term, sorted parents) in file order
    pub parents: Vec<(u32, Vec<u32>)>,
    /// records per kind in file order: (id, name, direct terms ascending)
    pub recs: [Vec<(u32, String, Vec<u32>)>; 3],
}

/// Group a scenario's facts into records (first name wins, direct terms only).
pub fn abstract_of(s: &Scenario) -> AbstractOnt {
    abstract_of_ordered(s, true)
}

/// `canonical`: id lists inside the records ascending (what the crate's writer emits);
/// otherwise in the order the scenario supplies them (the layout prescribes none).
pub fn abstract_of_ordered(s: &Scenario, canonical: bool) -> AbstractOnt {
    let mut par: BTreeMap<u32, Vec<u32>> = BTreeMap::new();
    for (p, c) in &s.edges {
        let v = par.entry(*c).or_default();
        if !v.contains(p) {
            v.push(*p);
        }
    }
    let mut parents = vec![];
    for t in &s.terms {
        let mut v = par.get(&t.id).cloned().unwrap_or_default();
        if canonical {
            v.sort_unstable();
        }
        parents.push((t.id, v));
    }
    let mut recs: [Vec<(u32, String, Vec<u32>)>; 3] = Default::default();
    for f in &s.facts {
        let list = &mut recs[f.kind as usize];
        let pos = match list.iter().position(|r| r.0 == f.x) {
            Some(p) => p,
            None => {
                list.push((f.x, f.name.clone(), vec![]));
                list.len() - 1
            }
        };
        if let Some(t) = f.term {
            if !list[pos].2.contains(&t) {
                list[pos].2.push(t);
            }
        }
    }
    if canonical {
        for l in recs.iter_mut() {
            for r in l.iter_mut() {
                r.2.sort_unstable();
            }
        }
    }
    AbstractOnt { version: s.version, terms: s.terms.clone(), parents, recs }
}

/// longest prefix of whole characters with at most 255 bytes
pub fn trim255(s: &str) -> &str {
    if s.len() <= 255 {
        return s;
    }
    let mut n = 255;
    while !s.is_char_boundary(n) {
        n -= 1;
    }
    &s[..n]
}

pub fn encode(o: &AbstractOnt, version: u8) -> Vec<u8> {
    let mut out = vec![];
    if version >= 2 {
        out.extend_from_slice(b"HPO");
        out.push(version);
        out.extend_from_slice(&o.version.0.to_be_bytes());
        out.push(o.version.1);
        out.push(o.version.2);
    }
    // section 1: terms
    let mut sec = vec![];
    for t in &o.terms {
        let name = trim255(&t.name).as_bytes();
        if version == 1 {
            u32be(&mut sec, 9 + name.len() as u32);
            u32be(&mut sec, t.id);
            sec.push(name.len() as u8);
            sec.extend_from_slice(name);
        } else {
            u32be(&mut sec, 14 + name.len() as u32);
            u32be(&mut sec, t.id);
            sec.push(name.len() as u8);
            sec.extend_from_slice(name);
            sec.push(u8::from(t.obsolete));
            u32be(&mut sec, t.repl.unwrap_or(0));
        }
    }
    u32be(&mut out, sec.len() as u32);
    out.extend_from_slice(&sec);
    // section 2: parents
    sec.clear();
    for (t, ps) in &o.parents {
        u32be(&mut sec, ps.len() as u32);
        u32be(&mut sec, *t);
        for p in ps {
            u32be(&mut sec, *p);
        }
    }
    u32be(&mut out, sec.len() as u32);
    out.extend_from_slice(&sec);
    // section 3: genes (u8 name length)
    sec.clear();
    for (id, name, terms) in &o.recs[0] {
        let name = trim255(name).as_bytes();
        u32be(&mut sec, 13 + name.len() as u32 + 4 * terms.len() as u32);
        u32be(&mut sec, *id);
        sec.push(name.len() as u8);
        sec.extend_from_slice(name);
        u32be(&mut sec, terms.len() as u32);
        for t in terms {
            u32be(&mut sec, *t);
        }
    }
    u32be(&mut out, sec.len() as u32);
    out.extend_from_slice(&sec);
    // sections 4 (omim) and 5 (orpha, v3 only): u32 name length
    for k in 1..3 {
        if k == 2 && version < 3 {
            break;
        }
        sec.clear();
        for (id, name, terms) in &o.recs[k] {
            let name = name.as_bytes();
            u32be(&mut sec, 16 + name.len() as u32 + 4 * terms.len() as u32);
            u32be(&mut sec, *id);
            u32be(&mut sec, name.len() as u32);
            sec.extend_from_slice(name);
            u32be(&mut sec, terms.len() as u32);
            for t in terms {
                u32be(&mut sec, *t);
            }
        }
        u32be(&mut out, sec.len() as u32);
        out.extend_from_slice(&sec);
    }
    out
}

/// What a v1/v2/v3 file can carry of an expected ontology.
pub fn restrict(exp: &Expected, version: u8) -> Expected {
    let mut e = exp.clone();
    if version == 1 {
        e.version = (0, 0, 0);
        for t in e.terms.values_mut() {
            t.obsolete = false;
            t.repl = None;
        }
    }
    if version < 3 {
        e.recs[2].clear();
        for t in e.terms.values_mut() {
            t.ann[2].clear();
        }
    }
    for t in e.terms.values_mut() {
        t.name = trim255(&t.name).to_string();
    }
    for r in e.recs[0].values_mut() {
        r.name = trim255(&r.name).to_string();
    }
    e.defaults = true;
    e
}
