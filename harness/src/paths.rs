//! Construction paths: Builder API, binary v1-v3 (independent encoder), JAX text files,
//! as_bytes round trip.  Every path returns the Ontology or the error/panic text.
use crate::enc;
use crate::scenario::*;
use crate::util::*;
use hpo::annotations::{GeneId, OmimDiseaseId, OrphaDiseaseId};
use hpo::builder::Builder;
use hpo::{HpoTermId, Ontology};
use std::sync::atomic::{AtomicU64, Ordering};

pub type Built = Result<Ontology, String>;

#[derive(Clone, Copy, PartialEq, Eq, Debug)]
pub enum EdgeOrder {
    AsGiven,
    Reversed,
    Shuffled(u64),
}

pub fn has_roots(s: &Scenario) -> bool {
    s.terms.iter().any(|t| t.id == 1) && s.terms.iter().any(|t| t.id == 118)
}

/// Path 1: the public Builder API, calls in scenario order.
/// `dup_terms`: repeat every new_term call with a different name (first must win).
pub fn via_builder(s: &Scenario, order: EdgeOrder, dup_terms: bool, defaults: bool) -> Built {
    let r = catch(|| -> Result<Ontology, String> {
        let mut b = Builder::new();
        for t in &s.terms {
            b.new_term(&t.name, t.id);
            if dup_terms {
                b.new_term("duplicate-id-must-be-ignored", t.id);
            }
        }
        b.set_hpo_version(s.version);
        let mut b = b.terms_complete();
        let mut edges = s.edges.clone();
        match order {
            EdgeOrder::AsGiven => {}
            EdgeOrder::Reversed => edges.reverse(),
            EdgeOrder::Shuffled(seed) => Rng::new(seed).shuffle(&mut edges),
        }
        // in the `dup_terms` variant the client also makes calls that the Builder must REJECT (a term that does not exist):
        // they return an error and leave no trace - the ontology is the one of the accepted calls
        let absent = [4242u32, 5_555_555, 77].into_iter().find(|x| !s.terms.iter().any(|t| t.id == *x)).unwrap_or(9_000_001);
        if dup_terms {
            for t in s.terms.iter().take(2) {
                if b.add_parent(t.id, absent).is_ok() || b.add_parent(absent, t.id).is_ok() {
                    return Err(format!("add_parent with the absent term {absent} was accepted"));
                }
            }
        }
        for (p, c) in edges {
            b.add_parent(p, c).map_err(|e| format!("add_parent({p},{c}): {e}"))?;
        }
        let mut b = b.connect_all_terms();
        if dup_terms {
            for f in s.facts.iter().take(2) {
                let r = match f.kind {
                    Kind::Gene => b.annotate_gene(GeneId::from(f.x + 1000), "rejected", HpoTermId::from(absent)),
                    Kind::Omim => b.annotate_omim_disease(OmimDiseaseId::from(f.x + 1000), "rejected", HpoTermId::from(absent)),
                    Kind::Orpha => b.annotate_orpha_disease(OrphaDiseaseId::from(f.x + 1000), "rejected", HpoTermId::from(absent)),
                };
                if r.is_ok() {
                    return Err(format!("annotate_* on the absent term {absent} was accepted"));
                }
            }
        }
        for f in &s.facts {
            match (f.kind, f.term) {
                (Kind::Gene, None) => b.add_gene(&f.name, GeneId::from(f.x)),
                (Kind::Omim, None) => {
                    b.add_omim_disease(&f.name, OmimDiseaseId::from(f.x));
                }
                (Kind::Orpha, None) => {
                    b.add_orpha_disease(&f.name, OrphaDiseaseId::from(f.x));
                }
                (Kind::Gene, Some(t)) => b.annotate_gene(GeneId::from(f.x), &f.name, HpoTermId::from(t)).map_err(|e| format!("annotate_gene: {e}"))?,
                (Kind::Omim, Some(t)) => b.annotate_omim_disease(OmimDiseaseId::from(f.x), &f.name, HpoTermId::from(t)).map_err(|e| format!("annotate_omim: {e}"))?,
                (Kind::Orpha, Some(t)) => b.annotate_orpha_disease(OrphaDiseaseId::from(f.x), &f.name, HpoTermId::from(t)).map_err(|e| format!("annotate_orpha: {e}"))?,
            }
        }
        let b = b.calculate_information_content().map_err(|e| format!("calculate_information_content: {e}"))?;
        if defaults {
            b.build_with_defaults().map_err(|e| format!("build_with_defaults: {e}"))
        } else {
            Ok(b.build_minimal())
        }
    });
    match r {
        Ok(x) => x,
        Err(p) => Err(format!("panic: {p}")),
    }
}

pub fn from_bytes(bytes: &[u8]) -> Built {
    match catch(|| Ontology::from_bytes(bytes)) {
        Ok(Ok(o)) => Ok(o),
        Ok(Err(e)) => Err(format!("error: {e}")),
        Err(p) => Err(format!("panic: {p}")),
    }
}

/// Path 2: independently encoded binary file, layout version 1..3; records inside the
/// sections optionally permuted.
pub fn via_binary(s: &Scenario, version: u8, perm_seed: Option<u64>) -> (Vec<u8>, Built) {
    let mut o = enc::abstract_of(s);
    if let Some(seed) = perm_seed {
        let mut rng = Rng::new(seed);
        rng.shuffle(&mut o.terms);
        rng.shuffle(&mut o.parents);
        for p in o.parents.iter_mut() {
            rng.shuffle(&mut p.1);
        }
        for r in o.recs.iter_mut() {
            rng.shuffle(r);
            for x in r.iter_mut() {
                rng.shuffle(&mut x.2);
            }
        }
    }
    let bytes = enc::encode(&o, version);
    let built = from_bytes(&bytes);
    (bytes, built)
}

/// Path 4: serialise with the crate, load again.
pub fn roundtrip(ont: &Ontology) -> (Vec<u8>, Built) {
    match catch(|| ont.as_bytes()) {
        Ok(bytes) => {
            let b = from_bytes(&bytes);
            (bytes, b)
        }
        Err(p) => (vec![], Err(format!("as_bytes panicked: {p}"))),
    }
}

// ---------------------------------------------------------------------------------------------
// JAX text files

#[derive(Clone, Debug, Default)]
pub struct JaxFiles {
    pub obo: String,
    pub hpoa: String,
    pub genes_to_phenotype: String,
    pub phenotype_to_genes: String,
}

pub fn hp(id: u32) -> String {
    format!("HP:{id:07}")
}

/// Plain rendering of a scenario in the JAX formats (no noise); the noisy / permuted
/// variants come from spec/HpoJax.tla via `hv replay-jax`.
pub fn jax_plain(s: &Scenario, stanza_seed: Option<u64>) -> JaxFiles {
    let mut f = JaxFiles::default();
    f.obo.push_str("format-version: 1.2\n");
    f.obo.push_str(&format!("data-version: hp/releases/{:04}-{:02}-{:02}\n", s.version.0, s.version.1, s.version.2));
    f.obo.push_str("saved-by: verif\n");
    let mut terms: Vec<&TermSpec> = s.terms.iter().collect();
    if let Some(seed) = stanza_seed {
        Rng::new(seed).shuffle(&mut terms);
    }
    for t in terms {
        f.obo.push_str("\n[Term]\n");
        f.obo.push_str(&format!("id: {}\n", hp(t.id)));
        f.obo.push_str(&format!("name: {}\n", t.name));
        for (p, c) in &s.edges {
            if *c == t.id {
                f.obo.push_str(&format!("is_a: {} ! parent {}\n", hp(*p), p));
            }
        }
        if t.obsolete {
            f.obo.push_str("is_obsolete: true\n");
        }
        if let Some(r) = t.repl {
            f.obo.push_str(&format!("replaced_by: {}\n", hp(r)));
        }
    }
    f.hpoa.push_str("#description: \"HPO annotations for rare diseases\"\n#version: 2024-01-01\n");
    f.hpoa.push_str("database_id\tdisease_name\tqualifier\thpo_id\treference\tevidence\tonset\tfrequency\tsex\tmodifier\taspect\tbiocuration\n");
    f.genes_to_phenotype.push_str("ncbi_gene_id\tgene_symbol\thpo_id\thpo_name\tfrequency\tdisease_id\n");
    f.phenotype_to_genes.push_str("hpo_id\thpo_name\tncbi_gene_id\tgene_symbol\tdisease_id\n");
    for fact in &s.facts {
        let Some(t) = fact.term else { continue };
        match fact.kind {
            Kind::Gene => {
                f.genes_to_phenotype.push_str(&format!("{}\t{}\t{}\tT{}\t-\tOMIM:1\n", fact.x, fact.name, hp(t), t));
                f.phenotype_to_genes.push_str(&format!("{}\tT{}\t{}\t{}\tOMIM:1\n", hp(t), t, fact.x, fact.name));
            }
            Kind::Omim => f.hpoa.push_str(&format!("OMIM:{}\t{}\t\t{}\tOMIM:{}\tTAS\t\t\t\t\tP\tHPO:verif\n", fact.x, fact.name, hp(t), fact.x)),
            Kind::Orpha => f.hpoa.push_str(&format!("ORPHA:{}\t{}\t\t{}\tORPHA:{}\tTAS\t\t\t\t\tP\tHPO:verif\n", fact.x, fact.name, hp(t), fact.x)),
        }
    }
    f
}

static DIR_COUNTER: AtomicU64 = AtomicU64::new(0);

pub fn scratch_dir() -> std::path::PathBuf {
    let base = std::env::var("HV_SCRATCH").unwrap_or_else(|_| std::env::temp_dir().join(format!("hv-{}", std::process::id())).display().to_string());
    let n = DIR_COUNTER.fetch_add(1, Ordering::SeqCst);
    let p = std::path::PathBuf::from(base).join(format!("jax-{}-{}", std::process::id(), n));
    std::fs::create_dir_all(&p).expect("cannot create scratch dir");
    p
}

/// Path 3: write the three files to a scratch directory and call from_standard /
/// from_standard_transitive.
pub fn via_jax(files: &JaxFiles, transitive: bool) -> Built {
    let dir = scratch_dir();
    std::fs::write(dir.join("hp.obo"), &files.obo).unwrap();
    std::fs::write(dir.join("phenotype.hpoa"), &files.hpoa).unwrap();
    std::fs::write(dir.join("genes_to_phenotype.txt"), &files.genes_to_phenotype).unwrap();
    std::fs::write(dir.join("phenotype_to_genes.txt"), &files.phenotype_to_genes).unwrap();
    let d = dir.display().to_string();
    let r = catch(|| if transitive { Ontology::from_standard_transitive(&d) } else { Ontology::from_standard(&d) });
    std::fs::remove_dir_all(&dir).ok();
    match r {
        Ok(Ok(o)) => Ok(o),
        Ok(Err(e)) => Err(format!("error: {e}")),
        Err(p) => Err(format!("panic: {p}")),
    }
}
