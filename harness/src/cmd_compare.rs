//! Growth beyond the listed properties: Ontology::compare against spec/HpoCompare.tla.
use crate::paths::from_bytes;
use crate::util::*;
use hpo::annotations::{AnnotationId, Disease};
use serde_json::{json, Value};
use std::collections::BTreeSet;

fn bytes_of(v: &Value) -> Vec<u8> {
    arr(v).iter().map(|b| b.as_u64().unwrap() as u8).collect()
}
fn set(v: &Value) -> BTreeSet<u32> {
    u32_list(v).into_iter().collect()
}

pub fn replay_line(st: &mut Stats, prop: &str, line: &Value) {
    st.cases += 1;
    if !arr(&line["cmp"]["changed_terms"]).is_empty() || !arr(&line["cmp"]["gene"]["changed"]).is_empty() || !arr(&line["cmp"]["added_terms"]).is_empty() {
        st.nontrivial += 1;
    }
    st.evaluations += 1;
    // pairs whose names exceed what a binary file can hold are realised through hp.obo + annotation files
    let load = |side: &str| -> Result<hpo::Ontology, String> {
        if line["via"].as_str() == Some("obo") {
            let scn = crate::cmd_binary::scenario_of(&line[if side == "l" { "lo" } else { "ro" }]);
            crate::paths::via_jax(&crate::paths::jax_plain(&scn, None), false)
        } else {
            from_bytes(&bytes_of(&line[if side == "l" { "lbytes" } else { "rbytes" }]))
        }
    };
    let (Ok(l), Ok(r)) = (load("l"), load("r")) else {
        st.violations.push(Violation { property: prop.to_string(), what: "cannot load ontologies for compare".into(), replay: json!({"cmd": "replay-compare", "property": prop, "line": line, "diffs": []}) });
        return;
    };
    let want = &line["cmp"];
    let mut d: Vec<String> = vec![];
    let res = catch(|| {
        let c = l.compare(&r);
        let mut d: Vec<String> = vec![];
        let added: BTreeSet<u32> = c.added_hpo_terms().iter().map(|t| t.id().as_u32()).collect();
        let removed: BTreeSet<u32> = c.removed_hpo_terms().iter().map(|t| t.id().as_u32()).collect();
        if added != set(&want["added_terms"]) || removed != set(&want["removed_terms"]) {
            d.push(format!("added/removed terms {:?}/{:?}, expected {}/{}", added, removed, want["added_terms"], want["removed_terms"]));
        }
        let changed = c.changed_hpo_terms();
        let want_changed = arr(&want["changed_terms"]);
        if changed.len() != want_changed.len() {
            d.push(format!("{} changed terms, expected {}", changed.len(), want_changed.len()));
        }
        for w in &want_changed {
            let id = as_u32(&w["id"]);
            let Some(delta) = changed.iter().find(|x| x.id().as_u32() == id) else {
                d.push(format!("term {id} not reported as changed"));
                continue;
            };
            let ap: BTreeSet<u32> = delta.added_parents().map(|v| v.iter().map(|x| x.as_u32()).collect()).unwrap_or_default();
            let rp: BTreeSet<u32> = delta.removed_parents().map(|v| v.iter().map(|x| x.as_u32()).collect()).unwrap_or_default();
            if ap != set(&w["added_parents"]) || rp != set(&w["removed_parents"]) {
                d.push(format!("term {id}: added/removed parents {:?}/{:?}, expected {}/{}", ap, rp, w["added_parents"], w["removed_parents"]));
            }
            if delta.changed_name().is_some() != w["name_changed"].as_bool().unwrap() {
                d.push(format!("term {id}: changed_name {:?}, expected changed = {}", delta.changed_name(), w["name_changed"]));
            }
            let ob = (w["obsolete"][0].as_bool().unwrap(), w["obsolete"][1].as_bool().unwrap());
            if delta.changed_obsolete().is_some() != (ob.0 != ob.1) {
                d.push(format!("term {id}: changed_obsolete {:?}, expected {:?}", delta.changed_obsolete(), ob));
            }
            let rp = (as_u32(&w["repl"][0]), as_u32(&w["repl"][1]));
            let got = delta.changed_replacement().map(|(a, b)| (a.map(|x| x.as_u32()).unwrap_or(0), b.map(|x| x.as_u32()).unwrap_or(0)));
            if got.is_some() != (rp.0 != rp.1) || (got.is_some() && got != Some(rp)) {
                d.push(format!("term {id}: changed_replacement {:?}, expected {:?}", got, rp));
            }
        }
        // records
        let g_add: BTreeSet<u32> = c.added_genes().iter().map(|x| x.id().as_u32()).collect();
        let g_rem: BTreeSet<u32> = c.removed_genes().iter().map(|x| x.id().as_u32()).collect();
        let o_add: BTreeSet<u32> = c.added_omim_diseases().iter().map(|x| x.id().as_u32()).collect();
        let o_rem: BTreeSet<u32> = c.removed_omim_diseases().iter().map(|x| x.id().as_u32()).collect();
        let r_add: BTreeSet<u32> = c.added_orpha_diseases().iter().map(|x| x.id().as_u32()).collect();
        let r_rem: BTreeSet<u32> = c.removed_orpha_diseases().iter().map(|x| x.id().as_u32()).collect();
        for (k, a, rm) in [("gene", &g_add, &g_rem), ("omim", &o_add, &o_rem), ("orpha", &r_add, &r_rem)] {
            if a != &set(&want[k]["added"]) || rm != &set(&want[k]["removed"]) {
                d.push(format!("{k}: added/removed {:?}/{:?}, expected {}/{}", a, rm, want[k]["added"], want[k]["removed"]));
            }
        }
        for (k, deltas) in [("gene", c.changed_genes()), ("omim", c.changed_omim_diseases()), ("orpha", c.changed_orpha_diseases())] {
            let wc = arr(&want[k]["changed"]);
            if deltas.len() != wc.len() {
                d.push(format!("{k}: {} changed records, expected {}", deltas.len(), wc.len()));
            }
            for w in &wc {
                let id = as_u32(&w["id"]);
                let Some(dl) = deltas.iter().find(|x| x.id().rsplit(':').next().and_then(|s| s.parse::<u32>().ok()) == Some(id)) else {
                    d.push(format!("{k} {id} not reported as changed"));
                    continue;
                };
                let a: BTreeSet<u32> = dl.added_terms().map(|v| v.iter().map(|x| x.as_u32()).collect()).unwrap_or_default();
                let rm: BTreeSet<u32> = dl.removed_terms().map(|v| v.iter().map(|x| x.as_u32()).collect()).unwrap_or_default();
                if a != set(&w["added"]) || rm != set(&w["removed"]) {
                    d.push(format!("{k} {id}: added/removed terms {:?}/{:?}, expected {}/{}", a, rm, w["added"], w["removed"]));
                }
                if dl.changed_name().is_some() != w["name_changed"].as_bool().unwrap() {
                    d.push(format!("{k} {id}: changed_name {:?}, expected changed = {}", dl.changed_name(), w["name_changed"]));
                }
                let n = dl.n_terms();
                if (n.0 as u64, n.1 as u64) != (w["n"][0].as_u64().unwrap(), w["n"][1].as_u64().unwrap()) {
                    d.push(format!("{k} {id}: n_terms {:?}, expected {}", n, w["n"]));
                }
            }
        }
        d
    });
    match res {
        Ok(x) => d.extend(x),
        Err(p) => d.push(format!("compare panicked: {p}")),
    }
    // laws: an ontology compared with itself or with its binary round trip reports nothing; swapping the sides swaps added and removed
    let laws = catch(|| {
        let mut d: Vec<String> = vec![];
        let empty = |c: &hpo::comparison::Comparison| -> bool {
            c.added_hpo_terms().is_empty() && c.removed_hpo_terms().is_empty() && c.changed_hpo_terms().is_empty()
                && c.added_genes().is_empty() && c.removed_genes().is_empty() && c.changed_genes().is_empty()
                && c.added_omim_diseases().is_empty() && c.removed_omim_diseases().is_empty() && c.changed_omim_diseases().is_empty()
                && c.added_orpha_diseases().is_empty() && c.removed_orpha_diseases().is_empty() && c.changed_orpha_diseases().is_empty()
        };
        if !empty(&l.compare(&l)) {
            d.push("comparing an ontology with itself reports differences".to_string());
        }
        // (the binary form holds term and gene names up to the documented 255 bytes: the round-trip law is about ontologies within that limit)
        let within_limit = line["via"].as_str() != Some("obo");
        if let (true, Ok(l2)) = (within_limit, from_bytes(&l.as_bytes())) {
            if !empty(&l.compare(&l2)) || !empty(&l2.compare(&l)) {
                d.push("comparing an ontology with its binary round trip reports differences".to_string());
            }
        }
        let (c1, c2) = (l.compare(&r), r.compare(&l));
        let t = |v: Vec<hpo::HpoTerm>| -> BTreeSet<u32> { v.iter().map(|x| x.id().as_u32()).collect() };
        if t(c1.added_hpo_terms()) != t(c2.removed_hpo_terms()) || t(c1.removed_hpo_terms()) != t(c2.added_hpo_terms()) {
            d.push("swapping the arguments does not swap added and removed terms".to_string());
        }
        let g = |v: Vec<&hpo::annotations::Gene>| -> BTreeSet<u32> { v.iter().map(|x| x.id().as_u32()).collect() };
        if g(c1.added_genes()) != g(c2.removed_genes()) || g(c1.removed_genes()) != g(c2.added_genes()) {
            d.push("swapping the arguments does not swap added and removed genes".to_string());
        }
        if c1.changed_hpo_terms().len() != c2.changed_hpo_terms().len() || c1.changed_genes().len() != c2.changed_genes().len()
            || c1.changed_omim_diseases().len() != c2.changed_omim_diseases().len() || c1.changed_orpha_diseases().len() != c2.changed_orpha_diseases().len() {
            d.push("swapping the arguments changes the number of changed entries".to_string());
        }
        d
    });
    match laws {
        Ok(x) => d.extend(x),
        Err(p) => d.push(format!("compare (laws) panicked: {p}")),
    }
    if !d.is_empty() && st.violations.len() < 4 {
        d.truncate(8);
        let mut l2 = line.clone();
        // the bytes stay in the replay file (TLC's pairs are a few hundred bytes; the big case is replayed from its seed)
        for k in ["lbytes", "rbytes"] {
            if line[k].as_array().map_or(false, |a| a.len() > 200_000) {
                l2[k] = json!("...");
            }
        }
        st.violations.push(Violation { property: prop.to_string(), what: d[0].clone(), replay: json!({"cmd": "replay-compare", "property": prop, "line": l2, "diffs": d}) });
    }
}

/// Beyond TLC's sizes: two ontologies of about 2,000 terms that differ by a known list of edits of every kind.  The expected report
/// is the set difference of the two fact sets, computed here exactly as spec/HpoCompare.tla defines it, and checked by the same code
/// as every TLC-emitted pair.
pub fn big_compare_case(st: &mut Stats, prop: &str, seed: u64) {
    use crate::scenario::{Fact, Kind, Scenario, TermSpec, KINDS};
    use std::collections::BTreeMap;
    let mut rng = Rng::new(seed ^ 0xC18);
    let n = 2_000u32;
    let id_of = |i: u32| 1_000 + i * 7;
    let mut l = Scenario::default();
    l.version = (2024, 6, 7);
    l.terms.push(TermSpec { id: 1, name: "All".into(), obsolete: false, repl: None });
    l.terms.push(TermSpec { id: 118, name: "Phenotypic abnormality".into(), obsolete: false, repl: None });
    l.edges.push((1, 118));
    for i in 0..n {
        let obsolete = i % 97 == 13;
        l.terms.push(TermSpec { id: id_of(i), name: format!("term {i}"), obsolete, repl: if obsolete && i % 2 == 1 { Some(id_of(i / 2)) } else { None } });
        let k = 1 + rng.below(3);
        let mut ps = BTreeSet::new();
        for _ in 0..k {
            ps.insert(if i < 20 { 118 } else { id_of(rng.below(i as u64) as u32) });
        }
        if i == n - 1 {
            for j in 0..40 {
                ps.insert(id_of(j * 3)); // more than 30 direct parents
            }
        }
        for p in ps {
            l.edges.push((p, id_of(i)));
        }
    }
    for x in 0..60u32 {
        let kind = KINDS[(x % 3) as usize];
        let cnt = if x == 0 { 200 } else { 3 + rng.below(50) };
        let mut ts = BTreeSet::new();
        for _ in 0..cnt {
            ts.insert(id_of(rng.below(n as u64) as u32));
        }
        for t in ts {
            l.facts.push(Fact { kind, x: 100 + x / 3, name: format!("{}{}", kind.name(), 100 + x / 3), term: Some(t) });
        }
    }
    // the edits
    let mut r = l.clone();
    let has_child: BTreeSet<u32> = r.edges.iter().map(|e| e.0).collect();
    for j in 0..10u32 {
        r.terms[(50 + j * 31) as usize].name.push_str(" (renamed)");
    }
    for j in 0..5u32 {
        let t = &mut r.terms[(70 + j * 53) as usize];
        t.obsolete = !t.obsolete;
    }
    for j in 0..5u32 {
        r.terms[(90 + j * 41) as usize].repl = Some(id_of(j));
    }
    // moved: replace one parent by another earlier term; added / removed parents
    for j in 0..10u32 {
        let c = id_of(300 + j * 17);
        if let Some(e) = r.edges.iter_mut().find(|e| e.1 == c) {
            e.0 = id_of(j + 5);
        }
        r.edges.push((id_of(j + 40), id_of(500 + j * 19)));
    }
    r.edges.sort_unstable();
    r.edges.dedup();
    for j in 0..10u32 {
        let c = id_of(800 + j * 23);
        let ps: Vec<usize> = r.edges.iter().enumerate().filter(|(_, e)| e.1 == c).map(|(i, _)| i).collect();
        if ps.len() >= 2 {
            r.edges.remove(ps[0]);
        }
    }
    // removed terms: leaves only (and every reference to them), added terms
    let removed: Vec<u32> = (0..n).rev().map(id_of).filter(|t| !has_child.contains(t)).take(5).collect();
    r.terms.retain(|t| !removed.contains(&t.id));
    r.edges.retain(|e| !removed.contains(&e.1));
    r.facts.retain(|f| f.term.map_or(true, |t| !removed.contains(&t)));
    for t in r.terms.iter_mut() {
        if t.repl.map_or(false, |x| removed.contains(&x)) {
            t.repl = None;
        }
    }
    for j in 0..5u32 {
        r.terms.push(TermSpec { id: 9_000_000 + j, name: format!("new {j}"), obsolete: false, repl: None });
        r.edges.push((118, 9_000_000 + j));
    }
    // records: annotate, unannotate, rename, add, remove
    for j in 0..10u32 {
        r.facts.push(Fact { kind: KINDS[(j % 3) as usize], x: 100 + j, name: format!("{}{}", KINDS[(j % 3) as usize].name(), 100 + j), term: Some(id_of(1_500 + j)) });
    }
    for j in 0..10u32 {
        let (kind, x) = (KINDS[(j % 3) as usize], 110 + j % 8);
        if let Some(i) = r.facts.iter().position(|f| f.kind == kind && f.x == x) {
            r.facts.remove(i);
        }
    }
    for f in r.facts.iter_mut().filter(|f| f.x == 105) {
        f.name.push_str("-renamed");
    }
    r.facts.retain(|f| f.x != 119);
    for k in KINDS {
        r.facts.push(Fact { kind: k, x: 999, name: "brand new".into(), term: Some(118) });
    }
    // the expected report: set differences (spec/HpoCompare.tla)
    type TermRow = (String, bool, u32, BTreeSet<u32>);
    let rows = |s: &Scenario| -> BTreeMap<u32, TermRow> {
        let ids: BTreeSet<u32> = s.terms.iter().map(|t| t.id).collect();
        s.terms.iter().map(|t| (t.id, (t.name.clone(), t.obsolete, t.repl.filter(|x| ids.contains(x)).unwrap_or(0), s.edges.iter().filter(|e| e.1 == t.id).map(|e| e.0).collect()))).collect()
    };
    let recs = |s: &Scenario, k: Kind| -> BTreeMap<u32, (String, BTreeSet<u32>)> {
        let mut m: BTreeMap<u32, (String, BTreeSet<u32>)> = BTreeMap::new();
        for f in s.facts.iter().filter(|f| f.kind == k) {
            let e = m.entry(f.x).or_insert_with(|| (f.name.clone(), BTreeSet::new()));
            if let Some(t) = f.term {
                e.1.insert(t);
            }
        }
        m
    };
    let (tl, tr) = (rows(&l), rows(&r));
    let mut changed = vec![];
    for (id, a) in &tl {
        if let Some(b) = tr.get(id) {
            if a != b {
                changed.push(json!({"id": id, "name_changed": a.0 != b.0, "added_parents": b.3.difference(&a.3).collect::<Vec<_>>(), "removed_parents": a.3.difference(&b.3).collect::<Vec<_>>(),
                    "obsolete": [a.1, b.1], "repl": [a.2, b.2]}));
            }
        }
    }
    let mut cmp = json!({"added_terms": tr.keys().filter(|k| !tl.contains_key(k)).collect::<Vec<_>>(), "removed_terms": tl.keys().filter(|k| !tr.contains_key(k)).collect::<Vec<_>>(), "changed_terms": changed});
    for k in KINDS {
        let (a, b) = (recs(&l, k), recs(&r, k));
        let ch: Vec<Value> = a.iter().filter_map(|(x, ra)| b.get(x).filter(|rb| *rb != ra).map(|rb| json!({"id": x, "name_changed": ra.0 != rb.0,
            "added": rb.1.difference(&ra.1).collect::<Vec<_>>(), "removed": ra.1.difference(&rb.1).collect::<Vec<_>>(), "n": [ra.1.len(), rb.1.len()]}))).collect();
        cmp[k.name()] = json!({"added": b.keys().filter(|x| !a.contains_key(x)).collect::<Vec<_>>(), "removed": a.keys().filter(|x| !b.contains_key(x)).collect::<Vec<_>>(), "changed": ch});
    }
    let enc = |s: &Scenario| -> Vec<u8> { crate::enc::encode(&crate::enc::abstract_of_ordered(s, false), 3) };
    let line = json!({"big": seed, "lbytes": enc(&l), "rbytes": enc(&r), "cmp": cmp});
    let before = st.violations.len();
    replay_line(st, prop, &line);
    // the replay file of a big case holds the seed, not 200 kB of bytes
    for v in st.violations.iter_mut().skip(before) {
        v.replay = json!({"cmd": "replay-compare", "property": prop, "big_compare": seed, "diffs": v.replay["diffs"].clone()});
    }
}

pub fn run(args: &Args) {
    silence_panics();
    let Some(shard) = shard_or_spawn("replay-compare", args) else { return };
    let (n_all, lines) = read_tlc_lines_sharded(args.req("in"), "REPLAY", shard);
    if n_all == 0 {
        eprintln!("no REPLAY lines");
        std::process::exit(2);
    }
    let prop = args.get("prop").unwrap_or("EXTRA").to_string();
    let mut st = Stats::default();
    if let Some(l) = lines.first() {
        let mut x = l.clone();
        x["lbytes"] = json!(arr(&l["lbytes"]).len());
        x["rbytes"] = json!(arr(&l["rbytes"]).len());
        st.samples.push(x);
    }
    for l in &lines {
        guard_case(&mut st, &prop, "replay-compare", l, |st| replay_line(st, &prop, l));
    }
    if shard.0 == shard.1 / 2 {
        let seed = args.num("seed", 1);
        guard_case(&mut st, &prop, "replay-compare", &json!({"big_compare": seed}), |st| big_compare_case(st, &prop, seed));
    }
    finish(st, args.req("out"), args.req("replay-dir"), json!({"lines": lines.len()}));
}

pub fn replay_one(v: &Value) -> bool {
    silence_panics();
    let mut st = Stats::default();
    let prop = v["property"].as_str().unwrap_or("C18").to_string();
    if let Some(seed) = v.get("big_compare").and_then(|s| s.as_u64()) {
        big_compare_case(&mut st, &prop, seed);
    } else {
        if v["line"]["via"].as_str() != Some("obo") && !(v["line"]["lbytes"].is_array() && v["line"]["rbytes"].is_array()) {
            eprintln!("this replay file does not hold the two ontologies (written before the bytes were kept); re-run the check to get a replayable file");
            std::process::exit(2);
        }
        guard_case(&mut st, &prop, "replay-compare", &v["line"], |st| replay_line(st, &prop, &v["line"]));
    }
    for x in &st.violations {
        println!("reproduced: {}", x.what);
    }
    !st.violations.is_empty()
}
