//! Growth beyond the listed properties: Ontology::compare against spec/HpoCompare.tla.
use crate::paths::from_bytes;
use crate::util::*;
use hpo::annotations::{AnnotationId, Disease};
use serde_json::{json, Value};
use std::collections::BTreeSet;

fn bytes_of(v: &Value) -> Vec<u8> {
    arr(v).iter().map(|b| b.as_u64().unwrap() as u8).collect()
}
fn set(v: &Value) -> BTreeSet<u32> {
    u32_list(v).into_iter().collect()
}

pub fn replay_line(st: &mut Stats, prop: &str, line: &Value) {
    st.cases += 1;
    if !arr(&line["cmp"]["changed_terms"]).is_empty() || !arr(&line["cmp"]["gene"]["changed"]).is_empty() || !arr(&line["cmp"]["added_terms"]).is_empty() {
        st.nontrivial += 1;
    }
    st.evaluations += 1;
    // pairs whose names exceed what a binary file can hold are realised through hp.obo + annotation files
    let load = |side: &str| -> Result<hpo::Ontology, String> {
        if line["via"].as_str() == Some("obo") {
            let scn = crate::cmd_binary::scenario_of(&line[if side == "l" { "lo" } else { "ro" }]);
            crate::paths::via_jax(&crate::paths::jax_plain(&scn, None), false)
        } else {
            from_bytes(&bytes_of(&line[if side == "l" { "lbytes" } else { "rbytes" }]))
        }
    };
    let (Ok(l), Ok(r)) = (load("l"), load("r")) else {
        st.violations.push(Violation { property: prop.to_string(), what: "cannot load ontologies for compare".into(), replay: json!({"cmd": "replay-compare", "property": prop, "line": line, "diffs": []}) });
        return;
    };
    let want = &line["cmp"];
    let mut d: Vec<String> = vec![];
    let res = catch(|| {
        let c = l.compare(&r);
        let mut d: Vec<String> = vec![];
        let added: BTreeSet<u32> = c.added_hpo_terms().iter().map(|t| t.id().as_u32()).collect();
        let removed: BTreeSet<u32> = c.removed_hpo_terms().iter().map(|t| t.id().as_u32()).collect();
        if added != set(&want["added_terms"]) || removed != set(&want["removed_terms"]) {
            d.push(format!("added/removed terms {:?}/{:?}, expected {}/{}", added, removed, want["added_terms"], want["removed_terms"]));
        }
        let changed = c.changed_hpo_terms();
        let want_changed = arr(&want["changed_terms"]);
        if changed.len() != want_changed.len() {
            d.push(format!("{} changed terms, expected {}", changed.len(), want_changed.len()));
        }
        for w in &want_changed {
            let id = as_u32(&w["id"]);
            let Some(delta) = changed.iter().find(|x| x.id().as_u32() == id) else {
                d.push(format!("term {id} not reported as changed"));
                continue;
            };
            let ap: BTreeSet<u32> = delta.added_parents().map(|v| v.iter().map(|x| x.as_u32()).collect()).unwrap_or_default();
            let rp: BTreeSet<u32> = delta.removed_parents().map(|v| v.iter().map(|x| x.as_u32()).collect()).unwrap_or_default();
            if ap != set(&w["added_parents"]) || rp != set(&w["removed_parents"]) {
                d.push(format!("term {id}: added/removed parents {:?}/{:?}, expected {}/{}", ap, rp, w["added_parents"], w["removed_parents"]));
            }
            if delta.changed_name().is_some() != w["name_changed"].as_bool().unwrap() {
                d.push(format!("term {id}: changed_name {:?}, expected changed = {}", delta.changed_name(), w["name_changed"]));
            }
            let ob = (w["obsolete"][0].as_bool().unwrap(), w["obsolete"][1].as_bool().unwrap());
            if delta.changed_obsolete().is_some() != (ob.0 != ob.1) {
                d.push(format!("term {id}: changed_obsolete {:?}, expected {:?}", delta.changed_obsolete(), ob));
            }
            let rp = (as_u32(&w["repl"][0]), as_u32(&w["repl"][1]));
            let got = delta.changed_replacement().map(|(a, b)| (a.map(|x| x.as_u32()).unwrap_or(0), b.map(|x| x.as_u32()).unwrap_or(0)));
            if got.is_some() != (rp.0 != rp.1) || (got.is_some() && got != Some(rp)) {
                d.push(format!("term {id}: changed_replacement {:?}, expected {:?}", got, rp));
            }
        }
        // records
        let g_add: BTreeSet<u32> = c.added_genes().iter().map(|x| x.id().as_u32()).collect();
        let g_rem: BTreeSet<u32> = c.removed_genes().iter().map(|x| x.id().as_u32()).collect();
        let o_add: BTreeSet<u32> = c.added_omim_diseases().iter().map(|x| x.id().as_u32()).collect();
        let o_rem: BTreeSet<u32> = c.removed_omim_diseases().iter().map(|x| x.id().as_u32()).collect();
        let r_add: BTreeSet<u32> = c.added_orpha_diseases().iter().map(|x| x.id().as_u32()).collect();
        let r_rem: BTreeSet<u32> = c.removed_orpha_diseases().iter().map(|x| x.id().as_u32()).collect();
        for (k, a, rm) in [("gene", &g_add, &g_rem), ("omim", &o_add, &o_rem), ("orpha", &r_add, &r_rem)] {
            if a != &set(&want[k]["added"]) || rm != &set(&want[k]["removed"]) {
                d.push(format!("{k}: added/removed {:?}/{:?}, expected {}/{}", a, rm, want[k]["added"], want[k]["removed"]));
            }
        }
        for (k, deltas) in [("gene", c.changed_genes()), ("omim", c.changed_omim_diseases()), ("orpha", c.changed_orpha_diseases())] {
            let wc = arr(&want[k]["changed"]);
            if deltas.len() != wc.len() {
                d.push(format!("{k}: {} changed records, expected {}", deltas.len(), wc.len()));
            }
            for w in &wc {
                let id = as_u32(&w["id"]);
                let Some(dl) = deltas.iter().find(|x| x.id().rsplit(':').next().and_then(|s| s.parse::<u32>().ok()) == Some(id)) else {
                    d.push(format!("{k} {id} not reported as changed"));
                    continue;
                };
                let a: BTreeSet<u32> = dl.added_terms().map(|v| v.iter().map(|x| x.as_u32()).collect()).unwrap_or_default();
                let rm: BTreeSet<u32> = dl.removed_terms().map(|v| v.iter().map(|x| x.as_u32()).collect()).unwrap_or_default();
                if a != set(&w["added"]) || rm != set(&w["removed"]) {
                    d.push(format!("{k} {id}: added/removed terms {:?}/{:?}, expected {}/{}", a, rm, w["added"], w["removed"]));
                }
                if dl.changed_name().is_some() != w["name_changed"].as_bool().unwrap() {
                    d.push(format!("{k} {id}: changed_name {:?}, expected changed = {}", dl.changed_name(), w["name_changed"]));
                }
                let n = dl.n_terms();
                if (n.0 as u64, n.1 as u64) != (w["n"][0].as_u64().unwrap(), w["n"][1].as_u64().unwrap()) {
                    d.push(format!("{k} {id}: n_terms {:?}, expected {}", n, w["n"]));
                }
            }
        }
        d
    });
    match res {
        Ok(x) => d.extend(x),
        Err(p) => d.push(format!("compare panicked: {p}")),
    }
    // laws: an ontology compared with itself or with its binary round trip reports nothing; swapping the sides swaps added and removed
    let laws = catch(|| {
        let mut d: Vec<String> = vec![];
        let empty = |c: &hpo::comparison::Comparison| -> bool {
            c.added_hpo_terms().is_empty() && c.removed_hpo_terms().is_empty() && c.changed_hpo_terms().is_empty()
                && c.added_genes().is_empty() && c.removed_genes().is_empty() && c.changed_genes().is_empty()
                && c.added_omim_diseases().is_empty() && c.removed_omim_diseases().is_empty() && c.changed_omim_diseases().is_empty()
                && c.added_orpha_diseases().is_empty() && c.removed_orpha_diseases().is_empty() && c.changed_orpha_diseases().is_empty()
        };
        if !empty(&l.compare(&l)) {
            d.push("comparing an ontology with itself reports differences".to_string());
        }
        // (the binary form holds term and gene names up to the documented 255 bytes: the round-trip law is about ontologies within that limit)
        let within_limit = line["via"].as_str() != Some("obo");
        if let (true, Ok(l2)) = (within_limit, from_bytes(&l.as_bytes())) {
            if !empty(&l.compare(&l2)) || !empty(&l2.compare(&l)) {
                d.push("comparing an ontology with its binary round trip reports differences".to_string());
            }
        }
        let (c1, c2) = (l.compare(&r), r.compare(&l));
        let t = |v: Vec<hpo::HpoTerm>| -> BTreeSet<u32> { v.iter().map(|x| x.id().as_u32()).collect() };
        if t(c1.added_hpo_terms()) != t(c2.removed_hpo_terms()) || t(c1.removed_hpo_terms()) != t(c2.added_hpo_terms()) {
            d.push("swapping the arguments does not swap added and removed terms".to_string());
        }
        let g = |v: Vec<&hpo::annotations::Gene>| -> BTreeSet<u32> { v.iter().map(|x| x.id().as_u32()).collect() };
        if g(c1.added_genes()) != g(c2.removed_genes()) || g(c1.removed_genes()) != g(c2.added_genes()) {
            d.push("swapping the arguments does not swap added and removed genes".to_string());
        }
        if c1.changed_hpo_terms().len() != c2.changed_hpo_terms().len() || c1.changed_genes().len() != c2.changed_genes().len()
            || c1.changed_omim_diseases().len() != c2.changed_omim_diseases().len() || c1.changed_orpha_diseases().len() != c2.changed_orpha_diseases().len() {
            d.push("swapping the arguments changes the number of changed entries".to_string());
        }
        d
    });
    match laws {
        Ok(x) => d.extend(x),
        Err(p) => d.push(format!("compare (laws) panicked: {p}")),
    }
    if !d.is_empty() && st.violations.len() < 4 {
        d.truncate(8);
        let mut l2 = line.clone();
        l2["lbytes"] = json!(arr(&line["lbytes"]).len());
        l2["rbytes"] = json!(arr(&line["rbytes"]).len());
        st.violations.push(Violation { property: prop.to_string(), what: d[0].clone(), replay: json!({"cmd": "replay-compare", "property": prop, "line": l2, "diffs": d}) });
    }
}

pub fn run(args: &Args) {
    silence_panics();
    let Some(shard) = shard_or_spawn("replay-compare", args) else { return };
    let (n_all, lines) = read_tlc_lines_sharded(args.req("in"), "REPLAY", shard);
    if n_all == 0 {
        eprintln!("no REPLAY lines");
        std::process::exit(2);
    }
    let prop = args.get("prop").unwrap_or("EXTRA").to_string();
    let mut st = Stats::default();
    if let Some(l) = lines.first() {
        let mut x = l.clone();
        x["lbytes"] = json!(arr(&l["lbytes"]).len());
        x["rbytes"] = json!(arr(&l["rbytes"]).len());
        st.samples.push(x);
    }
    for l in &lines {
        guard_case(&mut st, &prop, "replay-compare", l, |st| replay_line(st, &prop, l));
    }
    finish(st, args.req("out"), args.req("replay-dir"), json!({"lines": lines.len()}));
}
