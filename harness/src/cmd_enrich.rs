//! C06: hypergeometric enrichment.  TLC (spec/Hypergeom.tla, BigNat.tla) supplies, per population
//! size N and sample size n, annotation profiles (K, k) with the EXACT tail probability as a pair
//! of big naturals and the fold enrichment as a rational.  Each (N, n) group is realised as real
//! ontologies (three layouts x three kinds) and the crate's enrichment functions are compared.
use crate::scenario::*;
use crate::util::*;
use hpo::annotations::AnnotationId;
use hpo::stats::hypergeom::{gene_enrichment, omim_disease_enrichment, orpha_disease_enrichment};
use hpo::term::HpoGroup;
use hpo::{HpoSet, Ontology};
use serde_json::{json, Value};
use std::collections::BTreeMap;

/// little-endian base-10^4 digits -> (mantissa, decimal exponent)
fn big_to_me(d: &[u32]) -> (f64, i32) {
    if d.is_empty() {
        return (0.0, 0);
    }
    let take = d.len().min(6);
    let mut m = 0.0f64;
    for i in 0..take {
        m = m * 1e4 + d[d.len() - 1 - i] as f64;
    }
    (m, 4 * (d.len() - take) as i32)
}
pub fn big_ratio(num: &[u32], den: &[u32]) -> f64 {
    let (mn, en) = big_to_me(num);
    let (md, ed) = big_to_me(den);
    if mn == 0.0 {
        return 0.0;
    }
    let mut r = mn / md;
    let mut e = en - ed;
    // apply the decimal exponent in safe steps
    while e > 0 {
        let s = e.min(200);
        r *= 10f64.powi(s);
        e -= s;
    }
    while e < 0 {
        let s = (-e).min(200);
        r /= 10f64.powi(s);
        e += s;
    }
    r
}

#[derive(Clone, Debug)]
struct Profile {
    big_k: u64,
    k: u64,
    p: f64,
    fold: f64,
}

struct Layout {
    ont: Ontology,
    background: Vec<u32>,
    whole: bool,
}

/// layout 0: the ontology is exactly N flat terms, background = the whole ontology
/// layout 1: root + N leaves + extra terms; background = the N leaves (a proper sub-collection)
/// layout 2: the N background terms are inner nodes, each annotation sits on a child leaf (inherited)
/// layout 3: as layout 1 plus HP:118, loaded from a BINARY file in which every third background term is flagged
///           obsolete and every fifth names a replacement: a term is a term, whatever its metadata says
fn build(layout: u32, n_pop: u64, n_sample: u64, profiles: &[Profile], kind: Kind) -> Result<(Layout, Vec<u32>, BTreeMap<u32, Profile>), String> {
    use crate::scenario::{Fact, Scenario, TermSpec};
    let r = catch(|| -> Result<(Layout, Vec<u32>, BTreeMap<u32, Profile>), String> {
        let mut scn = Scenario::default();
        scn.version = (2024, 2, 3);
        let flagged = layout == 3;
        let bg: Vec<u32> = (0..n_pop as u32).map(|i| 1000 + 3 * i).collect();
        let leaf = |t: u32| t + 1; // child leaf of background term t (layout 2)
        for (i, t) in bg.iter().enumerate() {
            scn.terms.push(TermSpec { id: *t, name: format!("B{t}"), obsolete: flagged && i % 3 == 0, repl: if flagged && i % 5 == 0 { Some(1) } else { None } });
            if layout == 2 {
                scn.terms.push(TermSpec { id: leaf(*t), name: format!("L{t}"), obsolete: false, repl: None });
            }
        }
        if layout >= 1 {
            scn.terms.push(TermSpec { id: 1, name: "root".into(), obsolete: false, repl: None });
            for e in 0..5u32 {
                scn.terms.push(TermSpec { id: 10 + e, name: format!("extra{e}"), obsolete: flagged && e == 2, repl: None });
            }
            for t in &bg {
                scn.edges.push((1, *t));
            }
            for e in 0..5u32 {
                scn.edges.push((1, 10 + e));
            }
        }
        if flagged {
            scn.terms.push(TermSpec { id: 118, name: "pheno".into(), obsolete: false, repl: None });
            scn.edges.push((1, 118));
        }
        if layout == 2 {
            for t in &bg {
                scn.edges.push((*t, leaf(*t)));
            }
        }
        let sample: Vec<u32> = bg[..n_sample as usize].to_vec();
        let rest: Vec<u32> = bg[n_sample as usize..].to_vec();
        let mut expected = BTreeMap::new();
        // names are arbitrary strings: some records carry the missing-value marker "-" or no name at all
        let name_of = |kind: Kind, x: u32| match (x % 5, kind) {
            (0, _) => "-".to_string(),
            (1, _) => String::new(),
            (_, Kind::Gene) => format!("g{x}"),
            (_, Kind::Omim) => format!("o{x}"),
            (_, Kind::Orpha) => format!("r{x}"),
        };
        let annotate = |scn: &mut Scenario, kind: Kind, x: u32, t: u32, plain: bool| {
            let t = if layout == 2 && !plain { leaf(t) } else { t };
            scn.facts.push(Fact { kind, x, name: name_of(kind, x), term: Some(t) });
        };
        for (i, p) in profiles.iter().enumerate() {
            let x = 500 + i as u32;
            // k of the sample terms, K-k of the others; rotate the start so that overlaps vary
            for j in 0..p.k {
                let t = sample[((i as u64 * 7 + j) % n_sample) as usize];
                annotate(&mut scn, kind, x, t, false);
            }
            for j in 0..(p.big_k - p.k) {
                let t = rest[((i as u64 * 5 + j) % rest.len() as u64) as usize];
                annotate(&mut scn, kind, x, t, false);
            }
            if p.k > 0 {
                expected.insert(x, p.clone());
            }
            // decoys of the OTHER kinds under the same numeric id, with a different profile:
            // a kind mix-up changes counts
            for other in KINDS {
                if other != kind {
                    annotate(&mut scn, other, x, bg[(i % bg.len()) as usize], false);
                    annotate(&mut scn, other, x, bg[((i + 1) % bg.len()) as usize], false);
                }
            }
            // in layouts with extra terms, annotate one of them too: terms outside the background must not count
            if layout >= 1 {
                annotate(&mut scn, kind, x, 10 + (i as u32 % 5), true);
            }
        }
        let ont = if flagged {
            let bytes = crate::enc::encode(&crate::enc::abstract_of_ordered(&scn, false), 3);
            crate::paths::from_bytes(&bytes)?
        } else {
            crate::paths::via_builder(&scn, crate::paths::EdgeOrder::AsGiven, false, false)?
        };
        Ok((Layout { ont, background: bg, whole: layout == 0 }, sample, expected))
    });
    match r {
        Ok(x) => x,
        Err(p) => Err(format!("panic while building: {p}")),
    }
}

fn set_of<'a>(ont: &'a Ontology, ids: &[u32]) -> HpoSet<'a> {
    let mut g = HpoGroup::new();
    for id in ids {
        g.insert(*id);
    }
    HpoSet::new(ont, g)
}

fn rel_close(got: f64, want: f64, rel: f64, abs: f64) -> bool {
    got.is_finite() && (got - want).abs() <= abs + rel * want.abs()
}

fn run_enrichment(l: &Layout, sample: &[u32], kind: Kind) -> Result<Vec<(u32, u64, f64, f64)>, String> {
    let ont = &l.ont;
    let bg = set_of(ont, &l.background);
    let s = set_of(ont, sample);
    catch(|| match (kind, l.whole) {
        (Kind::Gene, true) => gene_enrichment(ont, &s).iter().map(|e| (e.id().as_u32(), e.count(), e.pvalue(), e.enrichment())).collect(),
        (Kind::Gene, false) => gene_enrichment(&bg, &s).iter().map(|e| (e.id().as_u32(), e.count(), e.pvalue(), e.enrichment())).collect(),
        (Kind::Omim, true) => omim_disease_enrichment(ont, &s).iter().map(|e| (e.id().as_u32(), e.count(), e.pvalue(), e.enrichment())).collect(),
        (Kind::Omim, false) => omim_disease_enrichment(&bg, &s).iter().map(|e| (e.id().as_u32(), e.count(), e.pvalue(), e.enrichment())).collect(),
        (Kind::Orpha, true) => orpha_disease_enrichment(ont, &s).iter().map(|e| (e.id().as_u32(), e.count(), e.pvalue(), e.enrichment())).collect(),
        (Kind::Orpha, false) => orpha_disease_enrichment(&bg, &s).iter().map(|e| (e.id().as_u32(), e.count(), e.pvalue(), e.enrichment())).collect(),
    })
}

fn check_group(st: &mut Stats, n_pop: u64, n_sample: u64, profiles: &[Profile], layouts: &[u32]) -> Vec<String> {
    let mut d = vec![];
    for &layout in layouts {
        for kind in KINDS {
            let (l, sample, expected) = match build(layout, n_pop, n_sample, profiles, kind) {
                Ok(x) => x,
                Err(e) => {
                    d.push(format!("layout {layout} {}: cannot build: {e}", kind.name()));
                    continue;
                }
            };
            let res = match run_enrichment(&l, &sample, kind) {
                Ok(r) => r,
                Err(e) => {
                    d.push(format!("layout {layout} {}_enrichment(N={n_pop}, n={n_sample}) panicked: {e}", kind.name()));
                    continue;
                }
            };
            st.evaluations += expected.len() as u64;
            let mut seen: BTreeMap<u32, (u64, f64, f64)> = BTreeMap::new();
            for (id, count, p, fold) in &res {
                if seen.insert(*id, (*count, *p, *fold)).is_some() {
                    d.push(format!("layout {layout} {}: annotation {id} reported more than once", kind.name()));
                }
            }
            for (id, _) in &seen {
                if !expected.contains_key(id) {
                    d.push(format!("layout {layout} {}: annotation {id} reported although no sample term is linked to it (N={n_pop}, n={n_sample})", kind.name()));
                }
            }
            for (id, p) in &expected {
                let Some((count, pv, fold)) = seen.get(id) else {
                    d.push(format!("layout {layout} {}: annotation {id} (K={}, k={}) missing from the result (N={n_pop}, n={n_sample})", kind.name(), p.big_k, p.k));
                    continue;
                };
                if *count != p.k {
                    d.push(format!("layout {layout} {}: count {} expected k={} (N={n_pop}, K={}, n={n_sample})", kind.name(), count, p.k, p.big_k));
                }
                if p.p > 0.0 && pv.is_finite() {
                    let re = ((*pv - p.p) / p.p).abs();
                    let key = if n_pop > 170 { "max_rel_err_above_table_x1e18" } else { "max_rel_err_within_table_x1e18" };
                    let cur = st.counters.get(key).copied().unwrap_or(0);
                    st.counters.insert(key.to_string(), cur.max((re * 1e18) as u64));
                }
                if !rel_close(*pv, p.p, if n_pop <= 400 { 1e-10 } else { 1e-9 }, 1e-300) {
                    d.push(format!("layout {layout} {}: pvalue {:e} expected P[X>={}] = {:e} for Hypergeometric(N={n_pop}, K={}, n={n_sample})", kind.name(), pv, p.k, p.p, p.big_k));
                }
                if !(*pv >= -1e-12 && *pv <= 1.0 + 1e-9) {
                    d.push(format!("layout {layout} {}: pvalue {:e} outside [0,1] (N={n_pop}, K={}, n={n_sample}, k={})", kind.name(), pv, p.big_k, p.k));
                }
                if !rel_close(*fold, p.fold, 1e-12, 0.0) {
                    d.push(format!("layout {layout} {}: enrichment {} expected (k/n)/(K/N) = {} (N={n_pop}, K={}, n={n_sample}, k={})", kind.name(), fold, p.fold, p.big_k, p.k));
                }
            }
            // monotone in k for fixed N, K, n
            let mut by_k: BTreeMap<u64, Vec<(u64, f64)>> = BTreeMap::new();
            for (id, p) in &expected {
                if let Some((_, pv, _)) = seen.get(id) {
                    by_k.entry(p.big_k).or_default().push((p.k, *pv));
                }
            }
            for (big_k, mut v) in by_k {
                v.sort_by(|a, b| a.0.cmp(&b.0));
                for w in v.windows(2) {
                    if w[1].0 > w[0].0 && w[1].1 > w[0].1 * (1.0 + 1e-9) + 1e-300 {
                        d.push(format!("layout {layout} {}: pvalue increases with k: k={} -> {:e}, k={} -> {:e} (N={n_pop}, K={big_k}, n={n_sample})", kind.name(), w[0].0, w[0].1, w[1].0, w[1].1));
                    }
                }
            }
            if d.len() > 12 {
                return d;
            }
        }
    }
    d
}

fn parse_group(lines: &[&Value]) -> (u64, u64, Vec<Profile>) {
    let n_pop = lines[0]["N"].as_u64().unwrap();
    let n_sample = lines[0]["n"].as_u64().unwrap();
    let mut profiles = vec![];
    for l in lines {
        for a in arr(&l["anns"]) {
            let num: Vec<u32> = u32_list(&a["pnum"]);
            let den: Vec<u32> = u32_list(&a["pden"]);
            let k = a["k"].as_u64().unwrap();
            let big_k = a["K"].as_u64().unwrap();
            let fold = a["fold"][0].as_u64().unwrap() as f64 / a["fold"][1].as_u64().unwrap() as f64;
            profiles.push(Profile { big_k, k, p: big_ratio(&num, &den), fold });
        }
    }
    profiles.sort_by(|a, b| (a.big_k, a.k).cmp(&(b.big_k, b.k)));
    profiles.dedup_by(|a, b| a.big_k == b.big_k && a.k == b.k);
    (n_pop, n_sample, profiles)
}

pub fn run(args: &Args) {
    silence_panics();
    let Some(shard) = shard_or_spawn("replay-enrich", args) else { return };
    let prop = args.get("prop").unwrap_or("C06").to_string();
    let all = read_tlc_lines(args.req("in"), "REPLAY");
    if all.is_empty() {
        eprintln!("no REPLAY lines");
        std::process::exit(2);
    }
    let mut groups: BTreeMap<(u64, u64), Vec<&Value>> = BTreeMap::new();
    for l in &all {
        if l.get("anns").is_some() {
            groups.entry((l["N"].as_u64().unwrap(), l["n"].as_u64().unwrap())).or_default().push(l);
        }
    }
    let groups: Vec<((u64, u64), Vec<&Value>)> = groups.into_iter().enumerate().filter(|(i, _)| in_shard(*i, shard)).map(|(_, g)| g).collect();
    let mut st = Stats::default();
    for ((n_pop, n_sample), lines) in &groups {
        let (_, _, profiles) = parse_group(lines);
        st.cases += 1;
        st.nontrivial += profiles.iter().filter(|p| p.k > 0).count() as u64;
        if *n_pop > 170 {
            st.bump("profiles_above_factorial_table", profiles.len() as u64);
        } else {
            st.bump("profiles_within_factorial_table", profiles.len() as u64);
        }
        let layouts: Vec<u32> = if *n_pop <= 60 { vec![0, 1, 2, 3] } else { vec![0, 2] };
        let mut diffs = check_group(&mut st, *n_pop, *n_sample, &profiles, &layouts);
        // sparse variants: only one or two annotations in the whole ontology, so that most
        // background and sample terms carry NO annotation of the tested kind (they still count
        // towards N and n)
        let with_k: Vec<&Profile> = profiles.iter().filter(|p| p.k > 0).collect();
        if !with_k.is_empty() {
            let picks = [with_k[0].clone(), with_k[with_k.len() / 2].clone(), with_k[with_k.len() - 1].clone()];
            for (i, p) in picks.iter().enumerate() {
                let subset = if i == 1 { vec![p.clone(), picks[0].clone()] } else { vec![p.clone()] };
                let mut subset = subset;
                subset.dedup_by(|a, b| a.big_k == b.big_k && a.k == b.k);
                diffs.extend(check_group(&mut st, *n_pop, *n_sample, &subset, &[0, 1]).into_iter().map(|d| format!("sparse: {d}")));
            }
        }
        if st.samples.len() < 2 && (*n_pop == 7 || *n_pop > 170) {
            st.samples.push(json!({"N": n_pop, "n": n_sample, "profiles": profiles.iter().take(4).map(|p| json!({"K": p.big_k, "k": p.k, "p": p.p, "fold": p.fold})).collect::<Vec<_>>()}));
        }
        if !diffs.is_empty() && st.violations.len() < 8 {
            diffs.truncate(12);
            st.violations.push(Violation {
                property: prop.clone(),
                what: diffs[0].clone(),
                replay: json!({"cmd": "replay-enrich", "property": prop, "lines": lines, "diffs": diffs}),
            });
        }
    }
    finish(st, args.req("out"), args.req("replay-dir"), json!({"groups": groups.len()}));
}

pub fn replay_one(v: &Value) -> bool {
    silence_panics();
    let lines: Vec<&Value> = v["lines"].as_array().map(|a| a.iter().collect()).unwrap_or_default();
    if lines.is_empty() {
        return false;
    }
    let (n_pop, n_sample, profiles) = parse_group(&lines);
    let mut st = Stats::default();
    let d = check_group(&mut st, n_pop, n_sample, &profiles, &[0, 1, 2]);
    for l in &d {
        println!("reproduced: {l}");
    }
    !d.is_empty()
}
