#!/bin/sh
# usage: tlc.sh <workers> <metadir> <cfg> <module.tla> [extra tlc args]   (cwd = /verif/spec)
W=$1; M=$2; C=$3; T=$4; shift 4
export JAVA_TOOL_OPTIONS="${JAVA_TOOL_OPTIONS:--Xss1g}"
exec java -Xss1g -XX:+UseParallelGC -cp /opt/veriftools/tla/tla2tools.jar:/opt/veriftools/tla/CommunityModules-deps.jar tlc2.TLC -workers "$W" -metadir "$M" -cleanup -noGenerateSpecTE -config "$C" "$T" "$@"
