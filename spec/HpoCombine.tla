----------------------------- MODULE HpoCombine -----------------------------
(***************************************************************************)
(* Query layer, part 2: similarity of two term SETS.                       *)
(*                                                                         *)
(* GroupSimilarity builds the |A| x |B| matrix  M[i][j] = sim(A_i, B_j)    *)
(* (rows = A in ascending id order, columns = B in ascending id order,     *)
(* because HpoGroup is sorted) and a combiner folds it:                    *)
(*     funSimAvg = ( mean(row maxima) + mean(column maxima) ) / 2          *)
(*     funSimMax = max( mean(row maxima), mean(column maxima) )            *)
(*     BMA       = ( sum(row maxima) + sum(col maxima) ) / (|A| + |B|)     *)
(*     0 if either set is empty.                                           *)
(* Over integer matrices these are exact rationals <<num, den>>.           *)
(*                                                                         *)
(* CachedSimilarity memoises sim per ORDERED pair of ids; modelled as a    *)
(* machine whose invariant is that the cache is a restriction of sim.      *)
(***************************************************************************)
EXTENDS Integers, Sequences, FiniteSets, FiniteSetsExt, SequencesExt, Functions

(* a matrix is a sequence of r rows, each a sequence of c integers; r = 0  *)
(* or c = 0 is the empty matrix                                            *)
Rows(M) == Len(M)
Cols(M) == IF Len(M) = 0 THEN 0 ELSE Len(M[1])

SeqMax(s) == Max({s[i] : i \in DOMAIN s})
RowMax(M, i) == SeqMax(M[i])
ColMax(M, j) == Max({M[i][j] : i \in 1..Rows(M)})

RECURSIVE SumTo(_, _)
SumTo(f, n) == IF n = 0 THEN 0 ELSE f[n] + SumTo(f, n - 1)

SumRowMax(M) == SumTo([i \in 1..Rows(M) |-> RowMax(M, i)], Rows(M))
SumColMax(M) == SumTo([j \in 1..Cols(M) |-> ColMax(M, j)], Cols(M))

IsEmpty(M) == Rows(M) = 0 \/ Cols(M) = 0

FunSimAvg(M) ==
  IF IsEmpty(M) THEN <<0, 1>>
  ELSE <<Cols(M) * SumRowMax(M) + Rows(M) * SumColMax(M), 2 * Rows(M) * Cols(M)>>

FunSimMax(M) ==
  IF IsEmpty(M) THEN <<0, 1>>
  ELSE IF SumRowMax(M) * Cols(M) >= SumColMax(M) * Rows(M)      \* compare SR/r with SC/c
       THEN <<SumRowMax(M), Rows(M)>> ELSE <<SumColMax(M), Cols(M)>>

Bma(M) ==
  IF IsEmpty(M) THEN <<0, 1>>
  ELSE <<SumRowMax(M) + SumColMax(M), Rows(M) + Cols(M)>>

Combine(name, M) ==
  CASE name = "funsimavg" -> FunSimAvg(M)
    [] name = "funsimmax" -> FunSimMax(M)
    [] name = "bma"       -> Bma(M)

Combiners == {"funsimavg", "funsimmax", "bma"}

Transpose(M) == IF IsEmpty(M) THEN <<>> ELSE [j \in 1..Cols(M) |-> [i \in 1..Rows(M) |-> M[i][j]]]

RatEq(p, q) == p[1] * q[2] = q[1] * p[2]
RatLe(p, q) == p[1] * q[2] <= q[1] * p[2]

(* Every combiner is invariant under transposition.  With a symmetric term *)
(* similarity the matrix of (B, A) is the transpose of the matrix of       *)
(* (A, B), hence "independent of argument order".                          *)
TransposeInvariant(M) == \A n \in Combiners : RatEq(Combine(n, M), Combine(n, Transpose(M)))

(* sanity relations between the combiners: max >= avg, and BMA lies        *)
(* between min and max of the two means                                    *)
CombinerOrder(M) ==
  IsEmpty(M) \/ ( /\ RatLe(FunSimAvg(M), FunSimMax(M))
                  /\ RatLe(Bma(M), FunSimMax(M)) )

(* the matrix GroupSimilarity builds for sets A, B under the pairwise      *)
(* function F (a function on ordered pairs of ids)                         *)
Sorted(S) == SetToSortSeq(S, LAMBDA x, y : x < y)
SetMatrix(F, A, B) ==
  IF A = {} \/ B = {} THEN <<>>
  ELSE LET sa == Sorted(A) sb == Sorted(B) IN
       [i \in 1..Len(sa) |-> [j \in 1..Len(sb) |-> F[<<sa[i], sb[j]>>]]]

SetSim(F, A, B, name) == Combine(name, SetMatrix(F, A, B))

=============================================================================
