------------------------------ MODULE HpoCore ------------------------------
(***************************************************************************)
(* WHAT the hpo crate's type-state Builder computes.                       *)
(*                                                                         *)
(*   Builder<LooseCollection> --terms_complete--> Builder<AllTerms>        *)
(*     --connect_all_terms--> Builder<ConnectedTerms>                      *)
(*     --calculate_information_content--> Builder<FullyAnnotated>          *)
(*     --build_minimal / build_with_defaults--> Ontology                   *)
(*                                                                         *)
(* One action per public Builder call.  ConnectAll and Annotate are atomic *)
(* here; HpoAlgo.tla refines them into the step-level control flow of the  *)
(* Rust code (memoised recursion, early exit) and TLC checks the           *)
(* refinement.  Ids are naturals whose ORDER is behaviour relevant (the    *)
(* crate iterates sorted id groups), RecIds gives the gene / OMIM / ORPHA  *)
(* id universes, which deliberately overlap across kinds.                  *)
(***************************************************************************)
EXTENDS HpoGraph, TLC

CONSTANTS Ids,       \* finite set of naturals: the term ids a run may use
          RecIds,    \* [Kinds -> finite set of naturals]
          RootId,    \* the id playing HP:0000001 (or a value outside Ids)
          PhenoId    \* the id playing HP:0000118 (or a value outside Ids)

Kinds == {"gene", "omim", "orpha"}
Phases == {"loose", "all", "connected", "annotated", "built"}

VARIABLES phase,     \* type-state of the Builder
          arena,     \* Seq(Ids): insertion order of the terms, no duplicates
          parents,   \* [Ids -> SUBSET Ids] direct is_a parents
          children,  \* [Ids -> SUBSET Ids] direct children (written separately by the code)
          allp,      \* [Ids -> SUBSET Ids] the per-term ancestor cache
          ann,       \* [Kinds -> [Ids -> SUBSET Nat]] inherited annotation ids per term
          rec,       \* [Kinds -> partial function id -> [name, hpos]] records with DIRECT terms
          ic,        \* [Kinds -> [Ids -> <<n, N>>]] exact arguments of -ln(n/N)
          nfact,     \* number of annotate/add-record calls so far (names records: first name wins)
          bmode      \* "none" | "minimal" | "defaults"

coreVars == <<phase, arena, parents, children, allp, ann, rec, ic, nfact, bmode>>

Terms == Range(arena)

EmptyRel == [t \in Ids |-> {}]

CoreInit ==
  /\ phase = "loose"
  /\ arena = <<>>
  /\ parents = EmptyRel
  /\ children = EmptyRel
  /\ allp = EmptyRel
  /\ ann = [k \in Kinds |-> EmptyRel]
  /\ rec = [k \in Kinds |-> <<>>]          \* <<>> = the function with empty domain
  /\ ic = [k \in Kinds |-> [t \in Ids |-> <<0, 0>>]]
  /\ nfact = 0
  /\ bmode = "none"

-----------------------------------------------------------------------------
(* Builder<LooseCollection>::new_term.  A repeated id is ignored           *)
(* (Arena::insert keeps the first term), i.e. a stuttering step.           *)
NewTerm(id) ==
  /\ phase = "loose"
  /\ id \in Ids
  /\ arena' = IF id \in Terms THEN arena ELSE Append(arena, id)
  /\ UNCHANGED <<phase, parents, children, allp, ann, rec, ic, nfact, bmode>>

TermsComplete ==
  /\ phase = "loose"
  /\ phase' = "all"
  /\ UNCHANGED <<arena, parents, children, allp, ann, rec, ic, nfact, bmode>>

(* Builder<AllTerms>::add_parent(parent, child).  Both terms must exist.   *)
(* The crate does not check acyclicity; every listed property quantifies   *)
(* over acyclic graphs, so the guard keeps the model inside that envelope. *)
AddParent(p, c) ==
  /\ phase = "all"
  /\ p \in Terms /\ c \in Terms /\ p # c
  /\ c \notin AncSelf(parents, p)             \* stays acyclic
  /\ parents'  = [parents  EXCEPT ![c] = @ \cup {p}]
  /\ children' = [children EXCEPT ![p] = @ \cup {c}]
  /\ UNCHANGED <<phase, arena, allp, ann, rec, ic, nfact, bmode>>

(* Builder<AllTerms>::connect_all_terms, atomically: the cache becomes the *)
(* transitive closure.                                                     *)
ConnectAll ==
  /\ phase = "all"
  /\ phase' = "connected"
  /\ allp' = [t \in Ids |-> IF t \in Terms THEN Anc(parents, t) ELSE {}]
  /\ UNCHANGED <<arena, parents, children, ann, rec, ic, nfact, bmode>>

HasRec(k, x) == x \in DOMAIN rec[k]

NewRec(k, x) == [name |-> nfact + 1, hpos |-> {}]

RecWith(k, x) == IF HasRec(k, x) THEN rec[k][x] ELSE NewRec(k, x)

(* function update that may extend the domain *)
Put(f, x, v) == [y \in DOMAIN f \cup {x} |-> IF y = x THEN v ELSE f[y]]

(* Builder<ConnectedTerms>::add_gene / add_omim_disease / add_orpha_disease:*)
(* a record without any term; an existing record keeps its first name.     *)
AddRecord(k, x) ==
  /\ phase = "connected"
  /\ x \in RecIds[k]
  /\ rec' = [rec EXCEPT ![k] = Put(@, x, RecWith(k, x))]
  /\ nfact' = nfact + 1
  /\ UNCHANGED <<phase, arena, parents, children, allp, ann, ic, bmode>>

(* Builder<ConnectedTerms>::annotate_gene/_omim_disease/_orpha_disease on  *)
(* an existing term: the record gains the DIRECT term, the term and all    *)
(* its ancestors gain the annotation id.                                   *)
Annotate(k, x, t) ==
  /\ phase = "connected"
  /\ x \in RecIds[k] /\ t \in Terms
  /\ rec' = [rec EXCEPT ![k] = Put(@, x, [RecWith(k, x) EXCEPT !.hpos = @ \cup {t}])]
  /\ ann' = [ann EXCEPT ![k] = [a \in Ids |-> IF a \in {t} \cup allp[t] THEN @[a] \cup {x} ELSE @[a]]]
  /\ nfact' = nfact + 1
  /\ UNCHANGED <<phase, arena, parents, children, allp, ic, bmode>>

(* Builder::add_gene_from_bytes / add_omim_disease_from_bytes /            *)
(* add_orpha_disease_from_bytes (the binary loader, crate-internal): one   *)
(* NEW record arrives with ALL its direct terms at once.  Observationally  *)
(* the same as AddRecord followed by one Annotate per term, but a single   *)
(* call - and a single step of the step-level machine (HpoAlgo!LinkFinish  *)
(* in mode "bytes"), which is why it is an action of its own here.         *)
LoadRecord(k, x, S) ==
  /\ phase = "connected"
  /\ x \in RecIds[k] /\ ~HasRec(k, x) /\ S \subseteq Terms
  /\ rec' = [rec EXCEPT ![k] = Put(@, x, [name |-> nfact + 1, hpos |-> S])]
  /\ ann' = [ann EXCEPT ![k] = [a \in Ids |-> IF \E t \in S : a \in {t} \cup allp[t] THEN @[a] \cup {x} ELSE @[a]]]
  /\ nfact' = nfact + 1
  /\ UNCHANGED <<phase, arena, parents, children, allp, ic, bmode>>

(* HISTORICAL (before the repair of finding F4, see HpoReject.tla):          *)
(* annotate_* on a term that does not exist: the record is still created    *)
(* and gains the (dangling) term id, then the call returns DoesNotExist.   *)
(* Named deviation from the ideal; outside the envelope of the properties  *)
(* (they require every annotated term to exist) and disabled in MC configs.*)
AnnotateMissingTerm(k, x, t) ==
  /\ phase = "connected"
  /\ x \in RecIds[k] /\ t \in Ids \ Terms
  /\ rec' = [rec EXCEPT ![k] = Put(@, x, [RecWith(k, x) EXCEPT !.hpos = @ \cup {t}])]
  /\ nfact' = nfact + 1
  /\ UNCHANGED <<phase, arena, parents, children, allp, ann, ic, bmode>>

(* Builder<ConnectedTerms>::calculate_information_content: per kind and    *)
(* term the pair (n, N); the float -ln(n/N) is evaluated outside TLC.      *)
CalcIC ==
  /\ phase = "connected"
  /\ phase' = "annotated"
  /\ ic' = [k \in Kinds |-> [t \in Ids |->
              <<Cardinality(ann[k][t]), Cardinality(DOMAIN rec[k])>>]]
  /\ UNCHANGED <<arena, parents, children, allp, ann, rec, nfact, bmode>>

BuildMinimal ==
  /\ phase = "annotated"
  /\ phase' = "built" /\ bmode' = "minimal"
  /\ UNCHANGED <<arena, parents, children, allp, ann, rec, ic, nfact>>

(* build_with_defaults needs HP:0000001 and HP:0000118.                    *)
BuildDefaults ==
  /\ phase = "annotated"
  /\ RootId \in Terms /\ PhenoId \in Terms
  /\ phase' = "built" /\ bmode' = "defaults"
  /\ UNCHANGED <<arena, parents, children, allp, ann, rec, ic, nfact>>

CoreNext ==
  \/ \E id \in Ids : NewTerm(id)
  \/ TermsComplete
  \/ \E p, c \in Ids : AddParent(p, c)
  \/ ConnectAll
  \/ \E k \in Kinds : \E x \in RecIds[k] : AddRecord(k, x) \/ \E t \in Ids : Annotate(k, x, t)
  \/ \E k \in Kinds : \E x \in RecIds[k] : \E S \in SUBSET Terms : LoadRecord(k, x, S)
  \/ CalcIC
  \/ BuildMinimal
  \/ BuildDefaults

CoreSpec == CoreInit /\ [][CoreNext]_coreVars

-----------------------------------------------------------------------------
(* Derived observables of a built ontology (documented defaults).          *)

(* modifier roots: children of the root other than "Phenotypic abnormality" *)
Modifiers ==
  IF bmode = "defaults" THEN children[RootId] \ {PhenoId} ELSE {}

(* categories: children of the root except 118, plus the children of 118    *)
CategoryRoots ==
  IF bmode = "defaults" THEN (children[RootId] \ {PhenoId}) \cup children[PhenoId] ELSE {}

IsModifier(t) == (AncSelf(parents, t) \cap Modifiers) # {}
Categories(t) == AncSelf(parents, t) \cap CategoryRoots

(* the direct-annotation facts, recovered from the records                  *)
Direct(k, x) == rec[k][x].hpos

-----------------------------------------------------------------------------
(* State invariants = the structural halves of properties C01 - C03.       *)

Connected == phase \in {"connected", "annotated", "built"}

TypeOK ==
  /\ phase \in Phases
  /\ Terms \subseteq Ids
  /\ Len(arena) = Cardinality(Terms)
  /\ \A t \in Ids : parents[t] \subseteq Terms /\ children[t] \subseteq Terms /\ allp[t] \subseteq Terms
  /\ \A k \in Kinds : DOMAIN rec[k] \subseteq RecIds[k]

(* C01 *)
ClosureExact ==
  Connected => \A t \in Terms : allp[t] = Anc(parents, t) /\ t \notin allp[t]
InverseRel ==
  \A a, b \in Ids : (a \in parents[b]) <=> (b \in children[a])

(* C02 *)
LinkExact ==
  Connected => \A k \in Kinds : \A t \in Terms :
     ann[k][t] = {x \in DOMAIN rec[k] : DescSelf(parents, t) \cap rec[k][x].hpos # {}}
Resolvable ==
  \A k \in Kinds : /\ \A t \in Ids : ann[k][t] \subseteq DOMAIN rec[k]
                   /\ \A x \in DOMAIN rec[k] : rec[k][x].hpos \subseteq Terms
UpClosed ==
  Connected => \A k \in Kinds : \A t \in Terms : \A a \in allp[t] : ann[k][t] \subseteq ann[k][a]

(* C03 *)
ICArgsExact ==
  phase \in {"annotated", "built"} =>
     \A k \in Kinds : \A t \in Terms :
        ic[k][t] = <<Cardinality(ann[k][t]), Cardinality(DOMAIN rec[k])>>
ICMonotone ==   \* set inclusion along ancestor edges: n_t <= n_a, hence IC(a) <= IC(t) when n_t > 0
  phase \in {"annotated", "built"} =>
     \A k \in Kinds : \A t \in Terms : \A a \in allp[t] :
        ic[k][t][1] <= ic[k][a][1] /\ ic[k][t][2] = ic[k][a][2] /\ ic[k][t][1] <= ic[k][t][2]

-----------------------------------------------------------------------------
(* The observable projection of the ontology that results from the current *)
(* builder state, defined SEMANTICALLY (closure, downward union) and not   *)
(* read off the cache variables - the invariants above say the two agree.  *)
(* This is what replay compares the real Ontology with.                    *)

LinkedTo(k, t) == LinkedPure(parents, rec[k], t)

Proj == ProjPure(arena, parents, rec["gene"], rec["omim"], rec["orpha"])

=============================================================================
