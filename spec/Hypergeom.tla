------------------------------ MODULE Hypergeom ------------------------------
(***************************************************************************)
(* Exact hypergeometric upper tail.  X ~ Hypergeometric(N population,      *)
(* K successes, n draws):                                                  *)
(*      P[X >= k] = TailNum(N,K,n,k) / TailDen(N,n)                        *)
(*      TailNum   = SUM_{i = max(k, n+K-N)}^{min(K,n)} C(K,i) C(N-K,n-i)   *)
(*      TailDen   = C(N,n)                                                 *)
(* as big naturals (module BigNat).  No logarithms, no gamma function, no  *)
(* factorial table: this is the definition the crate's ln-space            *)
(* computation has to agree with.                                          *)
(***************************************************************************)
EXTENDS BigNat

(* C(n, k) by the multiplicative recurrence C(n,i) = C(n,i-1) (n-i+1) / i, *)
(* every division exact                                                    *)
RECURSIVE BinomUp(_, _, _, _)
BinomUp(n, k, i, acc) ==
  IF i > k THEN acc
  ELSE BinomUp(n, k, i + 1, DivSmall(MulSmall(acc, n - i + 1), i))
Binom(n, k) ==
  IF k < 0 \/ k > n THEN <<>>
  ELSE LET kk == IF k > n - k THEN n - k ELSE k
       IN  BinomUp(n, kk, 1, <<1>>)

Lo(N, K, n) == IF n + K - N > 0 THEN n + K - N ELSE 0
Hi(K, n) == IF K < n THEN K ELSE n

(* sum of C(K,i) C(N-K,n-i) for i = from..Hi, stepping both binomials      *)
(* incrementally:  a = C(K,i), b = C(N-K, n-i)                             *)
RECURSIVE TailSum(_, _, _, _, _, _, _)
TailSum(N, K, n, i, a, b, acc) ==
  LET acc2 == Add(acc, Mul(a, b)) IN
  IF i = Hi(K, n) THEN acc2
  ELSE TailSum(N, K, n, i + 1,
               DivSmall(MulSmall(a, K - i), i + 1),
               DivSmall(MulSmall(b, n - i), N - K - n + i + 1),
               acc2)

TailNum(N, K, n, k) ==
  LET from == IF k > Lo(N, K, n) THEN k ELSE Lo(N, K, n) IN
  IF from > Hi(K, n) THEN <<>>
  ELSE TailSum(N, K, n, from, Binom(K, from), Binom(N - K, n - from), <<>>)

TailDen(N, n) == Binom(N, n)

(* The same tails for ALL k at once, in one downward pass (used for large   *)
(* populations, where evaluating TailNum per k would repeat the work):     *)
(* Suffix(N,K,n)[j] = SUM_{i >= Hi-j+1} C(K,i) C(N-K,n-i), j = 1..Hi-Lo+1.  *)
RECURSIVE Down(_, _, _, _, _, _, _)
Down(N, K, n, i, a, b, acc) ==
  LET s    == Add(IF acc = <<>> THEN <<>> ELSE acc[Len(acc)], Mul(a, b))
      acc2 == Append(acc, s)
  IN  IF i = Lo(N, K, n) THEN acc2
      ELSE Down(N, K, n, i - 1,
                DivSmall(MulSmall(a, i), K - i + 1),
                DivSmall(MulSmall(b, N - K - n + i), n - i + 1),
                acc2)
Suffix(N, K, n) == Down(N, K, n, Hi(K, n), Binom(K, Hi(K, n)), Binom(N - K, n - Hi(K, n)), <<>>)

TailFrom(S, N, K, n, k) ==
  IF k > Hi(K, n) THEN <<>>
  ELSE IF k <= Lo(N, K, n) THEN S[Len(S)]
  ELSE S[Hi(K, n) - k + 1]

(* Closed forms of the two extreme tails, cheap enough for populations of several thousand    *)
(* (where the ln-space computation of the crate meets floating point underflow):               *)
(*   P[X >= Hi]     = C(K,Hi) C(N-K,n-Hi) / C(N,n)                     (a single term)        *)
(*   P[X >= Lo + 1] = (C(N,n) - C(K,Lo) C(N-K,n-Lo)) / C(N,n)          (all but the first)    *)
TailTop(N, K, n) == Mul(Binom(K, Hi(K, n)), Binom(N - K, n - Hi(K, n)))
TailAboveLo(N, K, n) == Sub(Binom(N, n), Mul(Binom(K, Lo(N, K, n)), Binom(N - K, n - Lo(N, K, n))))

(* Self checks TLC evaluates on every tuple it is asked about:             *)
(* Vandermonde: the full sum is C(N,n); and the tail is antitone in k.      *)
Vandermonde(N, K, n) == TailNum(N, K, n, 0) = TailDen(N, n)
TailAntitone(N, K, n, k) == Cmp(TailNum(N, K, n, k + 1), TailNum(N, K, n, k)) <= 0
TailBounded(N, K, n, k) == Cmp(TailNum(N, K, n, k), TailDen(N, n)) <= 0

=============================================================================
