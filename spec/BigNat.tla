------------------------------- MODULE BigNat -------------------------------
(***************************************************************************)
(* Arbitrary precision naturals for TLC (whose integers are 32 bit):       *)
(* little-endian sequences of base-10^4 digits, <<>> = 0, no leading zero  *)
(* digit.  Enough arithmetic to state binomial coefficients and the        *)
(* hypergeometric tail EXACTLY for populations far above the crate's       *)
(* 170-entry factorial table.                                              *)
(***************************************************************************)
EXTENDS Integers, Sequences

Base == 10000

Rest(s) == IF Len(s) <= 1 THEN <<>> ELSE SubSeq(s, 2, Len(s))
Hd(s) == IF s = <<>> THEN 0 ELSE s[1]

RECURSIVE FromNat(_)
FromNat(n) == IF n = 0 THEN <<>> ELSE <<n % Base>> \o FromNat(n \div Base)

RECURSIVE Strip(_)
Strip(s) == IF s = <<>> THEN <<>> ELSE IF s[Len(s)] = 0 THEN Strip(SubSeq(s, 1, Len(s) - 1)) ELSE s

RECURSIVE AddC(_, _, _)
AddC(a, b, c) ==
  IF a = <<>> /\ b = <<>> THEN (IF c = 0 THEN <<>> ELSE <<c>>)
  ELSE LET x == Hd(a) + Hd(b) + c
       IN  <<x % Base>> \o AddC(Rest(a), Rest(b), x \div Base)
Add(a, b) == AddC(a, b, 0)

(* a - b for a >= b *)
RECURSIVE SubB(_, _, _)
SubB(a, b, borrow) ==
  IF a = <<>> THEN <<>>
  ELSE LET x == a[1] - Hd(b) - borrow
       IN  IF x < 0 THEN <<x + Base>> \o SubB(Rest(a), Rest(b), 1)
           ELSE <<x>> \o SubB(Rest(a), Rest(b), 0)
Sub(a, b) == Strip(SubB(a, b, 0))

(* a * m for a small m (m < Base, so every intermediate fits 32 bits) *)
RECURSIVE MulSmallC(_, _, _)
MulSmallC(a, m, c) ==
  IF a = <<>> THEN FromNat(c)
  ELSE LET x == a[1] * m + c
       IN  <<x % Base>> \o MulSmallC(Rest(a), m, x \div Base)
MulSmall(a, m) == IF m = 0 THEN <<>> ELSE MulSmallC(a, m, 0)

(* a * b: sum of shifted partial products *)
RECURSIVE Mul(_, _)
Mul(a, b) ==
  IF a = <<>> \/ b = <<>> THEN <<>>
  ELSE LET hi == Mul(a, Rest(b))
       IN  Add(MulSmall(a, b[1]), IF hi = <<>> THEN <<>> ELSE <<0>> \o hi)

(* a div d for a small d, most significant digit first; DivRem returns      *)
(* <<quotient digits (little endian, unstripped), remainder>>               *)
RECURSIVE DivRem(_, _)
DivRem(a, d) ==
  IF a = <<>> THEN <<<<>>, 0>>
  ELSE LET hi  == DivRem(Rest(a), d)
           cur == hi[2] * Base + a[1]
       IN  <<<<cur \div d>> \o hi[1], cur % d>>
DivSmall(a, d) == Strip(DivRem(a, d)[1])
RemSmall(a, d) == DivRem(a, d)[2]

(* -1, 0, 1 *)
RECURSIVE CmpFrom(_, _, _)
CmpFrom(a, b, i) ==
  IF i = 0 THEN 0
  ELSE IF a[i] < b[i] THEN -1 ELSE IF a[i] > b[i] THEN 1 ELSE CmpFrom(a, b, i - 1)
Cmp(a, b) ==
  IF Len(a) < Len(b) THEN -1 ELSE IF Len(a) > Len(b) THEN 1 ELSE CmpFrom(a, b, Len(a))

IsNat(a) == /\ \A i \in DOMAIN a : a[i] \in 0..(Base - 1)
            /\ (a # <<>> => a[Len(a)] # 0)

(* small values back to TLC integers (only used in self checks) *)
RECURSIVE ToNat(_)
ToNat(a) == IF a = <<>> THEN 0 ELSE a[1] + Base * ToNat(Rest(a))

=============================================================================
