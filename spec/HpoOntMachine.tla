---------------------------- MODULE HpoOntMachine ----------------------------
(***************************************************************************)
(* The built Ontology as an OBJECT whose category and modifier roots can   *)
(* still change (C13 / C19 under histories).                               *)
(*                                                                         *)
(* After build_minimal an ontology has no category and no modifier roots;  *)
(* the public API can change them afterwards:                              *)
(*     set_default_modifier()    mods := children(HP:1) \ {HP:118}         *)
(*     set_default_categories()  cats := mods_default + children(HP:118)   *)
(*     modifier_mut().insert(t)  mods := mods + {t}                        *)
(*     categories_mut().insert(t) cats := cats + {t}                       *)
(*     *modifier_mut() = {}      mods := {}                                *)
(* (build_with_defaults = build_minimal; set_default_categories;           *)
(* set_default_modifier.)  Whatever the history, every observer is the     *)
(* pure function of the CURRENT roots:                                     *)
(*     is_modifier(t)   <=> AncSelf(t) meets mods                          *)
(*     categories(t)    =   AncSelf(t) \cap cats, ascending                *)
(*     without_modifier(S) / remove_modifier(S) = {t \in S : ~is_modifier} *)
(*     categories(S)    =   per category root the number of members below  *)
(* A derived table that is computed once and survives a later change of    *)
(* the roots is a wrong history although every fresh ontology is right.    *)
(***************************************************************************)
EXTENDS HpoGraph, TLC

CONSTANTS WTerms,     \* the term ids of the world (contains 1 and 118)
          WParents,   \* [WTerms -> SUBSET WTerms]
          InsertIds,  \* ids that modifier_mut / categories_mut may insert
          MaxOps

VARIABLES mods, cats, hist

omVars == <<mods, cats, hist>>

DefaultMods == ChildrenOf(WParents, 1) \ {118}
DefaultCats == DefaultMods \cup ChildrenOf(WParents, 118)

IsMod(m, t) == AncSelf(WParents, t) \cap m # {}
CatsOf(c, t) == AncSelf(WParents, t) \cap c

Obs(m, c) ==
  [ modifier |-> Sorted(m), categories |-> Sorted(c),
    terms |-> LET ids == Sorted(WTerms) IN
              [i \in 1..Len(ids) |-> [id |-> ids[i], is_modifier |-> IsMod(m, ids[i]), categories |-> Sorted(CatsOf(c, ids[i]))]],
    sets |-> LET subs == SetToSeq(SUBSET WTerms) IN
             [i \in 1..Len(subs) |->
                [ set |-> Sorted(subs[i]),
                  without_modifier |-> Sorted({t \in subs[i] : ~IsMod(m, t)}),
                  categories |-> LET ks == Sorted({k \in c : \E t \in subs[i] : k \in AncSelf(WParents, t)}) IN
                                 [j \in 1..Len(ks) |-> <<ks[j], Cardinality({t \in subs[i] : ks[j] \in AncSelf(WParents, t)})>>] ]] ]

OMInit == mods = {} /\ cats = {} /\ hist = <<>>

Step(name, arg, m2, c2) ==
  /\ Len(hist) < MaxOps
  /\ mods' = m2 /\ cats' = c2
  /\ hist' = Append(hist, [op |-> name, arg |-> arg, obs |-> Obs(m2, c2)])

OMNext ==
  \/ Step("set_default_modifier", 0, DefaultMods, cats)
  \/ Step("set_default_categories", 0, mods, DefaultCats)
  \/ \E t \in InsertIds : Step("insert_modifier", t, mods \cup {t}, cats)
  \/ \E t \in InsertIds : Step("insert_category", t, mods, cats \cup {t})
  \/ Step("clear_modifier", 0, {}, cats)

OMSpec == OMInit /\ [][OMNext]_omVars

TypeOK == mods \subseteq WTerms /\ cats \subseteq WTerms
(* modifiers are closed downwards, never contain a term above every root; the documented defaults *)
ModLaws ==
  /\ \A t \in WTerms : IsMod(mods, t) => \A d \in Desc(WParents, t) : IsMod(mods, d)
  /\ \A t \in mods : IsMod(mods, t)
  /\ (mods = DefaultMods) => (~IsMod(mods, 1) /\ ~IsMod(mods, 118))
=============================================================================
