------------------------------ MODULE TraceGroup ------------------------------
(***************************************************************************)
(* impl -> spec validation for C12: `hv record-group` builds random groups *)
(* far beyond the universe TLC enumerates (0..200 insertions with          *)
(* duplicates, ids up to 10^7, sizes across the inline capacity of 30),    *)
(* combines them with the crate and RECORDS every reply and view; TLC      *)
(* replays the events on the group machine of HpoGroupSpec:                *)
(*                                                                         *)
(*   Start                 -> the machine is reset to the empty group      *)
(*   Ins id new            -> Insert(id); the reply must be the machine's  *)
(*   View iter len empty   -> the view of the current content              *)
(*   Ops a b union inter x plus bitor_id                                   *)
(*                         -> a is the current content; the four results   *)
(*                            are the set operations in ascending order    *)
(* A panic of the crate is recorded as an event no action matches.         *)
(***************************************************************************)
EXTENDS HpoGroupSpec, Json, IOUtils, TLC

Rec == ndJsonDeserialize(IOEnv.TRACE)

VARIABLE l

Ev == Rec[l]
IsEvent(e) == l <= Len(Rec) /\ Rec[l].e = e /\ l' = l + 1
SetOf(s) == {s[k] : k \in 1..Len(s)}

TInit == l = 1 /\ Init

TStart == IsEvent("Start") /\ set' = {} /\ log' = <<>>

TIns ==
  /\ IsEvent("Ins")
  /\ set' = set \cup {Ev.id}
  /\ log' = <<[id |-> Ev.id, new |-> Ev.id \notin set]>>       \* only the last reply is kept (the history would grow to hundreds of entries)
  /\ Ev.new = (Ev.id \notin set)

TView ==
  /\ IsEvent("View")
  /\ Ev.iter = View(set).iter /\ Ev.len = View(set).len /\ Ev.empty = (set = {})
  /\ UNCHANGED <<set, log>>

TOps ==
  /\ IsEvent("Ops")
  /\ LET A == SetOf(Ev.a) B == SetOf(Ev.b) IN
       /\ Ev.a = Asc(set)
       /\ StrictlyAscending(Ev.b)
       /\ Ev.union = Asc(Union(A, B))
       /\ Ev.inter = Asc(Inter(A, B))
       /\ Ev.plus = Asc(AddOne(A, Ev.x))
       /\ Ev.bitor_id = Asc(AddOne(A, Ev.x))
       /\ Laws(A, B)
  /\ UNCHANGED <<set, log>>

TNext == TStart \/ TIns \/ TView \/ TOps
TSpec == TInit /\ [][TNext]_<<set, log, l>>

Accepted ==
  TLCGet("stats").diameter = Len(Rec) + 1
    \/ (PrintT(<<"UNMATCHED", TLCGet("stats").diameter>>) /\ FALSE)     \* = number of the first line not matched
=============================================================================
