------------------------------ MODULE TraceAlgo ------------------------------
(***************************************************************************)
(* impl -> spec validation at the STEP level.  With --cfg hpo_verif the    *)
(* crate emits one event per step of connect_all_terms, link_*_term and    *)
(* Arena::insert; the events are matched 1:1 against the actions of the    *)
(* step-level machines of HpoAlgo:                                         *)
(*    ConnectBegin      ConnectStart                                       *)
(*    CacheEnter(t)     OuterNext (outer loop) / already pushed by Descend *)
(*    GrandparentsMiss  Descend                                            *)
(*    GrandparentsRead  UseCached                                          *)
(*    CacheReturn       Return, with the logged cache entry                *)
(*    ConnectEnd        ConnectFinish                                      *)
(*    LinkVisit         LinkBeginBuilder (top level) / LinkStep            *)
(*    LinkLeave         LinkPop (or nothing after an early exit)           *)
(*    AnnotateEnd       LinkFinish                                         *)
(*    ArenaInsert       check only: slot presence and length               *)
(* While the trace is accepted, TLC's exhaustive small-scope results about *)
(* the parents_cached heuristic and the early exit are statements about    *)
(* THIS code's algorithm.  A rejection is algorithm drift, not a property  *)
(* violation.                                                              *)
(***************************************************************************)
EXTENDS HpoAlgo, Json, IOUtils

Rec == ndJsonDeserialize(IOEnv.TRACE)

VARIABLE l
tvars == <<algoVars, l>>

Ev(name) == l <= Len(Rec) /\ Rec[l].e = name
Step == l' = l + 1
Same == UNCHANGED algoVars
NoAlgo == UNCHANGED <<outer, cstack, lstack, lcur>>

TraceIds == Range(Rec[1].ids)
TraceRecIds == [k \in Kinds |-> Range(Rec[1][k])]

TInit == AlgoInit /\ l = 2

TReset ==
  /\ Ev("Reset") /\ Step
  /\ phase' = "loose" /\ arena' = <<>> /\ parents' = EmptyRel /\ children' = EmptyRel /\ allp' = EmptyRel
  /\ ann' = [k \in Kinds |-> EmptyRel] /\ rec' = [k \in Kinds |-> <<>>]
  /\ ic' = [k \in Kinds |-> [t \in Ids |-> <<0, 0>>]] /\ nfact' = 0 /\ bmode' = "none"
  /\ outer' = 0 /\ cstack' = <<>> /\ lstack' = <<>> /\ lcur' = Idle

TArenaInsert ==
  /\ Ev("ArenaInsert") /\ Step
  /\ Rec[l].present = (Rec[l].id \in Terms)
  /\ Rec[l].len = Len(arena)
  /\ Same
TNewTerm == Ev("NewTerm") /\ Step /\ Quiet /\ NewTerm(Rec[l].id) /\ NoAlgo
TTermsComplete == Ev("TermsComplete") /\ Step /\ Quiet /\ TermsComplete /\ NoAlgo
TAddParent == Ev("AddParent") /\ Step /\ Quiet /\ Rec[l].ok /\ AddParent(Rec[l].p, Rec[l].c) /\ NoAlgo

TConnectBegin == Ev("ConnectBegin") /\ Step /\ ConnectStart
TCacheEnter ==
  /\ Ev("CacheEnter") /\ Step
  /\ IF cstack = <<>>
       THEN OuterNext /\ arena[outer + 1] = Rec[l].t
       ELSE Top(cstack).t = Rec[l].t /\ Top(cstack).res = {} /\ Same
TMiss == Ev("GrandparentsMiss") /\ Step /\ cstack # <<>> /\ Top(cstack).todo # <<>> /\ Head(Top(cstack).todo) = Rec[l].t /\ Descend
TRead == Ev("GrandparentsRead") /\ Step /\ cstack # <<>> /\ Top(cstack).todo # <<>> /\ Head(Top(cstack).todo) = Rec[l].t /\ UseCached
TReturn ==
  /\ Ev("CacheReturn") /\ Step
  /\ cstack # <<>> /\ Top(cstack).t = Rec[l].t
  /\ Return
  /\ allp'[Rec[l].t] = Range(Rec[l].allp)
TConnectEnd == Ev("ConnectEnd") /\ Step /\ ConnectFinish

TLinkVisit ==
  /\ Ev("LinkVisit") /\ Step
  /\ Rec[l].already = (Rec[l].x \in ann[Rec[l].k][Rec[l].t])
  /\ IF ~InFlight
       THEN LinkBeginBuilder(Rec[l].k, Rec[l].x, Rec[l].t)
       ELSE /\ lcur.k = Rec[l].k /\ lcur.x = Rec[l].x
            /\ lstack # <<>> /\ Top(lstack).todo # <<>> /\ Head(Top(lstack).todo) = Rec[l].t
            /\ LinkStep
TLinkLeave ==
  /\ Ev("LinkLeave") /\ Step
  /\ IF Rec[l].already THEN Same
     ELSE lstack # <<>> /\ Top(lstack).t = Rec[l].t /\ LinkPop
TAnnotateEnd == Ev("AnnotateEnd") /\ Step /\ LinkFinish
TAddRecord == Ev("AddRecord") /\ Step /\ Quiet /\ AddRecord(Rec[l].k, Rec[l].x) /\ NoAlgo

TBuilt ==
  /\ Ev("Built") /\ Step /\ Quiet /\ phase = "connected"
  /\ Range(Rec[l].proj.terms) \subseteq {t @@ [rgene |-> t.gene, romim |-> t.omim, rorpha |-> t.orpha, rallp |-> t.allp, rparents |-> t.parents, rchildren |-> t.children] : t \in Range(Proj.terms)}
  /\ Len(Rec[l].proj.terms) = Len(arena)
  /\ Same

TNext == TReset \/ TArenaInsert \/ TNewTerm \/ TTermsComplete \/ TAddParent \/ TConnectBegin \/ TCacheEnter \/ TMiss
         \/ TRead \/ TReturn \/ TConnectEnd \/ TLinkVisit \/ TLinkLeave \/ TAnnotateEnd \/ TAddRecord \/ TBuilt

TSpec == TInit /\ [][TNext]_tvars

TInv == CacheSound /\ StackShape /\ LinkInFlightSound /\ UpClosedQuiet /\ LinkExactQuiet

Accepted ==
  TLCGet("stats").diameter = Len(Rec)
    \/ (PrintT(<<"UNMATCHED", TLCGet("stats").diameter + 1>>) /\ FALSE)
=============================================================================
