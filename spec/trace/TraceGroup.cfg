SPECIFICATION TSpec
CONSTANTS
  Universe = {}
  MaxOps = 0
POSTCONDITION Accepted
CHECK_DEADLOCK FALSE
