SPECIFICATION TSpec
CONSTANTS
  Ids <- TraceIds
  RecIds <- TraceRecIds
  RootId = 1
  PhenoId = 118
  Focus = "C15"
INVARIANTS
  TInv
  TypeOK
POSTCONDITION Accepted
CHECK_DEADLOCK FALSE
