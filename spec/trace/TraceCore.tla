------------------------------ MODULE TraceCore ------------------------------
(***************************************************************************)
(* impl -> spec trace validation for the Builder pipeline and              *)
(* Ontology::sub_ontology.  The trace is recorded by `hv record` from the  *)
(* REAL crate: one event per public call (logged when the call returns,    *)
(* with its arguments) and the full projection of every ontology built.    *)
(* Each trace action is  IsEvent(name) /\ <HpoCore action with the logged  *)
(* arguments> /\ <logged observation = what the specification derives>.    *)
(* Runs are concatenated with Reset events.  Focus selects which fields of *)
(* the observations are compared: "C01" structure, "C02" annotations,      *)
(* "C03" information content (consistency with the ontology's own n, N),   *)
(* "C04" pair queries (similarity arguments and formulas), "C07" the binary  *)
(* round trip of every recorded ontology with the two roots, "C11" distances *)
(* and paths, "C12" ancestor queries as set algebra.                       *)
(***************************************************************************)
EXTENDS HpoSetOps, Json, IOUtils

CONSTANT Focus

Rec == ndJsonDeserialize(IOEnv.TRACE)

VARIABLE l

tvars == <<coreVars, l>>

Ev(name) == l <= Len(Rec) /\ Rec[l].e = name
Step == l' = l + 1

(* the first line of a trace lists the id universes used by its runs *)
TraceIds == Range(Rec[1].ids)
TraceRecIds == [k \in Kinds |-> Range(Rec[1][k])]

TInit == CoreInit /\ l = 2

TReset ==
  /\ Ev("Reset") /\ Step
  /\ phase' = "loose" /\ arena' = <<>> /\ parents' = EmptyRel /\ children' = EmptyRel /\ allp' = EmptyRel
  /\ ann' = [k \in Kinds |-> EmptyRel] /\ rec' = [k \in Kinds |-> <<>>]
  /\ ic' = [k \in Kinds |-> [t \in Ids |-> <<0, 0>>]] /\ nfact' = 0 /\ bmode' = "none"

TNewTerm == Ev("NewTerm") /\ Step /\ NewTerm(Rec[l].id)
TTermsComplete == Ev("TermsComplete") /\ Step /\ TermsComplete
TAddParent == Ev("AddParent") /\ Step /\ Rec[l].ok /\ AddParent(Rec[l].p, Rec[l].c)
TConnectAll == Ev("ConnectAll") /\ Step /\ ConnectAll
TAddRecord == Ev("AddRecord") /\ Step /\ AddRecord(Rec[l].k, Rec[l].x)
TAnnotate == Ev("Annotate") /\ Step /\ Rec[l].ok /\ Annotate(Rec[l].k, Rec[l].x, Rec[l].t)
(* C15: a call that reported DoesNotExist - a referenced term must really be absent, and the call  *)
(* is a stuttering step of the builder state (nfact is the ghost counter that names records)       *)
TAddParentRejected ==
  /\ Ev("AddParent") /\ Step /\ ~Rec[l].ok
  /\ phase = "all" /\ (Rec[l].p \notin Terms \/ Rec[l].c \notin Terms)
  /\ UNCHANGED coreVars
TAnnotateRejected ==
  /\ Ev("Annotate") /\ Step /\ ~Rec[l].ok
  /\ phase = "connected" /\ Rec[l].t \notin Terms
  /\ nfact' = nfact + 1
  /\ UNCHANGED <<phase, arena, parents, children, allp, ann, rec, ic, bmode>>

(* --- observations ------------------------------------------------------ *)
StructOf(t) == [id |-> t.id, parents |-> t.parents, children |-> t.children, allp |-> t.allp]
AnnOf(t) == [id |-> t.id, gene |-> t.gene, omim |-> t.omim, orpha |-> t.orpha]
LoggedStructOk(t) == t.rallp = t.allp /\ t.rparents = t.parents /\ t.rchildren = t.children
LoggedAnnOk(t) == t.rgene = t.gene /\ t.romim = t.omim /\ t.rorpha = t.orpha      \* resolving iterators agree

BuiltMatches(p) ==
  LET want == Proj IN
  /\ p.len = Len(arena)
  /\ Len(p.terms) = Len(arena)
  /\ (Focus \in {"C01", "C14", "C15", "C07"}) =>
       /\ {StructOf(t) : t \in Range(p.terms)} = {StructOf(t) : t \in Range(want.terms)}
       /\ \A t \in Range(p.terms) : LoggedStructOk(t)
  /\ (Focus \in {"C03", "C14", "C07"}) => p.ic_bad = <<>>        \* IC = -ln(n/N) on the ontology's own n and N (checked by the recorder)
  /\ (Focus \in {"C02", "C14", "C15", "C07"}) =>
       /\ {AnnOf(t) : t \in Range(p.terms)} = {AnnOf(t) : t \in Range(want.terms)}
       /\ \A t \in Range(p.terms) : LoggedAnnOk(t)
       /\ p.gene = want.gene /\ p.omim = want.omim /\ p.orpha = want.orpha

TBuilt ==
  /\ Ev("Built") /\ Step
  /\ phase = "connected"
  /\ BuiltMatches(Rec[l].proj)
  /\ UNCHANGED coreVars

(* the binary round trip of the built ontology (recorded when it holds HP:1 and HP:118): as_bytes -> from_bytes is the *)
(* identity on everything the projection shows - a stuttering step whose observation must again be the builder state   *)
TReloaded ==
  /\ Ev("Reloaded") /\ Step
  /\ phase = "connected"
  /\ BuiltMatches(Rec[l].proj)
  /\ UNCHANGED coreVars

(* C19 on a recorded ontology built with the documented defaults: modifier roots, category roots, and the classification *)
(* of every term (categories in ascending id order)                                                                    *)
CatsMatches(ev) ==
  LET mods == children[1] \ {118}
      cats == mods \cup children[118]
  IN (Focus \in {"C19", "C13"}) =>
       /\ ev.modifier = Sorted(mods) /\ ev.categories = Sorted(cats)
       /\ Len(ev.terms) = Len(arena)
       /\ \A t \in Range(ev.terms) :
             /\ t.id \in Terms
             /\ t.is_modifier <=> ((allp[t.id] \cup {t.id}) \cap mods # {})
             /\ t.categories = Sorted((allp[t.id] \cup {t.id}) \cap cats)
TCats == Ev("Cats") /\ Step /\ phase = "connected" /\ 1 \in Terms /\ 118 \in Terms /\ CatsMatches(Rec[l]) /\ UNCHANGED coreVars

(* C13 on a recorded ontology: HpoSet operations on a random subset (up to 36 members)                                  *)
SetOpMatches(ev) ==
  LET S    == Range(ev.set)
      mods == IF ev.defaults THEN children[1] \ {118} ELSE {}
      cats == IF ev.defaults THEN mods \cup children[118] ELSE {}
      nomod == {t \in S : (allp[t] \cup {t}) \cap mods = {}}
      catsOf(t) == (allp[t] \cup {t}) \cap cats
      wantCats == LET ks == Sorted(UNION {catsOf(t) : t \in S}) IN [i \in 1..Len(ks) |-> <<ks[i], Cardinality({t \in S : ks[i] \in catsOf(t)})>>]
  IN (Focus = "C13") =>
       /\ S \subseteq Terms /\ ev.set = Sorted(S) /\ ev.len = Cardinality(S)
       /\ ev.child = Sorted(ChildNodes(S))
       /\ ev.without_modifier = Sorted(nomod) /\ ev.remove_modifier = Sorted(nomod)
       /\ ev.gene = Sorted(SetLinked("gene", S)) /\ ev.omim = Sorted(SetLinked("omim", S)) /\ ev.orpha = Sorted(SetLinked("orpha", S))
       /\ ~ev.ic_bad                     \* the aggregated IC is -ln(|union| / N) on exactly these unions (evaluated by the recorder)
       /\ ev.cats = wantCats
TSetOp == Ev("SetOp") /\ Step /\ phase = "connected" /\ SetOpMatches(Rec[l]) /\ UNCHANGED coreVars

(* --- sub_ontology: a nondeterministic specification (ANY shortest path   *)
(* per leaf), validated in this direction only.                            *)
SubMatches(ev) ==
  LET root   == ev.root
      leaves == Range(ev.leaves)
      p      == ev.proj
      T      == {t.id : t \in Range(p.terms)}
      term(x) == CHOOSE t \in Range(p.terms) : t.id = x
      par    == [t \in T |-> Range(term(t).parents)]
      AllPaths == UNION {ShortestUpPaths(parents, lf, root) : lf \in leaves}
      recsOf(k) == p[k]
      hposOf(k) == [x \in {r.id : r \in Range(recsOf(k))} |->
                      [name |-> 0, hpos |-> Range((CHOOSE r \in Range(recsOf(k)) : r.id = x).hpos)]]
  IN
  /\ \A lf \in leaves : lf \in DescSelf(parents, root)
  /\ p.len = Cardinality(T) /\ Len(p.terms) = Cardinality(T)
  \* the terms: the leaves plus, per leaf, one of its shortest upward paths to the root
  /\ \E ch \in [leaves -> AllPaths] :
        /\ \A lf \in leaves : ch[lf] \in ShortestUpPaths(parents, lf, root)
        /\ T = leaves \cup UNION {Range(ch[lf]) : lf \in leaves}
  /\ (Focus \in {"C01", "C14", "C15"}) =>
       \A t \in T :
          /\ par[t] = parents[t] \cap T                                  \* induced is_a edges
          /\ Range(term(t).children) = ChildrenOf(par, t)                \* inverse relation
          /\ Range(term(t).allp) = Anc(par, t)                           \* closure inside the sub-ontology
          /\ LoggedStructOk(term(t))
  \* C14: WHICH records a sub-ontology keeps: a record is kept iff it is directly annotated to a retained term that
  \* is not a modifier term (the term is, or descends from, a modifier root); modifier roots exist only when the
  \* source was built with the documented defaults (children of HP:1 other than HP:118).
  /\ (Focus \in {"C14", "EXTRA"}) =>
       LET mods   == IF ev.defaults THEN children[1] \ {118} ELSE {}
           phenoT == {t \in T : (allp[t] \cup {t}) \cap mods = {}}
       IN \A k \in Kinds : {r.id : r \in Range(recsOf(k))} = {x \in DOMAIN rec[k] : rec[k][x].hpos \cap phenoT # {}}
  /\ (Focus \in {"C03", "C14"}) => p.ic_bad = <<>>
  /\ (Focus \in {"C02", "C14", "C15"}) =>
       /\ \A k \in Kinds : \A r \in Range(recsOf(k)) :
             /\ r.id \in DOMAIN rec[k]                                    \* only records of the source
             /\ Range(r.hpos) = rec[k][r.id].hpos \cap T                  \* direct terms, restricted to the sub-ontology
             /\ r.name = rec[k][r.id].name
       /\ \A t \in T :
             /\ Range(term(t).gene)  = LinkedPure(par, hposOf("gene"), t)
             /\ Range(term(t).omim)  = LinkedPure(par, hposOf("omim"), t)
             /\ Range(term(t).orpha) = LinkedPure(par, hposOf("orpha"), t)
             /\ LoggedAnnOk(term(t))

TSub == Ev("SubOntology") /\ Step /\ phase = "connected" /\ SubMatches(Rec[l]) /\ UNCHANGED coreVars

(* the documented error: a leaf that is not below the root *)
TSubErr ==
  /\ Ev("SubOntologyErr") /\ Step /\ phase = "connected"
  /\ \E lf \in Range(Rec[l].leaves) : lf \notin DescSelf(parents, Rec[l].root)
  /\ UNCHANGED coreVars

(* pair queries on the built ontology (focus C04): the structural arguments of the similarities  *)
(* must be the ones the specification derives; the recorder has evaluated the eight formulas on   *)
(* exactly these arguments (sim_bad lists disagreements)                                          *)
Linked(x, y) == x \in parents[y] \/ y \in parents[x]
IsChain(a, path) == \A i \in 1..Len(path) : path[i] \in parents[IF i = 1 THEN a ELSE path[i - 1]]
IsWalk(a, path) == \A i \in 1..Len(path) : Linked(IF i = 1 THEN a ELSE path[i - 1], path[i])

QueryMatches(ev) ==
  LET p == PathPair(ev.a, ev.b) IN
  /\ (Focus = "C04") =>
       /\ ev.common = p.commonself
       /\ ev.union = p.union
       /\ ev.dist = p.dist
       /\ ev.sim_bad = <<>>
  \* C12: ancestor queries are the set algebra of the ancestor sets
  /\ (Focus = "C12") =>
       /\ ev.common = p.commonself /\ ev.common_noself = p.common /\ ev.union = p.union
  \* C11: distances and paths
  /\ (Focus = "C11") =>
       /\ ev.dist = p.dist /\ ev.rdist = p.dist /\ ev.updist = p.updist
       /\ IF ev.hasuppath
            THEN p.updist # NoDist /\ Len(ev.uppath) = p.updist /\ IsChain(ev.a, ev.uppath)
                 /\ (ev.a # ev.b => ev.uppath[Len(ev.uppath)] = ev.b)
            ELSE p.updist = NoDist
       /\ IF ev.haspath
            THEN p.dist # NoDist /\ (ev.a # ev.b => /\ Len(ev.path) = p.dist /\ IsWalk(ev.a, ev.path)
                                                    /\ ev.path[Len(ev.path)] = ev.b)
            ELSE p.dist = NoDist

TQuery == Ev("Query") /\ Step /\ phase = "connected" /\ QueryMatches(Rec[l]) /\ UNCHANGED coreVars

TNext == TReset \/ TNewTerm \/ TTermsComplete \/ TAddParent \/ TAddParentRejected \/ TConnectAll \/ TAddRecord \/ TAnnotate \/ TAnnotateRejected \/ TBuilt \/ TReloaded \/ TCats \/ TSetOp \/ TSub \/ TSubErr \/ TQuery

TSpec == TInit /\ [][TNext]_tvars

(* every state the real run went through satisfies the C01 / C02 invariants *)
TInv == ClosureExact /\ InverseRel /\ LinkExact /\ Resolvable /\ UpClosed

Accepted ==
  \* one state per consumed line plus the initial state; line 1 (the header) is consumed by TInit
  TLCGet("stats").diameter = Len(Rec)
    \/ (PrintT(<<"UNMATCHED", TLCGet("stats").diameter + 1>>) /\ FALSE)     \* = number of the first line not matched
=============================================================================
