---------------------------- MODULE TraceBinary ----------------------------
(***************************************************************************)
(* impl -> spec validation for C07: byte strings produced by the crate's   *)
(* own Ontology::as_bytes (recorded by `hv replay-binary --dump`) are      *)
(* decoded by the SPECIFICATION's decoder and must describe exactly the    *)
(* abstract ontology that was serialised (names cut to 255 bytes on a      *)
(* character boundary), whatever order the crate chose for the records.    *)
(* One record per line: [src, bytes, ro].                                  *)
(***************************************************************************)
EXTENDS HpoBinary, Json, IOUtils, TLC

Recs == ndJsonDeserialize(IOEnv.TRACE)

VARIABLE i

Init == i = 1
Next == i <= Len(Recs) /\ i' = i + 1
Spec == Init /\ [][Next]_i

Matches(r) ==
  LET d == Decode(r.bytes) IN
  /\ d.ok
  /\ Canon(d) = Canon(r.ro)
  /\ r.bytes[4] = 3                        \* the writer emits layout version 3

AllMatch == (i <= Len(Recs)) => Matches(Recs[i])

Accepted == i = Len(Recs) + 1 => TRUE
Done == TLCGet("stats").diameter = Len(Recs) + 1 \/
        (PrintT(<<"UNMATCHED", TLCGet("stats").diameter>>) /\ FALSE)
=============================================================================
