SPECIFICATION TSpec
CONSTANTS
  Ids <- TraceIds
  RecIds <- TraceRecIds
  RootId = 1
  PhenoId = 118
  Focus = "C13"
INVARIANT TInv
POSTCONDITION Accepted
CHECK_DEADLOCK FALSE
