SPECIFICATION TSpec
POSTCONDITION Accepted
CHECK_DEADLOCK FALSE
