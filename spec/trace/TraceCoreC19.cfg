SPECIFICATION TSpec
CONSTANTS
  Ids <- TraceIds
  RecIds <- TraceRecIds
  RootId = 1
  PhenoId = 118
  Focus = "C19"
INVARIANT TInv
POSTCONDITION Accepted
CHECK_DEADLOCK FALSE
