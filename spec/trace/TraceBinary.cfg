SPECIFICATION Spec
INVARIANT AllMatch
POSTCONDITION Done
CHECK_DEADLOCK FALSE
