------------------------------ MODULE TraceJax ------------------------------
(***************************************************************************)
(* impl -> spec validation for C09.  `hv record-jax` draws random JAX file *)
(* sets OUTSIDE the image of the writer of HpoJax (any order of the tag    *)
(* lines inside a stanza, [Typedef] stanzas anywhere, comment lines in the *)
(* middle of phenotype.hpoa, NOT / DECIPHER / repeated rows about the same *)
(* records, 3..40 (300) terms with random is_a links, obsolete flags and   *)
(* replacements), renders them with the same dumb renderer as the replay,  *)
(* loads them with the real crate (both loaders) and records, next to the  *)
(* structured files, the DIRECT facts of the loaded ontology:              *)
(*                                                                         *)
(*   Load   files, loaded = [version, terms, parents, gene, omim, orpha]   *)
(*      -> accepted iff the declarative reader of the specification says   *)
(*         that the files describe exactly these facts:                    *)
(*         Describes(files) = the recorded facts                           *)
(*                                                                         *)
(* A failed or panicking load is recorded as an event no action matches    *)
(* (every generated file set is inside the documented envelope).           *)
(***************************************************************************)
EXTENDS HpoJax, Json, IOUtils, TLC

Rec == ndJsonDeserialize(IOEnv.TRACE)

VARIABLE l      \* next line of the trace

Ev == Rec[l]

RecsOf(rs) == {[id |-> r.id, name |-> r.name, terms |-> Range(r.terms)] : r \in Range(rs)}

(* the recorded facts as the value `Describes` yields *)
LoadedFacts(x) ==
  [ version |-> x.version,
    terms   |-> {[id |-> t.id, name |-> t.name, obsolete |-> t.obsolete, repl |-> t.repl] : t \in Range(x.terms)},
    parents |-> {[id |-> p.id, parents |-> Range(p.parents)] : p \in Range(x.parents)},
    gene    |-> RecsOf(x.gene),
    omim    |-> RecsOf(x.omim),
    orpha   |-> RecsOf(x.orpha) ]

(* the envelope the recorder promises (checked, so that a generator slip is a rejected trace of its own kind) *)
InEnvelope(f) ==
  LET terms == SelectSeq(f.obo, LAMBDA b : b.kind = "Term") IN
  /\ f.obo[1].kind = "header" /\ f.obo[1].lines[1].tag = "format-version"
  /\ \A i \in 1..Len(terms) : Len(TagLines(terms[i], "id")) = 1 /\ Len(TagLines(terms[i], "name")) = 1
                              /\ Len(TagLines(terms[i], "replaced_by")) <= 1
  /\ \A i, j \in 1..Len(terms) : TagLines(terms[i], "id")[1].id = TagLines(terms[j], "id")[1].id => i = j

TInit == l = 1

TLoad ==
  /\ l <= Len(Rec) /\ Ev.e = "Load"
  /\ InEnvelope(Ev.files)
  /\ LoadedFacts(Ev.loaded) = Describes(Ev.files)
  /\ l' = l + 1

TNext == TLoad
TSpec == TInit /\ [][TNext]_l

(* diagnostics for a rejected Load: per differing field, what was loaded but is not described and what is described but was not loaded *)
DiffOf(e) ==
  LET a == LoadedFacts(e.loaded)
      b == Describes(e.files)
  IN [ f \in {g \in {"terms", "parents", "gene", "omim", "orpha"} : a[g] # b[g]} |->
         [loaded_not_described |-> a[f] \ b[f], described_not_loaded |-> b[f] \ a[f]] ]
     @@ (IF a.version # b.version THEN [version |-> [loaded |-> a.version, described |-> b.version]] ELSE <<>>)

Accepted ==
  TLCGet("stats").diameter = Len(Rec) + 1
    \/ LET n == TLCGet("stats").diameter IN         \* = number of the first line not matched
        /\ PrintT(<<"UNMATCHED", n>>)
        /\ (n <= Len(Rec) /\ Rec[n].e = "Load" /\ InEnvelope(Rec[n].files)) => PrintT(<<"DIFF", DiffOf(Rec[n])>>)
        /\ FALSE
=============================================================================
