---------------------------- MODULE TraceLinkage ----------------------------
(***************************************************************************)
(* impl -> spec validation for C17: runs of stats::Linkage recorded from   *)
(* the real crate (`hv record-linkage`: random distance matrices and       *)
(* overlapping input sets, 2..12 inputs - beyond what the exhaustive       *)
(* configurations of MC_Linkage reach) are replayed against the merge      *)
(* machine of HpoLinkage.  One trace file holds the runs of one (N, Mode). *)
(*                                                                         *)
(*   Start  n, d0 (in the order of PairSeq), sets, iw, first (the pairs    *)
(*          the distance callback was offered by its first call)          *)
(*      -> LInit; the first call offered every unordered pair of inputs    *)
(*         exactly once; in union mode d0 is the user distance            *)
(*   Merge  lhs, rhs, dist, size, offered                                  *)
(*      -> must be a Merge step of the machine: a pair that is CLOSEST at  *)
(*         that moment (any one, if tied), at the reported distance and    *)
(*         size; in union mode the callback was offered the union against  *)
(*         every other live set, once                                      *)
(*   Done   indices, ncalls                                                *)
(*      -> one cluster left; the reported leaf order is a permutation of   *)
(*         the inputs; in union mode the                                    *)
(*         callback was called once initially and once per merge           *)
(* A panic of the crate is recorded as an event no action matches.         *)
(***************************************************************************)
EXTENDS HpoLinkage, Json, IOUtils, TLC

Rec == ndJsonDeserialize(IOEnv.TRACE)

VARIABLES l,      \* next line of the trace
          st      \* "idle" | "run"

tvars == <<lvars, l, st>>

PairSeq == SetToSortSeq(Pairs(0..(N - 1)), LAMBDA p, q : p[1] < q[1] \/ (p[1] = q[1] /\ p[2] < q[2]))
PairIdx(p) == CHOOSE i \in 1..Len(PairSeq) : PairSeq[i] = p

Ev == Rec[l]
IsEvent(e) == l <= Len(Rec) /\ Rec[l].e = e /\ l' = l + 1

(* an unordered pair of item sets, as the harness writes it: the two sorted item lists, smaller list first *)
Count(s, x) == Cardinality({i \in 1..Len(s) : s[i] = x})
SeqLE(a, b) == \/ \E k \in 1..Len(a) : k <= Len(b) /\ a[k] < b[k] /\ \A j \in 1..(k - 1) : a[j] = b[j]
               \/ (Len(a) <= Len(b) /\ \A j \in 1..Len(a) : a[j] = b[j])
Norm(A, B) == LET a == SetToSortSeq(A, <) b == SetToSortSeq(B, <) IN IF SeqLE(a, b) THEN <<a, b>> ELSE <<b, a>>

TInit == l = 1 /\ st = "idle" /\ active = {} /\ dist = <<>> /\ nxt = 0 /\ merges = <<>> /\ cset = <<>> /\ iw = <<>>

TStart ==
  /\ IsEvent("Start") /\ st = "idle" /\ Ev.n = N /\ Ev.mode = Mode
  /\ LET d0  == [p \in Pairs(0..(N - 1)) |-> Ev.d0[PairIdx(p)]]
         cs0 == [i \in 0..(N - 1) |-> Range(Ev.sets[i + 1])]
         w0  == [i \in 0..(Len(Ev.iw) - 1) |-> Ev.iw[i + 1]]
         want == [i \in 1..Len(PairSeq) |-> Norm(cs0[PairSeq[i][1]], cs0[PairSeq[i][2]])]
     IN /\ active' = 0..(N - 1) /\ dist' = d0 /\ nxt' = N /\ merges' = <<>> /\ cset' = cs0 /\ iw' = w0
        /\ (Mode = "union") => \A p \in Pairs(0..(N - 1)) : d0[p] = UserDist(w0, cs0[p[1]], cs0[p[2]])
        \* the first call of the callback: every unordered pair of inputs exactly once
        /\ Len(Ev.first) = Len(PairSeq)
        /\ \A i \in 1..Len(want) : Count(Ev.first, want[i]) = Count(want, want[i])
  /\ st' = "run"

TMerge ==
  /\ IsEvent("Merge") /\ st = "run"
  /\ MergePair(Key(Ev.lhs, Ev.rhs))          \* = Merge restricted to the recorded pair (linear in the number of live pairs)
  /\ LET m == merges'[Len(merges')] IN
       /\ {m.lhs, m.rhs} = {Ev.lhs, Ev.rhs}
       /\ m.dist = Ev.dist
       /\ m.size = Ev.size
       /\ (Mode = "union") =>
             \* the union against every other live set, each once.  The crate's pair iterator additionally offers the
             \* union against ITSELF as a last pair (the value is not used); that extra pair is tolerated, nothing else
             LET rest == active \ {m.lhs, m.rhs}
                 new  == cset'[nxt]
                 self == Norm(new, new)
                 Mult(x) == Cardinality({j \in rest : Norm(new, cset[j]) = x})
             IN /\ Len(Ev.offered) \in {Cardinality(rest), Cardinality(rest) + 1}
                /\ \A i \in 1..Len(Ev.offered) :
                      LET x == Ev.offered[i] IN
                        Count(Ev.offered, x) = Mult(x) + (IF x = self /\ Len(Ev.offered) = Cardinality(rest) + 1 THEN 1 ELSE 0)
                /\ \A k \in rest : Count(Ev.offered, Norm(new, cset[k])) >= 1
       /\ (Mode # "union") => Ev.offered = <<>>
  /\ st' = st

TDone ==
  /\ IsEvent("Done") /\ st = "run"
  /\ Done
  /\ Len(Ev.indices) = N /\ {Ev.indices[i] : i \in 1..Len(Ev.indices)} = 0..(N - 1)      \* a permutation of the inputs (the crate's choice: Indices(merges, 1))
  /\ (Mode = "union") => Ev.ncalls \in {N - 1, N}     \* initial call + one per merge; the call after the last merge offers nothing and is optional
  /\ SizesAddUp /\ TreeShape /\ EachClusterOnce /\ Monotone
  /\ st' = "idle"
  /\ UNCHANGED lvars

TNext == TStart \/ TMerge \/ TDone
TSpec == TInit /\ [][TNext]_tvars

Accepted ==
  TLCGet("stats").diameter = Len(Rec) + 1
    \/ (PrintT(<<"UNMATCHED", TLCGet("stats").diameter>>) /\ FALSE)     \* = number of the first line not matched
=============================================================================
