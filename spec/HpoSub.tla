------------------------------- MODULE HpoSub -------------------------------
(***************************************************************************)
(* C14: Ontology::sub_ontology(root, leaves) as a NONDETERMINISTIC         *)
(* function of the source ontology (pure operators; par = direct parents,  *)
(* recs = per kind a function record id -> [name, hpos]).                  *)
(*                                                                         *)
(*  - refused (error) iff some leaf is neither root nor a descendant of it *)
(*  - retained terms T: the leaves plus, per leaf, the terms of ONE        *)
(*    shortest parent chain from the leaf to root (any one: the choice is  *)
(*    the implementation's)                                                *)
(*  - links: exactly the source links between retained terms               *)
(*  - names, obsolete flags and replacements are copied                    *)
(*  - a record is kept iff it is directly annotated to a retained term     *)
(*    that is not a modifier term (HpoCats!IsModifierTerm: the term is or  *)
(*    descends from a modifier root; modifier roots exist only when the    *)
(*    source carries the documented defaults); a kept record is linked to  *)
(*    exactly the retained subset of its direct terms                      *)
(*  - the result is a minimal ontology again: closure, inheritance and     *)
(*    information content follow from ProjPure on the restricted facts     *)
(***************************************************************************)
EXTENDS HpoCats

SubOk(par, root, leaves) == leaves # {} /\ \A lf \in leaves : lf \in DescSelf(par, root)

(* every term set the call may retain - the definition *)
SubTermSetsDef(par, root, leaves) ==
  LET L == SetToSeq(leaves)
      PathChoices == [1..Len(L) -> UNION {ShortestUpPaths(par, lf, root) : lf \in leaves}]
  IN  { leaves \cup UNION {Range(ch[i]) : i \in 1..Len(L)} :
          ch \in {c \in PathChoices : \A i \in 1..Len(L) : c[i] \in ShortestUpPaths(par, L[i], root)} }

(* the same set, built leaf by leaf (the definition above enumerates a function space that explodes with the number of  *)
(* leaves; MC_Sub checks on every small case that the two agree)                                                        *)
RECURSIVE SubTermSetsRec(_, _, _)
SubTermSetsRec(par, root, L) ==
  IF L = {} THEN {{}}
  ELSE LET lf == CHOOSE x \in L : TRUE IN
       {Range(p) \cup T : p \in ShortestUpPaths(par, lf, root), T \in SubTermSetsRec(par, root, L \ {lf})}
SubTermSets(par, root, leaves) == {leaves \cup T : T \in SubTermSetsRec(par, root, leaves)}

SubPar(par, T) == [t \in T |-> par[t] \cap T]

(* mods: the modifier roots of the SOURCE (empty when it has no defaults) *)
PhenoTerms(par, mods, T) == {t \in T : AncSelf(par, t) \cap mods = {}}
KeptRecs(par, mods, r, T) == {x \in DOMAIN r : r[x].hpos \cap PhenoTerms(par, mods, T) # {}}
SubRecs(par, mods, r, T) == [x \in KeptRecs(par, mods, r, T) |-> [name |-> r[x].name, hpos |-> r[x].hpos \cap T]]

SubProj(par, mods, rg, ro, rr, T) ==
  ProjPure(Sorted(T), SubPar(par, T), SubRecs(par, mods, rg, T), SubRecs(par, mods, ro, T), SubRecs(par, mods, rr, T))

(* what the caller relies on, for EVERY allowed term set *)
SubSane(par, root, leaves) ==
  SubOk(par, root, leaves) =>
    \A T \in SubTermSets(par, root, leaves) :
      /\ root \in T /\ leaves \subseteq T
      /\ \A t \in T : t \in DescSelf(par, root)
      \* only terms on a shortest chain from some leaf to root
      /\ \A t \in T : \E lf \in leaves : DistUp(par, lf, t) # NoDist /\ DistUp(par, lf, t) + DistUp(par, t, root) = DistUp(par, lf, root)
      \* each leaf reaches root at its original distance, inside the sub-ontology
      /\ \A lf \in leaves : DistUp(SubPar(par, T), lf, root) = DistUp(par, lf, root)
      /\ Acyclic(SubPar(par, T))

=============================================================================
