------------------------------ MODULE MC_CoreBig ------------------------------
(***************************************************************************)
(* C01 - C03 beyond the inline capacities of the crate's small vectors (10 *)
(* direct parents, 30 ancestors): fixed worlds whose closure, inherited    *)
(* links and IC arguments TLC derives with the same pure operators         *)
(* (ProjPure) as for the exhaustive small scopes; emitted in the format of *)
(* MC_AnnotHist, so replay-core drives them through every construction     *)
(* path, id layout and supply order.                                       *)
(*                                                                         *)
(*  fan-in   X = 60 has the 12 direct parents 40..51; each parent 40+i has *)
(*           a PRIVATE parent 20+i reachable through it alone; 61 is a     *)
(*           child of X (inherits all of it)                               *)
(*  deep-up  chain 200 <- 201 <- ... <- 235: ids GROW with depth (nearest  *)
(*           ancestors of the deepest term have the largest ids)           *)
(*  deep-down chain 335 <- 334 <- ... <- 300: ids SHRINK with depth        *)
(*  facts    genes / diseases on the deepest terms, a middle term, X, one  *)
(*           private parent; equal numbers across kinds; a record without  *)
(*           terms                                                         *)
(***************************************************************************)
EXTENDS HpoGraph, TLC, Json

VARIABLE w

Priv == 20..31
Pars == 40..51
Up == 200..235
Down == 300..335
U == Priv \cup Pars \cup {60, 61} \cup Up \cup Down
Par == [t \in U |-> CASE t \in Priv -> {}
                      [] t \in Pars -> {t - 20}
                      [] t = 60 -> Pars
                      [] t = 61 -> {60}
                      [] t \in Up -> IF t = 200 THEN {} ELSE {t - 1}
                      [] OTHER -> IF t = 335 THEN {} ELSE {t + 1}]

F(k, x, t) == [k |-> k, x |-> x, t |-> t]
Facts == << F("gene", 1, 235), F("omim", 1, 235), F("orpha", 1, 300), F("gene", 2, 300), F("gene", 3, 218), F("omim", 2, 320),
            F("gene", 4, 61), F("orpha", 2, 60), F("omim", 3, 31), F("gene", 1, 51), [k |-> "gene", x |-> 9], F("gene", 2, 235) >>

Kinds == {"gene", "omim", "orpha"}
RecOf(k) ==
  LET idx == {i \in 1..Len(Facts) : Facts[i].k = k}
      xs  == {Facts[i].x : i \in idx}
  IN [x \in xs |-> [name |-> CHOOSE i \in idx : Facts[i].x = x /\ \A j \in idx : Facts[j].x = x => i <= j,
                     hpos |-> {Facts[i].t : i \in {j \in idx : Facts[j].x = x /\ "t" \in DOMAIN Facts[j]}}]]

Orders == { Sorted(U), Reverse(Sorted(U)) }

Init == w \in Orders
Next == UNCHANGED w
Spec == Init /\ [][Next]_w

EdgeSeq == SetToSeq({<<p, c>> \in U \X U : p \in Par[c]})
Expect == [ arena |-> w, edges |-> EdgeSeq, facts |-> Facts,
            expect |-> ProjPure(w, Par, RecOf("gene"), RecOf("omim"), RecOf("orpha")),
            pairs |-> <<>>, paths |-> <<>>, sets |-> <<>> ]

(* what the worlds are for *)
Shape ==
  /\ Cardinality(Par[60]) = 12
  /\ Cardinality(Anc(Par, 61)) = 25 /\ \A i \in 0..11 : (20 + i) \in Anc(Par, 61)
  /\ Cardinality(Anc(Par, 235)) = 35 /\ Cardinality(Anc(Par, 300)) = 35
  /\ LinkedPure(Par, RecOf("gene"), 200) = {1, 2, 3} /\ LinkedPure(Par, RecOf("gene"), 20) = {4} /\ LinkedPure(Par, RecOf("gene"), 31) = {1, 4}

Emit == PrintT(<<"REPLAY", ToJson(Expect)>>)
=============================================================================
