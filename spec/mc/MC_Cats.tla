-------------------------------- MODULE MC_Cats --------------------------------
(***************************************************************************)
(* C19: every acyclic is_a relation over every subset of Ids (subsets      *)
(* without HP:1 or HP:118 included: building with defaults must fail).     *)
(***************************************************************************)
EXTENDS HpoCats, TLC, Json

CONSTANT Ids

VARIABLE par

Dags(S) == {p \in [S -> SUBSET S] : Acyclic(p)}
Init == par \in UNION {Dags(S) : S \in SUBSET Ids}
Next == UNCHANGED par
Spec == Init /\ [][Next]_par

Sane == CatSane(par)
EdgeSeq == SetToSeq({<<p, c>> \in (DOMAIN par) \X (DOMAIN par) : p \in par[c]})
Emit == PrintT(<<"REPLAY", ToJson([ ids |-> Sorted(DOMAIN par), edges |-> EdgeSeq, cats |-> CatProj(par) ])>>)
=============================================================================
