----------------------------- MODULE MC_Refine -----------------------------
(***************************************************************************)
(* The step-level machines of HpoAlgo (what the Rust control flow does,    *)
(* bound to the code by the hook events of TraceAlgo) REFINE the abstract  *)
(* Builder of HpoCore (what every replay compares the real Ontology with). *)
(*                                                                         *)
(* Refinement mapping:                                                     *)
(*   phase  "connecting"      |->  "all"  (connect_all_terms has not       *)
(*                                 returned yet)                           *)
(*   allp   while connecting  |->  the empty cache (the half-filled cache  *)
(*                                 is invisible: the type-state gives no   *)
(*                                 access before the call returns)         *)
(*   ann                      |->  the links that follow from the RECORDS  *)
(*                                 (an in-flight link call is invisible    *)
(*                                 until ... in builder mode: the record   *)
(*                                 is written first, so the abstract step  *)
(*                                 is LinkBeginBuilder; in bytes mode the  *)
(*                                 record is written last, so it is        *)
(*                                 LinkFinish)                             *)
(* Under this mapping every step of AlgoSpec must be a CoreNext step or a  *)
(* stuttering step:  ConnectFinish |-> ConnectAll (this is where the       *)
(* memoised recursion has to have produced the closure),                   *)
(* LinkBeginBuilder |-> Annotate, LinkFinish(bytes) |-> LoadRecord, every  *)
(* other machine step stutters.                                            *)
(***************************************************************************)
EXTENDS HpoAlgo

CONSTANT MaxFacts

phaseBar == IF phase = "connecting" THEN "all" ELSE phase
allpBar == IF phase = "connecting" THEN EmptyRel ELSE allp
annBar == [k \in Kinds |-> [t \in Ids |->
             IF t \in Terms /\ Connected
               THEN {x \in DOMAIN rec[k] : DescSelf(parents, t) \cap rec[k][x].hpos # {}}
               ELSE {}]]

Abs == INSTANCE HpoCore WITH phase <- phaseBar, allp <- allpBar, ann <- annBar

RefinesCore == Abs!CoreSpec

(* the abstract invariants, read through the mapping, in EVERY step-level state *)
AbsTypeOK == Abs!TypeOK
AbsClosureExact == Abs!ClosureExact
AbsLinkExact == Abs!LinkExact
AbsResolvable == Abs!Resolvable

(* when no call is in flight the concrete variables ARE the abstract ones *)
MappingIsIdentityWhenQuiet == (Quiet /\ phase # "connecting") => (allpBar = allp /\ annBar = ann /\ phaseBar = phase)

MCRecIdsR == [k \in Kinds |-> IF k = "gene" THEN {1, 2} ELSE IF k = "omim" THEN {1} ELSE {}]

Bound == nfact <= MaxFacts
=============================================================================
