------------------------------ MODULE MC_Compare ------------------------------
(***************************************************************************)
(* Pairs of generated ontologies, the expected result of Ontology::compare *)
(* and the v3 bytes of both sides (so that the harness can build them      *)
(* including obsolete / replacement flags).                                *)
(***************************************************************************)
EXTENDS HpoCompare, TLC, Json

CONSTANT Small      \* TRUE: a 72-element pool (quick tier), FALSE: 288

VARIABLE c

FullPool == {[Default EXCEPT !.extra = ex, !.pat = pt, !.flags = fl, !.gsel = g, !.osel = o, !.tshape = ts] :
           ex \in {{}, {2}, {2, 9999999}}, pt \in {1, 2, 3, 4}, fl \in {<<FALSE, 0>>, <<TRUE, 118>>, <<FALSE, 2>>},
           g \in {0, 2}, o \in {1, 2}, ts \in {"short", "colon"}}
(* names beyond the 255-byte limit of term / gene names: disease names are unbounded, so the binary round trip of an *)
(* ontology with a 300-byte OMIM / ORPHA name must still compare as unchanged (term and gene names: cut to 255)     *)
LongNames == {[Default EXCEPT !.dshape = ds, !.gshape = gs, !.tshape = ts, !.osel = 2, !.gsel = 2] :
                ds \in {"b300", "b254p2"}, gs \in {"short", "b255"}, ts \in {"short", "b255"}}

Pool == (IF Small THEN {q \in FullPool : q.gsel = 0 /\ q.tshape = "short"} ELSE FullPool) \cup LongNames

Init == c = [stage |-> "root"]
Next ==
  \/ c.stage = "root" /\ \E l \in Pool : c' = [stage |-> "node", l |-> l]
  \/ c.stage = "node" /\ \E r \in Pool : c' = [stage |-> "leaf", l |-> c.l, r |-> r]
Spec == Init /\ [][Next]_c

Leaf == c.stage = "leaf"
Laws == Leaf => CompareLaws(Ont(c.l), Ont(c.r))
Emit == Leaf => PrintT(<<"REPLAY", ToJson([ lbytes |-> Encode(Ont(c.l), 3), rbytes |-> Encode(Ont(c.r), 3),
                                             cmp |-> Compare(Ont(c.l), Ont(c.r)) ])>>)
=============================================================================
