SPECIFICATION MCSpec
CONSTANTS
  Ids = {1, 2, 3}
  RecIds <- MCRecIds
  RootId = 1
  PhenoId = 2
  EdgeOrderFree = TRUE
  ArenaOrders <- AllOrders
INVARIANTS
  CacheSound
  StackShape
  InverseRel
  Refines
  Emit
CHECK_DEADLOCK FALSE
