SPECIFICATION Spec
CONSTANTS
  TableSize = 5
  Probe = {0, 1, 2, 4, 5, 6, 99}
  MaxOps = 4
CONSTRAINT Bound
INVARIANTS
  SlotBijective
  Slot0Reserved
  GetExact
  GetReturnsSelf
  LenAgrees
  IterOnce
  Emit
CHECK_DEADLOCK FALSE
