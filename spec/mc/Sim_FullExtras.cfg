SPECIFICATION FSpec
CONSTANTS
  Ids = {1, 2, 3, 4, 5, 6, 7, 8}
  RecIds <- RecsSim
  RootId = 1
  PhenoId = 2
  MaxEdges = 12
  WithExtras = TRUE
  WithPairs = FALSE
  MaxFacts = 8
INVARIANTS
  Emit
CHECK_DEADLOCK FALSE
