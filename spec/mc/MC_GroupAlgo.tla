----------------------------- MODULE MC_GroupAlgo -----------------------------
(* the step-level group algorithms on every pair of sorted inputs over 1..N (every group and id for insert) *)
EXTENDS HpoGroupAlgo
=============================================================================
