SPECIFICATION Spec
CONSTANTS
  Small = FALSE
INVARIANTS
  Laws
  Emit
CHECK_DEADLOCK FALSE
