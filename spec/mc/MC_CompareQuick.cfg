SPECIFICATION Spec
CONSTANTS
  Small = TRUE
INVARIANTS
  Laws
  Emit
CHECK_DEADLOCK FALSE
