SPECIFICATION Spec
CONSTANTS
  Families = {"R"}
  Lattice = TRUE
INVARIANTS
  Agree
  Emit
CHECK_DEADLOCK FALSE
