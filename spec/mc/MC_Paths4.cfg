SPECIFICATION HSpec
CONSTANTS
  Ids = {1, 2, 3, 4}
  RecIds <- RecsIC
  RootId = 1
  PhenoId = 2
  Prefix = FALSE
  WithExtras = TRUE
  WithPairs = TRUE
  MaxFacts = 0
  EmitAll = TRUE
INVARIANTS
  PathsWellFormed
  ChildNodesSane
  SimSymmetric
  SimBounds
  DistIsMin
  Emit
CHECK_DEADLOCK FALSE
