SPECIFICATION Spec
CONSTANTS
  SeqLen = 2
INVARIANTS
  Pure
  Emit
CHECK_DEADLOCK FALSE
