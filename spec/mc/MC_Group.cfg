SPECIFICATION MSpec
CONSTANTS
  Universe = {1, 2, 3, 5, 8}
  MaxOps = 4
INVARIANTS
  LogSound
  IterSound
  PairLaws
  Emit
CHECK_DEADLOCK FALSE
