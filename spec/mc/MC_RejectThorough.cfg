SPECIFICATION MSpec
CONSTANTS
  Ids = {1, 2, 3}
  RecIds <- RecsAll
  RootId = 1
  PhenoId = 118
  OldCode = FALSE
  MaxEdges = 3
  MaxFacts = 3
INVARIANTS
  TypeOK
  NoDangling
  InverseRel
  Resolvable
  ClosureExact
  LinkExact
  Emit
PROPERTIES
  RejectedStutters
  ReplyRight
CHECK_DEADLOCK FALSE
