---------------------------- MODULE MC_OntMachine ----------------------------
(* world: as in MC_SetMachine (1 root, 118, 2 modifier root, 5 below 2, 3 and 4 phenotype terms, 6 below 3 AND 5) plus 7, a second top-level term *)
EXTENDS HpoOntMachine, Json

MCTerms == {1, 2, 3, 4, 5, 6, 7, 118}
MCPar == [t \in MCTerms |-> CASE t = 1 -> {} [] t = 118 -> {1} [] t = 2 -> {1} [] t = 7 -> {1} [] t = 5 -> {2} [] t = 3 -> {118} [] t = 4 -> {3} [] OTHER -> {3, 5}]
MCInsert == {3, 5, 118}

Emit == (Len(hist) = MaxOps) =>
          PrintT(<<"REPLAY", ToJson([ terms |-> Sorted(MCTerms), parents |-> [i \in 1..Cardinality(MCTerms) |-> Sorted(MCPar[Sorted(MCTerms)[i]])],
                                      initial |-> Obs({}, {}), steps |-> hist ])>>)
=============================================================================
