------------------------------ MODULE MC_Cache ------------------------------
(***************************************************************************)
(* C05, part 2: the CachedSimilarity adaptor as a state machine.           *)
(* F is a fixed ASYMMETRIC function on ordered pairs of ids (all values    *)
(* distinct), standing for a user supplied term similarity.  A set level   *)
(* call (A, B) asks the adaptor for every pair of A x B in row-major order; *)
(* the adaptor answers from the cache when the ORDERED pair is present,    *)
(* otherwise computes F and stores it.  Invariants: the cache is always a  *)
(* restriction of F, and every result equals the uncached result - for     *)
(* every sequence of calls sharing one cache, e.g. (A,B),(B,A),(A,B).      *)
(***************************************************************************)
EXTENDS HpoCombine, TLC, Json

CONSTANTS N, MaxCalls

Id == 1..N
F == [p \in Id \X Id |-> 3 * p[1] + p[2]]        \* F[a,b] # F[b,a] for a # b

VARIABLES cache, calls

Init == cache = <<>> /\ calls = <<>>

Answer(p) == IF p \in DOMAIN cache THEN cache[p] ELSE F[p]
View == [p \in Id \X Id |-> Answer(p)]            \* what the adaptor would answer now

Call(A, B) ==
  /\ Len(calls) < MaxCalls
  /\ cache' = [p \in DOMAIN cache \cup (A \X B) |-> Answer(p)]
  /\ calls' = Append(calls, [ A |-> Sorted(A), B |-> Sorted(B),
                              funsimavg |-> SetSim(View, A, B, "funsimavg"),
                              funsimmax |-> SetSim(View, A, B, "funsimmax"),
                              bma       |-> SetSim(View, A, B, "bma") ])

Next == \E A, B \in SUBSET Id : Call(A, B)
Spec == Init /\ [][Next]_<<cache, calls>>

CacheSound == \A p \in DOMAIN cache : cache[p] = F[p]

CachedEqualsUncached ==
  \A i \in 1..Len(calls) :
     LET c == calls[i] A == Range(c.A) B == Range(c.B) IN
       /\ c.funsimavg = SetSim(F, A, B, "funsimavg")
       /\ c.funsimmax = SetSim(F, A, B, "funsimmax")
       /\ c.bma       = SetSim(F, A, B, "bma")

FMatrix == [a \in Id |-> [b \in Id |-> F[<<a, b>>]]]
Emit == (calls # <<>>) => PrintT(<<"REPLAY", ToJson([ f |-> FMatrix, calls |-> calls ])>>)
=============================================================================
