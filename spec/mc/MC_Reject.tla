------------------------------ MODULE MC_Reject ------------------------------
(***************************************************************************)
(* C15 behaviour generator: complete Builder lifecycles over present and   *)
(* absent term ids.  To keep the history space small the new_term prefix   *)
(* is folded into the initial state (every arrangement of every subset of  *)
(* Ids); every later call is one step.  One REPLAY line per built          *)
(* ontology: the call history with replies and the projection required.    *)
(***************************************************************************)
EXTENDS HpoReject, Json

CONSTANTS MaxEdges, MaxFacts

NEdges == Cardinality({i \in 1..Len(calls) : calls[i].op = "add_parent"})
NFacts == Cardinality({i \in 1..Len(calls) : calls[i].op \in {"annotate", "add_record"}})

MInit ==
  /\ \E a \in Arrangements(Ids) :
       /\ arena = a
       /\ calls = [i \in 1..Len(a) |-> Call("new_term", a[i], 0, "", TRUE)]
  /\ phase = "loose"
  /\ parents = EmptyRel /\ children = EmptyRel /\ allp = EmptyRel
  /\ ann = [k \in Kinds |-> EmptyRel]
  /\ rec = [k \in Kinds |-> <<>>]
  /\ ic = [k \in Kinds |-> [t \in Ids |-> <<0, 0>>]]
  /\ nfact = 0 /\ bmode = "none"

MNext ==
  \/ RTermsComplete
  \/ NEdges < MaxEdges /\ \E p, c \in Ids : RAddParentOk(p, c) \/ RAddParentRejected(p, c)
  \/ RConnectAll
  \/ NFacts < MaxFacts /\ \E k \in Kinds : \E x \in RecIds[k] : RAddRecord(k, x) \/ \E t \in Ids : RAnnotateOk(k, x, t) \/ RAnnotateRejected(k, x, t)
  \/ RCalcIC
  \/ RBuild

MSpec == MInit /\ [][MNext]_rejVars

Built == phase = "built"
HasRejected == \E i \in 1..Len(calls) : ~calls[i].ok

Emit == Built => PrintT(<<"REPLAY", ToJson([ ids |-> Sorted(Ids), arena |-> arena, calls |-> calls, expect |-> Proj ])>>)

(* the rejected calls are exercised and the final state is closed *)
ClosedWhenBuilt == Built => NoDangling

RecsTiny == [k \in Kinds |-> IF k = "gene" THEN {1} ELSE IF k = "omim" THEN {1} ELSE {}]
RecsAll  == [k \in Kinds |-> IF k = "gene" THEN {1, 2} ELSE {1}]
=============================================================================
