SPECIFICATION Spec
CONSTANTS
  Shapes <- NegShapes
  RandomBig = 0
  Vals <- NegVals
INVARIANTS
  Lemmas
  Emit
CHECK_DEADLOCK FALSE
