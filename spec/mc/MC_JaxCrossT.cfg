SPECIFICATION Spec
CONSTANTS
  Families = {"TT"}
  Lattice = FALSE
INVARIANTS
  Agree
  Emit
CHECK_DEADLOCK FALSE
