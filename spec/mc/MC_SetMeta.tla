------------------------------ MODULE MC_SetMeta ------------------------------
EXTENDS HpoSetMeta, TLC, Json

VARIABLE c

Pool == {[Default EXCEPT !.extra = ex, !.pat = pt, !.flags = fl] :
           ex \in SUBSET {2, 3, 9999999}, pt \in 1..3, fl \in {<<FALSE, 0>>, <<TRUE, 0>>, <<TRUE, 118>>, <<FALSE, 1>>, <<TRUE, 777>>}}

Init == c = [stage |-> "root"]
Next == c.stage = "root" /\ \E p \in Pool : c' = [stage |-> "leaf", p |-> p]
Spec == Init /\ [][Next]_c
Leaf == c.stage = "leaf"
Sane == Leaf => MetaSane(Ont(c.p))
Emit == Leaf => PrintT(<<"REPLAY", ToJson([ bytes |-> Encode(Ont(c.p), 3), sets |-> SetMetas(Ont(c.p)), terms |-> TermMetas(Ont(c.p)),
                                             modifier |-> Sorted(ModRoots(Ont(c.p))), categories |-> Sorted(CatRoots(Ont(c.p))) ])>>)
=============================================================================
