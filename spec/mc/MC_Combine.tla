----------------------------- MODULE MC_Combine -----------------------------
(***************************************************************************)
(* C05, part 1 (pure evaluation): every r x c matrix with <<r, c>> in Shapes  *)
(* over Vals.  TLC checks the transpose lemma and the order relations on   *)
(* each and prints the exact rational value of the three combiners.        *)
(***************************************************************************)
EXTENDS HpoCombine, TLC, Json

CONSTANTS Shapes, Vals, RandomBig      \* RandomBig: number of random large matrices per big shape (0 = none)

VARIABLE m

Matrices == UNION {[1..s[1] -> [1..s[2] -> Vals]] : s \in Shapes}

SmallShapes == (1..3) \X (1..3)
NegShapes == (1..2) \X (1..3) \cup {<<3, 2>>, <<3, 3>>}      \* with negative entries (a user-supplied similarity may return any number)
NegVals == {-3, -1, 2}
WideShapes == {<<1, 5>>, <<5, 2>>, <<4, 3>>, <<2, 4>>, <<6, 1>>}
WideShapesT == {<<2, 4>>, <<4, 2>>, <<2, 5>>, <<5, 2>>, <<1, 8>>, <<8, 1>>}      \* thorough tier, over three values

(* large matrices (more rows/columns than the inline capacity of the crate's small vectors),  *)
(* with pseudo-random entries drawn by TLC                                                       *)
BigShapes == {<<12, 7>>, <<7, 12>>, <<31, 2>>, <<1, 40>>, <<33, 33>>}

Init == m \in Matrices \cup {<<>>} \cup (IF RandomBig > 0 THEN {x[1] : x \in {<<[i \in 1..s[1][1] |-> [j \in 1..s[1][2] |-> RandomElement(0..9)]], s>> : s \in BigShapes \X (1..RandomBig)}} ELSE {})
Next == UNCHANGED m
Spec == Init /\ [][Next]_m

Lemmas == TransposeInvariant(m) /\ CombinerOrder(m)

Emit == PrintT(<<"REPLAY", ToJson([ m |-> m, r |-> Rows(m), c |-> Cols(m),
                                    funsimavg |-> FunSimAvg(m), funsimmax |-> FunSimMax(m), bma |-> Bma(m) ])>>)
=============================================================================
