----------------------------- MODULE MC_Combine -----------------------------
(***************************************************************************)
(* C05, part 1 (pure evaluation): every r x c matrix with <<r, c>> in Shapes  *)
(* over Vals.  TLC checks the transpose lemma and the order relations on   *)
(* each and prints the exact rational value of the three combiners.        *)
(***************************************************************************)
EXTENDS HpoCombine, TLC, Json

CONSTANTS Shapes, Vals

VARIABLE m

Matrices == UNION {[1..s[1] -> [1..s[2] -> Vals]] : s \in Shapes}

SmallShapes == (1..3) \X (1..3)
WideShapes == {<<1, 5>>, <<5, 2>>, <<4, 3>>, <<2, 4>>, <<6, 1>>}

Init == m \in Matrices \cup {<<>>}
Next == UNCHANGED m
Spec == Init /\ [][Next]_m

Lemmas == TransposeInvariant(m) /\ CombinerOrder(m)

Emit == PrintT(<<"REPLAY", ToJson([ m |-> m, r |-> Rows(m), c |-> Cols(m),
                                    funsimavg |-> FunSimAvg(m), funsimmax |-> FunSimMax(m), bma |-> Bma(m) ])>>)
=============================================================================
