------------------------------- MODULE MC_Group -------------------------------
(***************************************************************************)
(* C12: every insertion sequence of at most MaxOps ids over Universe, and  *)
(* every ordered pair of subsets of Universe with the result of | and &    *)
(* and of adding each id.                                                  *)
(***************************************************************************)
EXTENDS HpoGroupSpec, TLC, Json

VARIABLE pair      \* <<A, B>> once chosen (evaluation part), <<>> before

vars == <<set, log, pair>>

MInit == Init /\ pair = <<>>
MNext ==
  \/ pair = <<>> /\ Next /\ UNCHANGED pair
  \/ /\ log = <<>> /\ pair = <<>>
     /\ \E A \in SUBSET Universe : pair' = <<A>>
     /\ UNCHANGED <<set, log>>
  \/ /\ Len(pair) = 1
     /\ \E B \in SUBSET Universe : pair' = <<pair[1], B>>
     /\ UNCHANGED <<set, log>>
MSpec == MInit /\ [][MNext]_vars

PairLaws == (Len(pair) = 2) => Laws(pair[1], pair[2])

Emit ==
  /\ (log # <<>>) => PrintT(<<"REPLAY", ToJson([ kind |-> "insert", log |-> log, iter |-> Asc(set), len |-> Cardinality(set) ])>>)
  /\ (Len(pair) = 2) =>
       PrintT(<<"REPLAY", ToJson([ kind |-> "ops", a |-> Asc(pair[1]), b |-> Asc(pair[2]),
                                   union |-> Asc(Union(pair[1], pair[2])), inter |-> Asc(Inter(pair[1], pair[2])),
                                   add |-> [i \in 1..Cardinality(Universe) |->
                                              LET x == Asc(Universe)[i] IN [x |-> x, r |-> Asc(AddOne(pair[1], x))]] ])>>)
=============================================================================
