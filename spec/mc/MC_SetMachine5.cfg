SPECIFICATION SMSpec
CONSTANTS
  World <- TheWorld
  MaxOps = 2
  ExtendIds <- MCExtend
  InitSets <- MCInit
  Variant = 5
INVARIANTS
  TypeOK
  AggregateLaws
  Emit
  EmitWorld
PROPERTIES
  StepLaws
CHECK_DEADLOCK FALSE
