SPECIFICATION Spec
CONSTANTS
  Shapes <- SmallShapes
  RandomBig = 0
  Vals = {0, 1, 2, 3}
INVARIANTS
  Lemmas
  Emit
CHECK_DEADLOCK FALSE
