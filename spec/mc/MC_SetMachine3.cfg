SPECIFICATION SMSpec
CONSTANTS
  World <- MCWorld
  MaxOps = 2
  ExtendIds <- MCExtend
  Variant = 3
INVARIANTS
  TypeOK
  AggregateLaws
  Emit
  EmitWorld
PROPERTIES
  StepLaws
CHECK_DEADLOCK FALSE
