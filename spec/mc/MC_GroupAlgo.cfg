SPECIFICATION Spec
CONSTANTS
  N = 5
  AnyInput = FALSE
INVARIANTS
  SearchSound
  UnionInv
  InterInv
  Result
PROPERTIES
  Terminates
CHECK_DEADLOCK FALSE
