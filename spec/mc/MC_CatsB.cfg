SPECIFICATION Spec
CONSTANTS
  Ids = {0, 1, 118, 119}
INVARIANTS
  Sane
  Emit
CHECK_DEADLOCK FALSE
