------------------------------ MODULE MC_TermId ------------------------------
(***************************************************************************)
(* C20: every text of at most MaxLen characters over a small alphabet that *)
(* contains digits, the regular prefix characters, a letter, a blank, a    *)
(* two-byte and a four-byte character - with the result parsing must give; *)
(* and the inverse laws on border ids.                                     *)
(***************************************************************************)
EXTENDS HpoTermIdSpec, TLC, Json

CONSTANTS MaxLen, BorderIds

VARIABLE t

Alphabet == {<<72>>, <<80>>, <<58>>, <<48>>, <<49>>, <<57>>, <<120>>, <<32>>, <<195, 169>>, <<240, 159, 152, 128>>}

Init == t = <<>>
Next == Len(t) < MaxLen /\ \E c \in Alphabet : t' = Append(t, c)
Spec == Init /\ [][Next]_t

InverseLaws == \A id \in BorderIds : RoundTrip(id)

(* parsing succeeds exactly on: >= 4 bytes, boundary at offset 3, then digits only *)
ParseChar ==
  LET i == CharAtOffset(t, 1, 0) IN
  (Parse(t) # Err) <=> (Len(BytesOf(t)) >= 4 /\ i # 0 /\ i <= Len(t) /\ \A j \in i..Len(t) : Digit(t[j]))

Emit == PrintT(<<"REPLAY", ToJson([ text |-> t, value |-> Parse(t) ])>>)
EmitIds == (t = <<>>) => PrintT(<<"REPLAY", ToJson([ ids |-> [i \in 1..Cardinality(BorderIds) |->
                 LET id == SetToSortSeq(BorderIds, <)[i] IN [id |-> id, text |-> Format(id), bytes |-> Bytes(id)]] ])>>)
=============================================================================
