SPECIFICATION Spec
CONSTANTS
  MaxEdits = 2
INVARIANTS
  Laws
  NothingIffEqual
  SingleEditVisible
  Emit
CHECK_DEADLOCK FALSE
