SPECIFICATION MCFair
CONSTANTS
  Ids = {1, 2, 3}
  RecIds <- MCRecIds
  RootId = 1
  PhenoId = 2
  EdgeOrderFree = FALSE
  ArenaOrders <- AllOrders
PROPERTIES
  ConnectTerminates
CHECK_DEADLOCK FALSE
