----------------------------- MODULE MC_Connect -----------------------------
(***************************************************************************)
(* C01 at the design level and as a behaviour generator.                   *)
(*                                                                         *)
(* Explores, with the step-level connect machine of HpoAlgo:               *)
(*   every duplicate-free insertion order over every subset of Ids         *)
(*   x every acyclic is_a relation on it (labels = the numeric ids, so     *)
(*     "every assignment of numeric ids to nodes" is inside the space)     *)
(*   x (EdgeOrderFree) every order of supplying the edges.                 *)
(* Checks CacheSound / StackShape in every intermediate step and           *)
(* ClosureExact / InverseRel at the end, and prints one REPLAY line per    *)
(* completed behaviour: the call sequence plus the abstract state the      *)
(* specification says must result.                                         *)
(***************************************************************************)
EXTENDS HpoAlgo, Json

CONSTANTS EdgeOrderFree,  \* TRUE: edges may be supplied in any order; FALSE: only in <<child,parent>> order
          ArenaOrders     \* the insertion orders explored (a set of sequences; every prefix is explored too)

VARIABLE edges           \* history: Seq of <<parent, child>> in supply order

mcVars == <<algoVars, edges>>

MCRecIds == [k \in Kinds |-> {}]
AllOrders == Arrangements(Ids)
Orders5 == {<<1, 2, 3, 4, 5>>, <<5, 4, 3, 2, 1>>, <<3, 1, 5, 2, 4>>}

LastEdge == edges[Len(edges)]
Later(p, c) ==    \* canonical supply order, used when EdgeOrderFree = FALSE
  IF edges = <<>> THEN TRUE
  ELSE IF c > LastEdge[2] THEN TRUE
  ELSE c = LastEdge[2] /\ p > LastEdge[1]

MCInit == AlgoInit /\ edges = <<>>

MCNext ==
  \/ /\ Quiet
     /\ \/ \E id \in Ids : /\ id \notin Terms
                             /\ \E o \in ArenaOrders : IsPrefix(Append(arena, id), o)
                             /\ NewTerm(id)
        \/ TermsComplete
     /\ UNCHANGED <<outer, cstack, lstack, lcur, edges>>
  \/ /\ Quiet
     /\ \E p, c \in Ids :
          /\ p \notin parents[c]
          /\ IF EdgeOrderFree THEN TRUE ELSE Later(p, c)
          /\ AddParent(p, c)
          /\ edges' = Append(edges, <<p, c>>)
     /\ UNCHANGED <<outer, cstack, lstack, lcur>>
  \/ (ConnectStart /\ UNCHANGED edges)
  \/ (ConnectStep /\ UNCHANGED edges)

MCSpec == MCInit /\ [][MCNext]_mcVars
MCFair == MCSpec /\ WF_mcVars(ConnectStep /\ UNCHANGED edges)

Expect == [ arena |-> arena, edges |-> edges, facts |-> <<>>, expect |-> Proj ]

Emit == (phase = "connected") => PrintT(<<"REPLAY", ToJson(Expect)>>)

(* The final cache, as computed by the step machine, is the closure. *)
Refines == (phase = "connected") =>
              /\ ClosureExact
              /\ \A t \in Ids \ Terms : allp[t] = {}

=============================================================================
