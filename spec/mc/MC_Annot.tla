------------------------------ MODULE MC_Annot ------------------------------
(***************************************************************************)
(* C02 at the design level: the step-level link machine of HpoAlgo on      *)
(* EVERY acyclic is_a relation over Ids, from every reachable annotation   *)
(* state, with every next fact - no history variable, so TLC's state graph *)
(* is an induction over "every order of supplying the facts": repeated     *)
(* facts, facts on inner nodes whose ancestors are already linked through  *)
(* another child, records without terms, and the binary loader's           *)
(* link-before-insert order are all inside it.                             *)
(***************************************************************************)
EXTENDS HpoAlgo

AllDags == {p \in [Ids -> SUBSET Ids] : Acyclic(p)}

MCInit ==
  /\ phase = "connected"
  /\ arena = Sorted(Ids)
  /\ parents \in AllDags
  /\ children = [t \in Ids |-> ChildrenOf(parents, t)]
  /\ allp = [t \in Ids |-> Anc(parents, t)]
  /\ ann = [k \in Kinds |-> EmptyRel]
  /\ rec = [k \in Kinds |-> <<>>]
  /\ ic = [k \in Kinds |-> [t \in Ids |-> <<0, 0>>]]
  /\ nfact = 0
  /\ bmode = "none"
  /\ outer = 0 /\ cstack = <<>> /\ lstack = <<>> /\ lcur = Idle

MCNext ==
  \/ /\ Quiet
     /\ \E k \in Kinds : \E x \in RecIds[k] : AddRecord(k, x)
     /\ UNCHANGED <<outer, cstack, lstack, lcur>>
  \/ \E k \in Kinds : \E x \in RecIds[k] : \E t \in Ids : LinkBeginBuilder(k, x, t)
  \/ \E k \in Kinds : \E x \in RecIds[k] : \E S \in SUBSET Terms : LinkBeginBytes(k, x, S)
  \/ LinkStepAny

MCSpec == MCInit /\ [][MCNext]_algoVars
MCFair == MCSpec /\ WF_algoVars(LinkStepAny)

(* record names are call counters ("first name wins"); they do not influence *)
(* any transition, so they are projected away to keep the graph finite.      *)
NoNames(r) == [k \in Kinds |-> [x \in DOMAIN r[k] |-> r[k][x].hpos]]
View == <<parents, ann, NoNames(rec), lstack, lcur>>

MCRecIds2 == [k \in Kinds |-> IF k = "gene" THEN {1, 2} ELSE {}]
MCRecIds3 == [k \in Kinds |-> IF k = "gene" THEN {1, 2} ELSE IF k = "omim" THEN {1} ELSE {}]
MCRecIds4 == [k \in Kinds |-> IF k = "gene" THEN {1, 2} ELSE {1}]

(* the three kinds are separate variables of the same machine: a call of one *)
(* kind never changes another kind's sets                                   *)
NoLeakStep == [][\A k \in Kinds : (InFlight' /\ lcur'.k # k /\ InFlight /\ lcur.k # k) => ann'[k] = ann[k]]_algoVars

=============================================================================
