SPECIFICATION Spec
CONSTANTS
  N = 3
  AnyInput = TRUE
INVARIANTS
  Result
CHECK_DEADLOCK FALSE
