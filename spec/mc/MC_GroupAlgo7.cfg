SPECIFICATION Spec
CONSTANTS
  N = 7
  AnyInput = FALSE
INVARIANTS
  SearchSound
  UnionInv
  InterInv
  Result
PROPERTIES
  Terminates
CHECK_DEADLOCK FALSE
