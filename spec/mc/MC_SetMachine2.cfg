SPECIFICATION SMSpec
CONSTANTS
  World <- TheWorld
  MaxOps = 2
  ExtendIds <- MCExtend
  InitSets <- MCInit
  Variant = 2
INVARIANTS
  TypeOK
  AggregateLaws
  DefsAgree
  Emit
  EmitWorld
PROPERTIES
  StepLaws
CHECK_DEADLOCK FALSE
