SPECIFICATION Spec
CONSTANTS
  Ns = {1, 2, 3, 4, 5, 6, 7, 8, 9, 10, 11, 12}
  BigNs = {170, 171, 200, 400}
  BigSamples = {3, 40, 160}
  HugeNs = {1200}
  WithSpecials = TRUE
INVARIANTS
  SelfCheck
  Emit
CHECK_DEADLOCK FALSE
