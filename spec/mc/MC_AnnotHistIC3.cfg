SPECIFICATION HSpec
CONSTANTS
  Ids = {1, 2, 3}
  RecIds <- RecsIC
  RootId = 1
  PhenoId = 2
  Prefix = FALSE
  WithExtras = FALSE
  WithPairs = FALSE
  MaxFacts = 3
  EmitAll = TRUE
INVARIANTS
  LinkExact
  Resolvable
  UpClosed
  Emit
CHECK_DEADLOCK FALSE
