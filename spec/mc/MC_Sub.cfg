SPECIFICATION Spec
CONSTANTS
  U = {1, 2, 3, 118}
  Topo = FALSE
  TopoOrder <- Topo4
INVARIANTS
  Sane
  DefsAgree
  NestedSane
  Emit
CHECK_DEADLOCK FALSE
