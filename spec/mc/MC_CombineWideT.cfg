SPECIFICATION Spec
CONSTANTS
  Shapes <- WideShapesT
  RandomBig = 0
  Vals = {0, 1, 2}
INVARIANTS
  Lemmas
  Emit
CHECK_DEADLOCK FALSE
