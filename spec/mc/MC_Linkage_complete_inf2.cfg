SPECIFICATION Spec
CONSTANTS
  N = 2
  Mode = "complete"
  Overlap = FALSE
  Vals = {0, 1}
INVARIANTS
  SizesAddUp
  TreeShape
  EachClusterOnce
  Monotone
  MachineInSet
  Emit
CHECK_DEADLOCK FALSE
