SPECIFICATION CoreSpec
CONSTANTS
  Ids = {1, 2, 3}
  RecIds <- Recs
  RootId = 1
  PhenoId = 2
CONSTRAINT Bound
VIEW View
INVARIANTS
  TypeOK
  ClosureExact
  InverseRel
  LinkExact
  Resolvable
  UpClosed
  ICArgsExact
  ICMonotone
CHECK_DEADLOCK FALSE
