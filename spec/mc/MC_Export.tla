------------------------------ MODULE MC_Export ------------------------------
EXTENDS HpoExport, TLC, Json

VARIABLE c

(* structure x names with blanks / multi-byte characters / equal names of different terms *)
Pool == {[Default EXCEPT !.extra = ex, !.pat = pt, !.tshape = ts] :
           ex \in SUBSET {2, 3, 9999999}, pt \in 1..4, ts \in {"short", "colon", "nonascii", "empty"}}

Init == c = [stage |-> "root"]
Next == c.stage = "root" /\ \E p \in Pool : c' = [stage |-> "leaf", p |-> p]
Spec == Init /\ [][Next]_c
Leaf == c.stage = "leaf"
Laws == Leaf => ExportLaws(Ont(c.p))
Emit == Leaf => PrintT(<<"REPLAY", ToJson([ bytes |-> Encode(Ont(c.p), 3), export |-> Export(Ont(c.p)) ])>>)
=============================================================================
