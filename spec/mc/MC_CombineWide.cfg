SPECIFICATION Spec
CONSTANTS
  Shapes <- WideShapes
  Vals = {0, 5}
INVARIANTS
  Lemmas
  Emit
CHECK_DEADLOCK FALSE
