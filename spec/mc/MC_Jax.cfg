SPECIFICATION Spec
CONSTANTS
  Families = {"B", "C", "D"}
INVARIANTS
  Agree
  Emit
CHECK_DEADLOCK FALSE
