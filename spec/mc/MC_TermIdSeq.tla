----------------------------- MODULE MC_TermIdSeq -----------------------------
(***************************************************************************)
(* C20, parsing is a FUNCTION of the text: the result of a call never      *)
(* depends on the calls made before it.  A tiny machine whose only state   *)
(* is the history of texts parsed so far; every call sequence of length    *)
(* SeqLen over a set of related texts - numbers rendered with 7..10 digits *)
(* (leading zeros), and for each the text made of its first seven digits - *)
(* is emitted with the value EVERY call must return, which is Parse(text)  *)
(* whatever came before.  (A memo of "the last parsed id" keyed by a       *)
(* prefix of the text, a reused buffer, ... are wrong histories although   *)
(* every single call on a fresh thread is right.)                          *)
(***************************************************************************)
EXTENDS HpoTermIdSpec, TLC, Json

CONSTANTS SeqLen

VARIABLE calls

Prefix == <<<<72>>, <<80>>, <<58>>>>
PadTo(d, n) == IF Len(d) >= n THEN d ELSE [i \in 1..(n - Len(d)) |-> <<48>>] \o d
Numbers == {0, 1, 123, 1234, 12345, 1234567, 9999999, 2147483}
Long == {2147483647, 1234567890, 12345678}
Texts == {Prefix \o PadTo(DigitsOf(n), w) : n \in Numbers, w \in 7..10}
         \cup {Prefix \o DigitsOf(n) : n \in Long}
         \cup {Prefix \o SubSeq(DigitsOf(n), 1, 7) : n \in Long}

Init == calls = <<>>
Next == Len(calls) < SeqLen /\ \E t \in Texts : calls' = Append(calls, t)
Spec == Init /\ [][Next]_calls

(* the specification's own statement of purity: the value of the last call is Parse of its text *)
Pure == \A i \in 1..Len(calls) : Parse(calls[i]) # Err

Emit == (Len(calls) = SeqLen) =>
          PrintT(<<"REPLAY", ToJson([ seq |-> [i \in 1..Len(calls) |-> [text |-> calls[i], value |-> Parse(calls[i])]] ])>>)
=============================================================================
