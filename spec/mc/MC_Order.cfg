SPECIFICATION OSpec
CONSTANTS
  Ids = {1, 2, 3}
  RecIds <- RecsOrder
  RootId = 1
  PhenoId = 118
  MaxFacts = 2
  MaxEdges = 3
INVARIANTS
  TypeOK
  OrderFree
  CachesOrderFree
  Emit
CHECK_DEADLOCK FALSE
