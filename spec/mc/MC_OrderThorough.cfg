SPECIFICATION OSpec
CONSTANTS
  Ids = {1, 2, 3}
  RecIds <- RecsOrderAll
  RootId = 1
  PhenoId = 118
  MaxFacts = 3
  MaxEdges = 3
INVARIANTS
  TypeOK
  OrderFree
  CachesOrderFree
  Emit
CHECK_DEADLOCK FALSE
