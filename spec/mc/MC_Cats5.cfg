SPECIFICATION Spec
CONSTANTS
  Ids = {1, 50, 118, 300, 9999999}
INVARIANTS
  Sane
  Emit
CHECK_DEADLOCK FALSE
