SPECIFICATION HSpec
CONSTANTS
  Ids = {1, 2, 3}
  RecIds <- RecsOnlyOrpha
  RootId = 1
  PhenoId = 2
  Prefix = FALSE
  WithExtras = FALSE
  WithPairs = FALSE
  MaxFacts = 2
  EmitAll = TRUE
INVARIANTS
  LinkExact
  Resolvable
  UpClosed
  Emit
CHECK_DEADLOCK FALSE
