-------------------------------- MODULE MC_Jax --------------------------------
(***************************************************************************)
(* C09: JAX text file sets.  For every ontology of the generator families  *)
(* (structure x flags, records x release date, name shapes), four noise    *)
(* presets (none / all kinds of noise with each of the three accepted gene *)
(* file headers, alternative line order inside stanzas) and three record   *)
(* orders, TLC checks that writer and declarative reader agree and emits   *)
(* the structured files with the projection the loaders must produce.      *)
(***************************************************************************)
EXTENDS HpoJax, TLC, Json

CONSTANTS Families,    \* which ontology catalogues: "B" structure x flags, "C" records x version, "D" name shapes, "T" their cross product, "R" six representatives
          Lattice      \* FALSE: the four presets below; TRUE: every combination of the eight kinds of noise and the three gene-file headers (768)

VARIABLE c

Plain == [tags |-> FALSE, altorder |-> FALSE, typedef |-> FALSE, dup |-> FALSE, cols |-> FALSE,
          nots |-> FALSE, decipher |-> FALSE, comments |-> FALSE, gheader |-> 2]
Noisy(h, alt) == [tags |-> TRUE, altorder |-> alt, typedef |-> TRUE, dup |-> TRUE, cols |-> TRUE,
                  nots |-> TRUE, decipher |-> TRUE, comments |-> TRUE, gheader |-> h]
LatticeSet == [tags : BOOLEAN, altorder : BOOLEAN, typedef : BOOLEAN, dup : BOOLEAN, cols : BOOLEAN,
               nots : BOOLEAN, decipher : BOOLEAN, comments : BOOLEAN, gheader : 1..3]
Presets == IF Lattice THEN SetToSeq(LatticeSet) ELSE <<Plain, Noisy(1, FALSE), Noisy(2, TRUE), Noisy(3, FALSE)>>

JB == {[Default EXCEPT !.fam = "B", !.extra = ex, !.pat = pt, !.flags = fl] :
         ex \in SUBSET {2, 9999999}, pt \in 1..3, fl \in {<<FALSE, 0>>, <<TRUE, 0>>, <<TRUE, 118>>, <<FALSE, 1>>}}
JC == {[Default EXCEPT !.fam = "C", !.gsel = g, !.osel = o, !.rsel = r, !.version = ver] :
         g \in 0..2, o \in 0..2, r \in 0..1, ver \in {<<0, 0, 0>>, <<2024, 12, 31>>, <<9999, 1, 9>>}}
JD == {[Default EXCEPT !.fam = "D", !.tshape = ts, !.gshape = ts, !.dshape = ts] : ts \in Shapes}
      \* a term WITHOUT parents whose name line closes its stanza (no is_a, no further tag): empty name, trailing blank, multi-byte
      \cup {[Default EXCEPT !.fam = "D", !.pat = 1, !.tshape = ts, !.extra = {}] : ts \in {"empty", "trail", "nonascii", "colon"}}

(* thorough tier: the cross product of the catalogues (structure x flags x records x version x two name shapes) *)
JT == {[Default EXCEPT !.fam = "T", !.extra = ex, !.pat = pt, !.flags = fl, !.gsel = g, !.osel = o, !.rsel = r, !.version = ver,
                       !.tshape = ts, !.gshape = ts, !.dshape = ts] :
         ex \in SUBSET {2, 9999999}, pt \in 1..4, fl \in {<<FALSE, 0>>, <<TRUE, 0>>, <<TRUE, 118>>, <<FALSE, 1>>},
         g \in 0..3, o \in 0..2, r \in 0..1, ver \in {<<0, 0, 0>>, <<2024, 12, 31>>}, ts \in {"short", "colon"}}
(* thorough tier: every name shape and a third release date on top *)
JTT == {[Default EXCEPT !.fam = "TT", !.extra = ex, !.pat = pt, !.flags = fl, !.gsel = g, !.osel = o, !.rsel = r, !.version = ver,
                        !.tshape = ts, !.gshape = ts, !.dshape = ts] :
          ex \in SUBSET {2, 9999999}, pt \in 1..4, fl \in {<<FALSE, 0>>, <<TRUE, 0>>, <<TRUE, 118>>, <<FALSE, 1>>},
          g \in 0..3, o \in 0..2, r \in 0..1, ver \in {<<0, 0, 0>>, <<2024, 12, 31>>, <<9999, 1, 9>>}, ts \in Shapes}
(* six representatives for the noise lattice *)
JR == {[Default EXCEPT !.fam = "R"],
       [Default EXCEPT !.fam = "R", !.extra = {2, 9999999}, !.pat = 3, !.flags = <<TRUE, 118>>, !.gsel = 3, !.osel = 2],
       [Default EXCEPT !.fam = "R", !.extra = {}, !.pat = 1, !.tshape = "trail", !.gsel = 0, !.osel = 0, !.rsel = 0, !.version = <<0, 0, 0>>],
       [Default EXCEPT !.fam = "R", !.tshape = "colon", !.gshape = "colon", !.dshape = "colon", !.flags = <<FALSE, 1>>],
       [Default EXCEPT !.fam = "R", !.tshape = "nonascii", !.gshape = "nonascii", !.dshape = "nonascii", !.pat = 4, !.gsel = 2],
       [Default EXCEPT !.fam = "R", !.extra = {9999999}, !.pat = 2, !.flags = <<TRUE, 0>>, !.osel = 2, !.rsel = 0]}

Onts == (IF "TT" \in Families THEN JTT ELSE {}) \cup (IF "T" \in Families THEN JT ELSE {}) \cup (IF "R" \in Families THEN JR ELSE {}) \cup (IF "B" \in Families THEN JB ELSE {}) \cup (IF "C" \in Families THEN JC ELSE {}) \cup (IF "D" \in Families THEN JD ELSE {})

Init == c = [p |-> Default, nzi |-> 0, pm |-> "root"]
Next ==
  \/ c.pm = "root" /\ \E i \in 1..Len(Presets) : \E pm \in {"id", "rev", "rot"} : c' = [p |-> Default, nzi |-> i, pm |-> "node" \o pm]
  \/ \E pm \in {"id", "rev", "rot"} : c.pm = "node" \o pm /\ \E p \in Onts : c' = [p |-> p, nzi |-> c.nzi, pm |-> pm]
Spec == Init /\ [][Next]_c

Leaf == c.pm \in {"id", "rev", "rot"}

Agree == Leaf => WriteReadAgree(Ont(c.p), Presets[c.nzi], c.pm)

Emit ==
  Leaf =>
    LET o == JaxRestrict(Ont(c.p)) IN
    PrintT(<<"REPLAY", ToJson([ p |-> c.p, preset |-> c.nzi, pm |-> c.pm, o |-> o,
                                files |-> JaxFiles(Ont(c.p), Presets[c.nzi], c.pm),
                                expect |-> ProjOf(o) ])>>)
=============================================================================
