SPECIFICATION Spec
CONSTANTS
  N = 3
  Mode = "union"
  Overlap = TRUE
  Vals = {1}
INVARIANTS
  SizesAddUp
  TreeShape
  EachClusterOnce
  Monotone
  MachineInSet
  Emit
CHECK_DEADLOCK FALSE
