SPECIFICATION MCSpec
CONSTANTS
  Ids = {1, 2, 3}
  RecIds <- MCRecIds4
  RootId = 1
  PhenoId = 2
VIEW View
INVARIANTS
  UpClosedQuiet
  LinkExactQuiet
  LinkInFlightSound
PROPERTIES
  NoLeakStep
CHECK_DEADLOCK FALSE
