--------------------------- MODULE MC_SetMachine ---------------------------
(***************************************************************************)
(* Worlds for HpoSetMachine and emission of every history.                 *)
(* Seven terms: 1 (root), 118 (phenotypic abnormality), 2 (a modifier      *)
(* root), 5 (below the modifier root), 3, 4 (phenotype terms, 4 below 3),  *)
(* 6 (below 3 AND below 5: a phenotype term that is also a modifier).      *)
(* Variants of flags / replacements:                                       *)
(*   1: replacement chain upward in id order   3 -> 4 -> 6, 3 and 4 obsolete*)
(*   2: replacement chain downward in id order 6 -> 4 -> 3, only 6 flagged *)
(*      obsolete (4 names a replacement without being flagged)             *)
(*   3: replacement colliding with a member (3 -> 118), a modifier replaced *)
(*      by the root (5 -> 1), 5 obsolete                                   *)
(*   4: obsolete terms without replacement (4, 5)                          *)
(* Genes / diseases sit on different terms so that every replacement and   *)
(* every filter changes some union.                                        *)
(***************************************************************************)
EXTENDS HpoSetMachine, TLC, Json

CONSTANT Variant

T(id, obs, repl) == [id |-> id, name |-> <<<<84>>>>, obsolete |-> obs, repl |-> repl]
P(id, ps) == [id |-> id, parents |-> ps]
R(id, ts) == [id |-> id, name |-> <<<<71>>>>, terms |-> ts]

Flags ==
  CASE Variant = 1 -> [t \in {1, 2, 3, 4, 5, 6, 118} |-> IF t = 3 THEN <<TRUE, 4>> ELSE IF t = 4 THEN <<TRUE, 6>> ELSE <<FALSE, 0>>]
    [] Variant = 2 -> [t \in {1, 2, 3, 4, 5, 6, 118} |-> IF t = 6 THEN <<TRUE, 4>> ELSE IF t = 4 THEN <<FALSE, 3>> ELSE <<FALSE, 0>>]
    [] Variant = 3 -> [t \in {1, 2, 3, 4, 5, 6, 118} |-> IF t = 3 THEN <<FALSE, 118>> ELSE IF t = 5 THEN <<TRUE, 1>> ELSE <<FALSE, 0>>]
    [] OTHER       -> [t \in {1, 2, 3, 4, 5, 6, 118} |-> IF t \in {4, 5} THEN <<TRUE, 0>> ELSE <<FALSE, 0>>]

Par == [t \in {1, 2, 3, 4, 5, 6, 118} |->
          CASE t = 1 -> <<>> [] t = 118 -> <<1>> [] t = 2 -> <<1>> [] t = 5 -> <<2>> [] t = 3 -> <<118>> [] t = 4 -> <<3>> [] OTHER -> <<3, 5>>]

MCWorld ==
  LET ids == <<1, 2, 3, 4, 5, 6, 118>> IN
  [ version |-> <<2024, 1, 2>>,
    terms   |-> [i \in 1..7 |-> T(ids[i], Flags[ids[i]][1], Flags[ids[i]][2])],
    parents |-> [i \in 1..7 |-> P(ids[i], Par[ids[i]])],
    gene    |-> <<R(1, <<3>>), R(2, <<4>>), R(3, <<6>>), R(4, <<5>>), R(5, <<>>), R(6, <<118>>)>>,
    omim    |-> <<R(1, <<4, 6>>), R(2, <<2>>), R(3, <<3>>), R(4, <<>>)>>,
    orpha   |-> <<R(1, <<3>>), R(2, <<5>>)>> ]

MCExtend == {3, 6}

(* one line per complete history; the world itself once (from the state "empty set, nothing done") *)
Emit == (Len(hist) = MaxOps) =>
           PrintT(<<"REPLAY", ToJson([ variant |-> Variant, start |-> Sorted(start), initial |-> Obs(start), steps |-> hist ])>>)
EmitWorld == (hist = <<>> /\ members = {}) =>
           PrintT(<<"REPLAY", ToJson([ world |-> Variant, bytes |-> Encode(MCWorld, 3),
                                       modifier |-> Sorted(ModRoots(MCWorld)), categories |-> Sorted(CatRoots(MCWorld)) ])>>)
=============================================================================
