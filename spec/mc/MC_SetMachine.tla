--------------------------- MODULE MC_SetMachine ---------------------------
(***************************************************************************)
(* Worlds for HpoSetMachine and emission of every history.                 *)
(* Seven terms: 1 (root), 118 (phenotypic abnormality), 2 (a modifier      *)
(* root), 5 (below the modifier root), 3, 4 (phenotype terms, 4 below 3),  *)
(* 6 (below 3 AND below 5: a phenotype term that is also a modifier).      *)
(* Variants of flags / replacements:                                       *)
(*   1: replacement chain upward in id order   3 -> 4 -> 6, 3 and 4 obsolete*)
(*   2: replacement chain downward in id order 6 -> 4 -> 3, only 6 flagged *)
(*      obsolete (4 names a replacement without being flagged)             *)
(*   3: replacement colliding with a member (3 -> 118), a modifier replaced *)
(*      by the root (5 -> 1), 5 obsolete                                   *)
(*   4: obsolete terms without replacement (4, 5)                          *)
(* Genes / diseases sit on different terms so that every replacement and   *)
(* every filter changes some union.                                        *)
(***************************************************************************)
EXTENDS HpoSetMachine, TLC, Json

CONSTANT Variant

T(id, obs, repl) == [id |-> id, name |-> <<<<84>>>>, obsolete |-> obs, repl |-> repl]
P(id, ps) == [id |-> id, parents |-> ps]
R(id, ts) == [id |-> id, name |-> <<<<71>>>>, terms |-> ts]

Flags ==
  CASE Variant = 1 -> [t \in {1, 2, 3, 4, 5, 6, 118} |-> IF t = 3 THEN <<TRUE, 4>> ELSE IF t = 4 THEN <<TRUE, 6>> ELSE <<FALSE, 0>>]
    [] Variant = 2 -> [t \in {1, 2, 3, 4, 5, 6, 118} |-> IF t = 6 THEN <<TRUE, 4>> ELSE IF t = 4 THEN <<FALSE, 3>> ELSE <<FALSE, 0>>]
    [] Variant = 3 -> [t \in {1, 2, 3, 4, 5, 6, 118} |-> IF t = 3 THEN <<FALSE, 118>> ELSE IF t = 5 THEN <<TRUE, 1>> ELSE <<FALSE, 0>>]
    [] OTHER       -> [t \in {1, 2, 3, 4, 5, 6, 118} |-> IF t \in {4, 5} THEN <<TRUE, 0>> ELSE <<FALSE, 0>>]

Par == [t \in {1, 2, 3, 4, 5, 6, 118} |->
          CASE t = 1 -> <<>> [] t = 118 -> <<1>> [] t = 2 -> <<1>> [] t = 5 -> <<2>> [] t = 3 -> <<118>> [] t = 4 -> <<3>> [] OTHER -> <<3, 5>>]

MCWorld ==
  LET ids == <<1, 2, 3, 4, 5, 6, 118>> IN
  [ version |-> <<2024, 1, 2>>,
    terms   |-> [i \in 1..7 |-> T(ids[i], Flags[ids[i]][1], Flags[ids[i]][2])],
    parents |-> [i \in 1..7 |-> P(ids[i], Par[ids[i]])],
    gene    |-> <<R(1, <<3>>), R(2, <<4>>), R(3, <<6>>), R(4, <<5>>), R(5, <<>>), R(6, <<118>>)>>,
    omim    |-> <<R(1, <<4, 6>>), R(2, <<2>>), R(3, <<3>>), R(4, <<>>)>>,
    orpha   |-> <<R(1, <<3>>), R(2, <<5>>)>> ]

MCExtend == IF Variant = 5 THEN {3, 239} ELSE {3, 6}

(* Variant 5: beyond the inline capacity (30) of the crate's id groups.  A chain 200 <- 201 <- ... <- 239 below HP:118 (the    *)
(* deepest term has 41 ancestors), a modifier root 2 with child 3; 210 obsolete and replaced by 211, 220 obsolete.  Objects are *)
(* created with a few large / deep member sets instead of every subset.                                                        *)
Chain == 200..239
BigIds == <<1, 2, 3, 118>> \o [i \in 1..40 |-> 199 + i]
BigWorld ==
  [ version |-> <<2024, 1, 2>>,
    terms   |-> [i \in 1..Len(BigIds) |-> T(BigIds[i], BigIds[i] \in {210, 220}, IF BigIds[i] = 210 THEN 211 ELSE 0)],
    parents |-> [i \in 1..Len(BigIds) |-> P(BigIds[i], CASE BigIds[i] = 1 -> <<>> [] BigIds[i] \in {2, 118} -> <<1>> [] BigIds[i] = 3 -> <<2>>
                                                          [] BigIds[i] = 200 -> <<118>> [] OTHER -> <<BigIds[i] - 1>>)],
    gene    |-> <<R(1, <<239>>), R(2, <<200>>), R(3, <<3>>), R(4, <<>>)>>,
    omim    |-> <<R(1, <<220>>), R(2, <<2>>)>>,
    orpha   |-> <<R(1, <<211>>)>> ]
BigInit == { {1, 2, 3, 118} \cup Chain, Chain, {238, 239}, {1, 118, 239}, {1} \cup (200..230), {3, 239}, {210, 211, 220, 239}, {} }

TheWorld == IF Variant = 5 THEN BigWorld ELSE MCWorld
MCInit == IF Variant = 5 THEN BigInit ELSE SUBSET {1, 2, 3, 4, 5, 6, 118}

(* one line per complete history; the world itself once (from the state "empty set, nothing done") *)
Emit == (Len(hist) = MaxOps) =>
           PrintT(<<"REPLAY", ToJson([ variant |-> Variant, start |-> Sorted(start), initial |-> Obs(start), steps |-> hist ])>>)
EmitWorld == (hist = <<>> /\ members = {}) =>
           PrintT(<<"REPLAY", ToJson([ world |-> Variant, bytes |-> Encode(TheWorld, 3),
                                       modifier |-> Sorted(ModRoots(TheWorld)), categories |-> Sorted(CatRoots(TheWorld)) ])>>)
=============================================================================
