--------------------------- MODULE MC_CompareEdits ---------------------------
(***************************************************************************)
(* C18 by EDIT SCRIPTS: "pairs of ontologies that differ by a single edit  *)
(* of each kind (rename, parent added/removed, obsolete flipped,           *)
(* replacement changed, annotation added/removed, record added/removed)".  *)
(*                                                                         *)
(* A small state machine: `cur` starts as the base ontology and every      *)
(* action applies ONE edit; every reachable state within MaxEdits edits is *)
(* compared with the base, in both directions.  The base has a term        *)
(* without parents that is not the root and is listed after terms with     *)
(* parents (4: obsolete, replaced by 3), a multi-parent term, records with *)
(* several, one and no terms, equal numeric ids across the three kinds.    *)
(* Ontologies are kept as functions for editing and converted to the       *)
(* HpoBinary / OntGen schema for Compare and Encode.                       *)
(***************************************************************************)
EXTENDS HpoCompare, TLC, Json

CONSTANTS MaxEdits,
          LongNames    \* TRUE: the two names are 301 bytes long and differ in their LAST byte only; the pairs are then realised
                       \* through hp.obo + annotation files (a binary file cannot hold such names), term edits only

VARIABLES cur, edits

NameA == IF LongNames THEN [i \in 1..300 |-> <<120>>] \o <<<<65>>>> ELSE <<<<65>>, <<98>>>>                      \* "Ab"
NameB == IF LongNames THEN [i \in 1..300 |-> <<120>>] \o <<<<66>>>> ELSE <<<<65>>, <<58>>, <<32>>, <<66>>>>      \* "A: B"
Names == {NameA, NameB}
EKinds == {"gene", "omim", "orpha"}

Base ==
  [ terms |-> {1, 2, 3, 4, 118},
    name  |-> [t \in {1, 2, 3, 4, 5, 118} |-> NameA],
    obs   |-> [t \in {1, 2, 3, 4, 5, 118} |-> t = 4],
    repl  |-> [t \in {1, 2, 3, 4, 5, 118} |-> IF t = 4 THEN 3 ELSE 0],
    par   |-> [t \in {1, 2, 3, 4, 5, 118} |-> CASE t = 118 -> {1} [] t = 2 -> {118} [] t = 3 -> {2, 118} [] OTHER -> {}],
    recs  |-> [k \in EKinds |->
                 CASE k = "gene"  -> (7 :> [name |-> NameA, hpos |-> {2, 3}]) @@ (8 :> [name |-> NameB, hpos |-> IF LongNames THEN {118} ELSE {}])
                   \* omim 6: three direct terms, so that two edits can exchange the MIDDLE one (same size, same smallest and largest id)
                   [] k = "omim"  -> (7 :> [name |-> NameA, hpos |-> {3}]) @@ (6 :> [name |-> NameB, hpos |-> {1, 3, 118}])
                   [] OTHER       -> (7 :> [name |-> NameA, hpos |-> {118}])] ]

AllIds == {1, 2, 3, 4, 5, 118}
DescSelfOf(a, t) == DescSelf([x \in a.terms |-> a.par[x] \cap a.terms], t)

ToRecs(f) == LET ids == Sorted(DOMAIN f) IN [i \in 1..Len(ids) |-> [id |-> ids[i], name |-> f[ids[i]].name, terms |-> Sorted(f[ids[i]].hpos)]]
ToOnt(a) ==
  LET ids == Sorted(a.terms) IN
  [ version |-> <<2024, 5, 6>>,
    terms   |-> [i \in 1..Len(ids) |-> [id |-> ids[i], name |-> a.name[ids[i]], obsolete |-> a.obs[ids[i]], repl |-> a.repl[ids[i]]]],
    parents |-> [i \in 1..Len(ids) |-> [id |-> ids[i], parents |-> Sorted(a.par[ids[i]])]],
    gene |-> ToRecs(a.recs["gene"]), omim |-> ToRecs(a.recs["omim"]), orpha |-> ToRecs(a.recs["orpha"]) ]

-----------------------------------------------------------------------------
(* the edits *)
Rename(t)          == [cur EXCEPT !.name[t] = IF @ = NameA THEN NameB ELSE NameA]
AddPar(t, p)       == [cur EXCEPT !.par[t] = @ \cup {p}]
DelPar(t, p)       == [cur EXCEPT !.par[t] = @ \ {p}]
FlipObs(t)         == [cur EXCEPT !.obs[t] = ~@]
SetRepl(t, r)      == [cur EXCEPT !.repl[t] = r]
AddTerm(t)         == [cur EXCEPT !.terms = @ \cup {t}]
DelTerm(t)         == [cur EXCEPT !.terms = @ \ {t},
                                  !.par = [x \in AllIds |-> IF x = t THEN {} ELSE @[x] \ {t}],
                                  !.repl = [x \in AllIds |-> IF @[x] = t \/ x = t THEN 0 ELSE @[x]],
                                  !.obs[t] = FALSE, !.name[t] = NameA,
                                  !.recs = [k \in EKinds |-> [x \in DOMAIN @[k] |-> [@[k][x] EXCEPT !.hpos = @ \ {t}]]]]
RecAddTerm(k, x, t) == [cur EXCEPT !.recs[k][x].hpos = @ \cup {t}]
RecDelTerm(k, x, t) == [cur EXCEPT !.recs[k][x].hpos = @ \ {t}]
RecRename(k, x)     == [cur EXCEPT !.recs[k][x].name = IF @ = NameA THEN NameB ELSE NameA]
RecAdd(k, x)        == [cur EXCEPT !.recs[k] = @ @@ (x :> [name |-> NameB, hpos |-> {118}])]
RecDel(k, x)        == [cur EXCEPT !.recs[k] = [y \in DOMAIN @ \ {x} |-> @[y]]]

Edit(tag, a, b, c, nxt) == /\ Len(edits) < MaxEdits
                           /\ cur' = nxt
                           /\ edits' = Append(edits, <<tag, a, b, c>>)

Init == cur = Base /\ edits = <<>>
Next ==
  \/ \E t \in cur.terms : Edit("rename", t, 0, "", Rename(t))
  \/ \E t \in cur.terms \ {1} : \E p \in cur.terms \ cur.par[t] :
        p \notin DescSelfOf(cur, t) /\ Edit("add_parent", t, p, "", AddPar(t, p))
  \/ \E t \in cur.terms : \E p \in cur.par[t] : Edit("remove_parent", t, p, "", DelPar(t, p))
  \/ \E t \in cur.terms : Edit("flip_obsolete", t, 0, "", FlipObs(t))
  \/ \E t \in cur.terms : \E r \in ({0} \cup cur.terms) \ {t, cur.repl[t]} : Edit("set_replacement", t, r, "", SetRepl(t, r))
  \/ \E t \in {5} \ cur.terms : Edit("add_term", t, 0, "", AddTerm(t))
  \/ ~LongNames /\ \E t \in cur.terms \ {1, 118} : Edit("remove_term", t, 0, "", DelTerm(t))       \* (would empty a record: not expressible in text files)
  \/ ~LongNames /\ \E k \in EKinds : \E x \in DOMAIN cur.recs[k] :
        \/ \E t \in cur.terms \ cur.recs[k][x].hpos : Edit("annotate", x, t, k, RecAddTerm(k, x, t))
        \/ \E t \in cur.recs[k][x].hpos : Edit("unannotate", x, t, k, RecDelTerm(k, x, t))
        \/ Edit("rename_record", x, 0, k, RecRename(k, x))
        \/ Edit("remove_record", x, 0, k, RecDel(k, x))
  \/ ~LongNames /\ \E k \in EKinds : \E x \in {9} \ DOMAIN cur.recs[k] : Edit("add_record", x, 0, k, RecAdd(k, x))
Spec == Init /\ [][Next]_<<cur, edits>>

-----------------------------------------------------------------------------
L == ToOnt(Base)
R == ToOnt(cur)
Cmp == Compare(L, R)

Laws == CompareLaws(L, R) /\ CompareLaws(R, L)

Reported(c) == Len(c.added_terms) + Len(c.removed_terms) + Len(c.changed_terms)
               + Len(c.gene.added) + Len(c.gene.removed) + Len(c.gene.changed)
               + Len(c.omim.added) + Len(c.omim.removed) + Len(c.omim.changed)
               + Len(c.orpha.added) + Len(c.orpha.removed) + Len(c.orpha.changed)

(* nothing is reported exactly when nothing differs; a single edit is reported, and in the list its kind belongs to *)
NothingIffEqual == (Reported(Cmp) = 0) <=> (cur = Base \/ ToOnt(cur) = ToOnt(Base))
SingleEditVisible ==
  Len(edits) = 1 =>
    LET e == edits[1] IN
    /\ Reported(Cmp) >= 1
    /\ e[1] \in {"rename", "add_parent", "remove_parent", "flip_obsolete", "set_replacement"} =>
          (Len(Cmp.changed_terms) = 1 /\ Cmp.changed_terms[1].id = e[2] /\ Reported(Cmp) = 1)
    /\ e[1] = "add_term" => Cmp.added_terms = <<e[2]>>
    /\ e[1] = "remove_term" => Cmp.removed_terms = <<e[2]>>
    /\ e[1] \in {"annotate", "unannotate", "rename_record"} => (Len(Cmp[e[4]].changed) = 1 /\ Reported(Cmp) = 1)
    /\ e[1] = "add_record" => Cmp[e[4]].added = <<e[2]>>
    /\ e[1] = "remove_record" => Cmp[e[4]].removed = <<e[2]>>

Emit == IF LongNames
          THEN PrintT(<<"REPLAY", ToJson([ edits |-> edits, via |-> "obo", lo |-> L, ro |-> R, cmp |-> Cmp ])>>)
          ELSE PrintT(<<"REPLAY", ToJson([ edits |-> edits, lbytes |-> Encode(L, 3), rbytes |-> Encode(R, 3), cmp |-> Cmp ])>>)
=============================================================================
