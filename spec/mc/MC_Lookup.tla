------------------------------ MODULE MC_Lookup ------------------------------
(***************************************************************************)
(* C10: the arena machine for every sequence of at most MaxOps inserts     *)
(* over ids at the borders of the table (0, 1, inner, last, first out of   *)
(* range, far out of range), and the name lookups for every assignment of  *)
(* names over a two letter alphabet with every query of length <= 3.       *)
(***************************************************************************)
EXTENDS HpoLookup, TLC, Json

CONSTANTS MaxOps

Bound == Len(log) <= MaxOps

Emit == (Len(log) > 0) =>
  PrintT(<<"REPLAY", ToJson([ kind |-> "arena", table |-> TableSize, log |-> log,
                              present |-> inserted, order |-> Values, len |-> Len0,
                              probes |-> [i \in 1..Cardinality(Probe) |->
                                            LET id == SetToSortSeq(Probe, <)[i] IN [id |-> id, found |-> Get(id) # NoTerm]] ])>>)
=============================================================================
