------------------------------ MODULE MC_SubWide ------------------------------
(***************************************************************************)
(* C14 beyond the inline capacity of the crate's id groups (30): a WIDE     *)
(* source - 60 phenotype terms 100..159 (100..139 directly below HP:118,    *)
(* 140..159 below 100..119), a modifier root 2 with a child 3 - and calls   *)
(* that retain more than 30 phenotype terms.  Records: one gene per pair of *)
(* neighbouring leaves {100+i, 101+i}, a gene on 45 leaves, genes on the    *)
(* modifier terms only / on a modifier term and a leaf, diseases on every   *)
(* third leaf and on all leaves.  Every leaf has one shortest chain, so the *)
(* result is unique.                                                       *)
(***************************************************************************)
EXTENDS HpoSub, TLC, Json

VARIABLE c

Leaves1 == 100..139
Leaves2 == 140..159
U == {1, 118, 2, 3} \cup Leaves1 \cup Leaves2
Par == [t \in U |-> CASE t = 1 -> {} [] t = 118 -> {1} [] t = 2 -> {1} [] t = 3 -> {2}
                      [] t \in Leaves1 -> {118} [] OTHER -> {t - 40}]
AllLeaves == Leaves1 \cup Leaves2

Genes == [x \in 1..64 |-> [name |-> x, hpos |->
            CASE x <= 59 -> {99 + x, 100 + x}                 \* neighbours
              [] x = 60 -> {t \in AllLeaves : t % 4 # 1}      \* 45 direct terms
              [] x = 61 -> {3}
              [] x = 62 -> {2, 3}
              [] x = 63 -> {3, 159}
              [] OTHER  -> {}]]
Omims  == [x \in {1, 2} |-> [name |-> x, hpos |-> IF x = 1 THEN {t \in AllLeaves : t % 3 = 0} ELSE AllLeaves \cup {3}]]
Orphas == [x \in {1, 2} |-> [name |-> x, hpos |-> IF x = 1 THEN {118} ELSE {1, 2}]]

Queries ==
  { [root |-> 118, leaves |-> AllLeaves],
    [root |-> 1,   leaves |-> AllLeaves \cup {3}],
    [root |-> 118, leaves |-> {t \in AllLeaves : t % 3 # 1}],          \* 40 leaves; every third one is missing
    [root |-> 1,   leaves |-> {t \in Leaves2 : t % 2 = 0} \cup {t \in Leaves1 : t > 107} \cup {2}],
    [root |-> 118, leaves |-> 100..104],
    [root |-> 118, leaves |-> AllLeaves \cup {3}] }                     \* must be refused: 3 is not below 118

Init == c = [stage |-> "root"]
Next == c.stage = "root" /\ \E q \in Queries : \E d \in BOOLEAN : c' = [stage |-> "leaf", q |-> q, defaults |-> d]
Spec == Init /\ [][Next]_c
Leaf == c.stage = "leaf"
Mods == IF c.defaults THEN ModifierRoots(Par) ELSE {}
Sane == Leaf => SubSane(Par, c.q.root, c.q.leaves)
Result ==
  IF ~SubOk(Par, c.q.root, c.q.leaves) THEN [ok |-> FALSE, allowed |-> <<>>]
  ELSE LET Ts == SetToSeq(SubTermSets(Par, c.q.root, c.q.leaves)) IN
       [ok |-> TRUE, allowed |-> [i \in 1..Len(Ts) |-> [terms |-> Sorted(Ts[i]), proj |-> SubProj(Par, Mods, Genes, Omims, Orphas, Ts[i])]]]
EdgeSeq == SetToSeq({<<p, t>> \in U \X U : p \in Par[t]})
RecSeq(r) == LET ids == Sorted(DOMAIN r) IN [i \in 1..Len(ids) |-> [id |-> ids[i], hpos |-> Sorted(r[ids[i]].hpos)]]
Emit == Leaf => PrintT(<<"REPLAY", ToJson([ ids |-> Sorted(U), edges |-> EdgeSeq, defaults |-> c.defaults, root |-> c.q.root, leaves |-> Sorted(c.q.leaves),
                                             gene |-> RecSeq(Genes), omim |-> RecSeq(Omims), orpha |-> RecSeq(Orphas), result |-> Result ])>>)
=============================================================================
