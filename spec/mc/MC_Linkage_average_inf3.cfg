SPECIFICATION Spec
CONSTANTS
  N = 3
  Mode = "average"
  Overlap = FALSE
  Vals = {0, 1, 2}
INVARIANTS
  SizesAddUp
  TreeShape
  EachClusterOnce
  Monotone
  MachineInSet
  Emit
CHECK_DEADLOCK FALSE
