SPECIFICATION Spec
CONSTANTS
  MaxEdits = 2
  LongNames = TRUE
INVARIANTS
  Laws
  NothingIffEqual
  SingleEditVisible
  Emit
CHECK_DEADLOCK FALSE
