SPECIFICATION NSpec
INVARIANTS
  Sane
  NEmit
CHECK_DEADLOCK FALSE
