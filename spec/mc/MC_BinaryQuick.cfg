SPECIFICATION Spec
CONSTANTS
  Families = {"B", "C", "D"}
INVARIANTS
  Theorems
  Emit
CHECK_DEADLOCK FALSE
