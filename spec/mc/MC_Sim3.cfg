SPECIFICATION HSpec
CONSTANTS
  Ids = {1, 2, 3}
  RecIds <- RecsIC
  RootId = 1
  PhenoId = 2
  Prefix = FALSE
  WithExtras = FALSE
  WithPairs = TRUE
  MaxFacts = 2
  EmitAll = TRUE
INVARIANTS
  SimSymmetric
  SimBounds
  DistIsMin
  Emit
CHECK_DEADLOCK FALSE
