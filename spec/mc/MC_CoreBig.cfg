SPECIFICATION Spec
INVARIANTS
  Shape
  Emit
CHECK_DEADLOCK FALSE
