SPECIFICATION Spec
CONSTANTS
  N = 3
  Mode = "complete"
  Overlap = FALSE
  Vals = {0, 1, 2}
INVARIANTS
  SizesAddUp
  TreeShape
  EachClusterOnce
  Monotone
  MachineInSet
  Emit
CHECK_DEADLOCK FALSE
