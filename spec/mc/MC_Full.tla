------------------------------- MODULE MC_Full -------------------------------
(***************************************************************************)
(* The whole Builder pipeline of HpoCore as a behaviour generator for      *)
(* TLC's simulation mode (larger id sets than the exhaustive configs):     *)
(* new_term.. ; terms_complete ; add_parent.. ; connect_all_terms ;        *)
(* annotate / add record calls.  Init draws the budgets (terms, edges,     *)
(* facts) so that random walks produce sparse as well as dense graphs.     *)
(* One REPLAY line per completed behaviour.                                *)
(***************************************************************************)
EXTENDS HpoSetOps, Json

CONSTANTS MaxEdges, MaxFacts, WithPairs, WithExtras

VARIABLES edges, facts, budget

fullVars == <<coreVars, edges, facts, budget>>

FInit ==
  /\ CoreInit
  /\ edges = <<>> /\ facts = <<>>
  /\ budget \in [terms : 2..Cardinality(Ids), edges : 0..MaxEdges, facts : 0..MaxFacts]

CanAddEdge == \E p, c \in Terms : p # c /\ p \notin parents[c] /\ c \notin AncSelf(parents, p)

FNext ==
  \/ /\ Len(arena) < budget.terms
     /\ \E id \in Ids \ Terms : NewTerm(id)
     /\ UNCHANGED <<edges, facts, budget>>
  \/ /\ Len(arena) = budget.terms
     /\ TermsComplete
     /\ UNCHANGED <<edges, facts, budget>>
  \/ /\ Len(edges) < budget.edges
     /\ \E p, c \in Ids : /\ p \notin parents[c]
                          /\ AddParent(p, c)
                          /\ edges' = Append(edges, <<p, c>>)
     /\ UNCHANGED <<facts, budget>>
  \/ /\ phase = "all" /\ (Len(edges) = budget.edges \/ ~CanAddEdge)
     /\ ConnectAll
     /\ UNCHANGED <<edges, facts, budget>>
  \/ /\ Len(facts) < budget.facts
     /\ \E k \in Kinds : \E x \in RecIds[k] :
          \/ AddRecord(k, x) /\ facts' = Append(facts, [k |-> k, x |-> x])
          \/ \E t \in Ids : Annotate(k, x, t) /\ facts' = Append(facts, [k |-> k, x |-> x, t |-> t])
     /\ UNCHANGED <<edges, budget>>

FSpec == FInit /\ [][FNext]_fullVars

Done == phase = "connected" /\ Len(facts) = budget.facts

Expect == [ arena |-> arena, edges |-> edges, facts |-> facts, expect |-> Proj,
            pairs |-> IF WithPairs THEN SimPairs ELSE <<>>,
            paths |-> IF WithExtras THEN PathPairs ELSE <<>>,
            sets |-> IF WithExtras /\ Cardinality(Terms) <= 4 THEN SetInfos ELSE <<>> ]
Emit == Done => PrintT(<<"REPLAY", ToJson(Expect)>>)

RecsSim == [k \in Kinds |-> IF k = "gene" THEN {1, 2, 3} ELSE IF k = "omim" THEN {1, 2} ELSE {1}]

=============================================================================
