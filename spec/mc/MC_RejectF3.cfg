SPECIFICATION MSpec
CONSTANTS
  Ids = {1, 2, 3}
  RecIds <- RecsTiny
  RootId = 1
  PhenoId = 118
  OldCode = FALSE
  MaxEdges = 2
  MaxFacts = 3
INVARIANTS
  TypeOK
  NoDangling
  InverseRel
  Resolvable
  ClosureExact
  LinkExact
  Emit
PROPERTIES
  RejectedStutters
  ReplyRight
CHECK_DEADLOCK FALSE
