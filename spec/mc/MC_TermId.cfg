SPECIFICATION Spec
CONSTANTS
  MaxLen = 5
  BorderIds = {0, 1, 9, 10, 118, 999999, 1000000, 9999999, 10000000, 123456789, 2147483647}
INVARIANTS
  InverseLaws
  ParseChar
  Emit
  EmitIds
CHECK_DEADLOCK FALSE
