SPECIFICATION MCSpec
CONSTANTS
  Ids = {1, 2, 3, 4, 5}
  RecIds <- MCRecIds
  RootId = 1
  PhenoId = 2
  EdgeOrderFree = FALSE
  ArenaOrders <- Orders5
INVARIANTS
  CacheSound
  StackShape
  InverseRel
  Refines
  Emit
CHECK_DEADLOCK FALSE
