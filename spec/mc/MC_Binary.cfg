SPECIFICATION Spec
CONSTANTS
  Families = {"A", "B", "C"}
INVARIANTS
  Theorems
  Emit
CHECK_DEADLOCK FALSE
