SPECIFICATION Spec
CONSTANTS
  MaxTail = 10
INVARIANTS
  ParseChar
  Emit
CHECK_DEADLOCK FALSE
