SPECIFICATION Spec
CONSTANTS
  N = 4
  Mode = "average"
  Overlap = FALSE
  Vals = {1, 2, 3}
INVARIANTS
  SizesAddUp
  TreeShape
  EachClusterOnce
  Monotone
  MachineInSet
  Emit
CHECK_DEADLOCK FALSE
