------------------------------ MODULE MC_TermIdT ------------------------------
(***************************************************************************)
(* C20, "digits at every position": template texts.  A template is a       *)
(* three-character prefix followed by a tail of L digits (L = 1..MaxTail,  *)
(* three digit patterns), in which ONE position - of the tail or of the    *)
(* prefix - is replaced by each character of a broad alphabet: every       *)
(* printable ASCII character, tab, newline, NUL, DEL and multi-byte        *)
(* characters of 2, 3 and 4 bytes, among them non-ASCII decimal digits.    *)
(* Every template is an initial state; there are no steps.  The required   *)
(* result is HpoTermIdSpec!Parse: only the ten ASCII digits are digits,    *)
(* whatever the length of the tail (in particular the regular length 7).   *)
(* A '+' in the first tail position is outside the generator (see spec).   *)
(***************************************************************************)
EXTENDS HpoTermIdSpec, TLC, Json

CONSTANTS MaxTail

VARIABLE t

Ascii == {<<b>> : b \in {0, 9, 10} \cup (32..127)}
Multi == {<<195, 169>>, <<217, 163>>, <<226, 130, 172>>, <<239, 188, 145>>, <<240, 159, 152, 128>>, <<240, 157, 159, 145>>}
Broad == Ascii \cup Multi

Prefix == <<<<72>>, <<80>>, <<58>>>>
Pattern(L, k) == [i \in 1..L |-> CASE k = 0 -> <<48>>
                                   [] k = 1 -> <<49>>
                                   [] OTHER -> <<48 + (i % 10)>>]
(* patterns keep every accepted value below 2^31 (TLC's integers): all zeros, all ones (<= 10 digits), 1234567890 *)
Base == {Prefix \o Pattern(L, k) : L \in 1..MaxTail, k \in 0..2}

Templates ==
  Base \cup
  UNION {{ [b EXCEPT ![p] = c] : p \in 1..Len(b), c \in Broad } : b \in Base}

Plus == <<43>>
(* texts whose tail is a digit string beyond TLC's 32-bit integers are the harness' business (u32 borders) *)
TooBig(x) == LET i == CharAtOffset(x, 1, 0) IN
             Len(BytesOf(x)) >= 4 /\ i # 0 /\ i <= Len(x) /\ (\A j \in i..Len(x) : Digit(x[j])) /\ Value(x, i, 0) = Err
InScope(x) == ~(Len(x) >= 4 /\ x[4] = Plus /\ \A i \in 1..3 : Len(x[i]) = 1) /\ ~TooBig(x)

Init == t \in {x \in Templates : InScope(x)}
Next == FALSE /\ t' = t
Spec == Init /\ [][Next]_t

ParseChar ==
  LET i == CharAtOffset(t, 1, 0) IN
  (Parse(t) # Err) <=> (Len(BytesOf(t)) >= 4 /\ i # 0 /\ i <= Len(t) /\ \A j \in i..Len(t) : Digit(t[j]))

Emit == PrintT(<<"REPLAY", ToJson([ text |-> t, value |-> Parse(t) ])>>)
=============================================================================
