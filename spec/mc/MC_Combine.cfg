SPECIFICATION Spec
CONSTANTS
  Shapes <- SmallShapes
  Vals = {0, 1, 2}
INVARIANTS
  Lemmas
  Emit
CHECK_DEADLOCK FALSE
