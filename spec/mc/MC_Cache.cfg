SPECIFICATION Spec
CONSTANTS
  N = 3
  MaxCalls = 2
INVARIANTS
  CacheSound
  CachedEqualsUncached
  Emit
CHECK_DEADLOCK FALSE
