------------------------------- MODULE MC_Sub -------------------------------
(***************************************************************************)
(* C14 generator: every acyclic is_a relation over the universe (or every  *)
(* relation compatible with the order of TopoOrder when Topo = TRUE), with *)
(* and without the documented defaults, every root, every non-empty leaf   *)
(* set.  Fixed annotations: one gene per term, diseases on several terms,  *)
(* a record without terms.  Emits the reply (error / the allowed results). *)
(* Job tree root -> relation -> (mode, root, leaves) for parallelism.      *)
(***************************************************************************)
EXTENDS HpoSub, TLC, Json

CONSTANTS U,          \* the term ids; 1 and 118 among them
          Topo,       \* TRUE: only relations whose edges go from earlier to later in TopoOrder
          TopoOrder

VARIABLE c

EdgeSets == IF Topo THEN SUBSET {<<TopoOrder[i], TopoOrder[j]>> : <<i, j>> \in {p \in (1..Len(TopoOrder)) \X (1..Len(TopoOrder)) : p[1] < p[2]}}
            ELSE SUBSET (U \X U)
ParOfE(e) == [t \in U |-> {p \in U : <<p, t>> \in e}]
Rels == {p \in {ParOfE(e) : e \in EdgeSets} : Acyclic(p)}

UL == Sorted(U)
(* one gene per term (gene i on the i-th id), a gene on nothing, diseases on several terms *)
Genes  == [x \in 1..(Len(UL) + 1) |-> [name |-> x, hpos |-> IF x <= Len(UL) THEN {UL[x]} ELSE {}]]
Omims  == [x \in {1, 2} |-> [name |-> x, hpos |-> IF x = 1 THEN U \ {1, 118} ELSE {1, 118}]]
Orphas == [x \in {1, 2} |-> [name |-> x, hpos |-> IF x = 1 THEN U ELSE {UL[2], UL[Len(UL)]}]]

Topo4 == <<1, 118, 2, 3>>
Topo5 == <<1, 118, 2, 3, 4>>

Init == c = [stage |-> "root"]
Next ==
  \/ c.stage = "root" /\ \E p \in Rels : c' = [stage |-> "rel", par |-> p]
  \/ c.stage = "rel" /\ \E d \in BOOLEAN : \E r \in U : \E L \in (SUBSET U) \ {{}} :
        c' = [stage |-> "leaf", par |-> c.par, defaults |-> d, root |-> r, leaves |-> L]
Spec == Init /\ [][Next]_c

Leaf == c.stage = "leaf"
Mods == IF c.defaults THEN ModifierRoots(c.par) ELSE {}

Sane == Leaf => SubSane(c.par, c.root, c.leaves)
DefsAgree == (Leaf /\ SubOk(c.par, c.root, c.leaves)) => SubTermSets(c.par, c.root, c.leaves) = SubTermSetsDef(c.par, c.root, c.leaves)

(* A sub-ontology is an ontology: the call chained on its own result (same root; the same leaves, and the smallest leaf alone).  *)
(* The source of the second call is the result of the first: induced links, kept records restricted to the retained terms, and  *)
(* NO modifier roots (the result is built without the documented defaults).                                                     *)
NestLeaves == <<c.leaves, {CHOOSE x \in c.leaves : \A y \in c.leaves : x <= y}>>
NestPar(T) == SubPar(c.par, T)
Nested(T) ==
  LET p1 == NestPar(T)
      g1 == SubRecs(c.par, Mods, Genes, T)
      o1 == SubRecs(c.par, Mods, Omims, T)
      r1 == SubRecs(c.par, Mods, Orphas, T)
  IN [j \in 1..2 |->
        LET Ts2 == SetToSeq(SubTermSets(p1, c.root, NestLeaves[j])) IN
        [leaves |-> Sorted(NestLeaves[j]),
         allowed |-> [i \in 1..Len(Ts2) |-> [terms |-> Sorted(Ts2[i]), proj |-> SubProj(p1, {}, g1, o1, r1, Ts2[i])]]]]

(* the chained call is never refused, keeps a subset of the first result and again satisfies everything the caller relies on *)
NestedSane ==
  (Leaf /\ SubOk(c.par, c.root, c.leaves)) =>
    \A T \in SubTermSets(c.par, c.root, c.leaves) : \A j \in 1..2 :
      /\ SubOk(NestPar(T), c.root, NestLeaves[j])
      /\ SubSane(NestPar(T), c.root, NestLeaves[j])
      /\ \A T2 \in SubTermSets(NestPar(T), c.root, NestLeaves[j]) :
            /\ T2 \subseteq T
            /\ \A lf \in NestLeaves[j] : DistUp(SubPar(NestPar(T), T2), lf, c.root) = DistUp(c.par, lf, c.root)
      \* with the same leaves the first result is itself one of the allowed second results
      /\ T \in SubTermSets(NestPar(T), c.root, c.leaves)

Result ==
  IF ~SubOk(c.par, c.root, c.leaves) THEN [ok |-> FALSE, allowed |-> <<>>]
  ELSE LET Ts == SetToSeq(SubTermSets(c.par, c.root, c.leaves)) IN
       [ok |-> TRUE, allowed |-> [i \in 1..Len(Ts) |-> [terms |-> Sorted(Ts[i]), proj |-> SubProj(c.par, Mods, Genes, Omims, Orphas, Ts[i]), nested |-> Nested(Ts[i])]]]

EdgeSeq == SetToSeq({<<p, t>> \in U \X U : p \in c.par[t]})
RecSeq(r) == LET ids == Sorted(DOMAIN r) IN [i \in 1..Len(ids) |-> [id |-> ids[i], hpos |-> Sorted(r[ids[i]].hpos)]]

Emit == Leaf => PrintT(<<"REPLAY", ToJson([ ids |-> UL, edges |-> EdgeSeq, defaults |-> c.defaults, root |-> c.root, leaves |-> Sorted(c.leaves),
                                             gene |-> RecSeq(Genes), omim |-> RecSeq(Omims), orpha |-> RecSeq(Orphas), result |-> Result ])>>)
=============================================================================
