SPECIFICATION Spec
INVARIANTS
  Sane
  Emit
CHECK_DEADLOCK FALSE
