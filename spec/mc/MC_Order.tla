------------------------------ MODULE MC_Order ------------------------------
(***************************************************************************)
(* C16: the ontology is a function of the FACTS, not of the order in which *)
(* they are supplied.  The initial state fixes a fact set (the terms Ids,  *)
(* an acyclic is_a relation E and a set F of annotation facts); the Builder*)
(* machine of HpoCore then receives the terms, the links and the facts in  *)
(* EVERY possible order (one call per step).  OrderFree: the projection of *)
(* the built state equals a pure function of (Ids, E, F) - closure,        *)
(* downward union of the annotations, (n, N) of the information content.   *)
(* Record names are supplied as a function of the record id ("one name per *)
(* id"), so the first-name-wins rule cannot show.                          *)
(* One REPLAY line per order: the calls and the order-free projection.     *)
(***************************************************************************)
EXTENDS HpoCore, Json

CONSTANTS MaxFacts, MaxEdges

VARIABLES E, F, calls

ordVars == <<coreVars, E, F, calls>>

FactPool == UNION {{[k |-> k, x |-> x, t |-> t] : x \in RecIds[k], t \in Ids} : k \in Kinds}
ParOf(e) == [c \in Ids |-> {p \in Ids : <<p, c>> \in e}]
AllE == {e \in SUBSET (Ids \X Ids) : Cardinality(e) <= MaxEdges /\ Acyclic(ParOf(e))}

Call(op, a, b, c) == [op |-> op, a |-> a, b |-> b, c |-> c]
Supplied == {[k |-> calls[i].c, x |-> calls[i].a, t |-> calls[i].b] : i \in {j \in 1..Len(calls) : calls[j].op = "annotate"}}

OInit == /\ CoreInit
         /\ E \in AllE
         /\ F \in {S \in SUBSET FactPool : Cardinality(S) <= MaxFacts}
         /\ calls = <<>>

ONext ==
  /\ UNCHANGED <<E, F>>
  /\ \/ \E id \in Ids \ Terms : NewTerm(id) /\ calls' = Append(calls, Call("new_term", id, 0, ""))
     \/ Terms = Ids /\ TermsComplete /\ calls' = Append(calls, Call("terms_complete", 0, 0, ""))
     \/ \E e \in E : e[1] \notin parents[e[2]] /\ AddParent(e[1], e[2]) /\ calls' = Append(calls, Call("add_parent", e[1], e[2], ""))
     \/ (\A e \in E : e[1] \in parents[e[2]]) /\ ConnectAll /\ calls' = Append(calls, Call("connect_all_terms", 0, 0, ""))
     \/ \E f \in F \ Supplied : Annotate(f.k, f.x, f.t) /\ calls' = Append(calls, Call("annotate", f.x, f.t, f.k))
     \/ Supplied = F /\ CalcIC /\ calls' = Append(calls, Call("calculate_information_content", 0, 0, ""))
     \/ BuildMinimal /\ calls' = Append(calls, Call("build_minimal", 0, 0, ""))

OSpec == OInit /\ [][ONext]_ordVars

-----------------------------------------------------------------------------
(* the pure function of the fact set *)
RecOf(k) == LET fk == {f \in F : f.k = k} IN
            [x \in {f.x : f \in fk} |-> [name |-> x, hpos |-> {f.t : f \in {g \in fk : g.x = x}}]]
Want == ProjPure(Sorted(Ids), ParOf(E), RecOf("gene"), RecOf("omim"), RecOf("orpha"))
WantIC(k, t) == <<Cardinality(LinkedPure(ParOf(E), RecOf(k), t)), Cardinality(DOMAIN RecOf(k))>>

NoNames(rs) == [i \in DOMAIN rs |-> [rs[i] EXCEPT !.name = rs[i].id]]

Built == phase = "built"

OrderFree ==
  Built => /\ Range(Proj.terms) = Range(Want.terms)
           /\ NoNames(Proj.gene) = Want.gene /\ NoNames(Proj.omim) = Want.omim /\ NoNames(Proj.orpha) = Want.orpha
           /\ \A k \in Kinds : \A t \in Ids : ic[k][t] = WantIC(k, t)

(* the cache variables agree with it as well (not only the semantic projection) *)
CachesOrderFree ==
  Built => \A t \in Ids : /\ allp[t] = Anc(ParOf(E), t)
                          /\ children[t] = ChildrenOf(ParOf(E), t)
                          /\ \A k \in Kinds : ann[k][t] = LinkedPure(ParOf(E), RecOf(k), t)

Emit == Built => PrintT(<<"REPLAY", ToJson([ arena |-> arena, calls |-> calls, expect |-> Want ])>>)

RecsOrder == [k \in Kinds |-> IF k = "gene" THEN {1, 2} ELSE IF k = "omim" THEN {1} ELSE {}]
RecsOrderAll == [k \in Kinds |-> IF k = "gene" THEN {1, 2} ELSE {1}]
=============================================================================
