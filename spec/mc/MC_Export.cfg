SPECIFICATION Spec
INVARIANTS
  Laws
  Emit
CHECK_DEADLOCK FALSE
