------------------------------- MODULE MC_Names -------------------------------
(***************************************************************************)
(* C10, name lookups: every assignment of names (over the alphabet {1,2})  *)
(* to three OMIM diseases and of symbols to three genes (duplicates        *)
(* included), with every query string of length <= 3 and the exact result. *)
(***************************************************************************)
EXTENDS HpoNames, TLC, Json, SequencesExt

VARIABLE st

Alphabet == {1, 2}
Strings(n) == UNION {[1..k -> Alphabet] : k \in 0..n}
NameList == {<<>>, <<1>>, <<1, 2>>, <<2, 1>>, <<1, 2, 1>>, <<2, 2>>}

NInit == st = [stage |-> "root"]
NNext ==
  \/ st.stage = "root" /\ \E n1 \in NameList : st' = [stage |-> "node", n1 |-> n1]
  \/ st.stage = "node" /\ \E n2, n3 \in NameList :
        st' = [stage |-> "leaf", names |-> (10 :> st.n1 @@ 20 :> n2 @@ 30 :> n3)]
NSpec == NInit /\ [][NNext]_st

Leaf == st.stage = "leaf"

Queries == Strings(3)

Sane == Leaf =>
  /\ \A q \in Queries : DiseasesByName(st.names, q) \subseteq DOMAIN st.names
  /\ DiseasesByName(st.names, <<>>) = DOMAIN st.names            \* every name contains the empty string
  /\ \A x \in DOMAIN st.names : x \in DiseasesByName(st.names, st.names[x])

NEmit == Leaf =>
  PrintT(<<"REPLAY", ToJson([ kind |-> "names",
        names |-> [i \in 1..3 |-> [id |-> 10 * i, name |-> st.names[10 * i]]],
        queries |-> LET qs == SetToSeq(Queries) IN
                    [i \in 1..Len(qs) |-> [q |-> qs[i], contains |-> DiseasesByName(st.names, qs[i]),
                                           exact |-> GenesBySymbol(st.names, qs[i])]] ])>>)
=============================================================================
