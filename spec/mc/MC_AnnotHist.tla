---------------------------- MODULE MC_AnnotHist ----------------------------
(***************************************************************************)
(* Behaviour generator for C02 / C03 / C04: on every acyclic is_a relation *)
(* over Ids, every sequence of at most MaxFacts annotation calls           *)
(* (annotate_* and add_* for the three kinds, record ids shared across     *)
(* kinds), using the ATOMIC actions of HpoCore.  One REPLAY line per       *)
(* history: the calls plus the projection the specification requires.      *)
(* Under -simulate only complete histories (Len = MaxFacts) are printed.   *)
(***************************************************************************)
EXTENDS HpoSetOps, Json

CONSTANTS MaxFacts, EmitAll, WithPairs, WithExtras,
          Prefix      \* TRUE: every kind starts with one record (id 9) without terms, so that n/N < 1 for linked terms

VARIABLE facts      \* history: Seq of [k, x, t] (t = 0: a record without term)

histVars == <<coreVars, facts>>

AllDags == {p \in [Ids -> SUBSET Ids] : Acyclic(p)}

HInit ==
  /\ phase = "connected"
  /\ arena = Sorted(Ids)
  /\ parents \in AllDags
  /\ children = [t \in Ids |-> ChildrenOf(parents, t)]
  /\ allp = [t \in Ids |-> Anc(parents, t)]
  /\ ann = [k \in Kinds |-> EmptyRel]
  /\ rec = IF Prefix THEN [k \in Kinds |-> (9 :> [name |-> (CASE k = "gene" -> 1 [] k = "omim" -> 2 [] k = "orpha" -> 3), hpos |-> {}])]
            ELSE [k \in Kinds |-> <<>>]
  /\ ic = [k \in Kinds |-> [t \in Ids |-> <<0, 0>>]]
  /\ nfact = IF Prefix THEN 3 ELSE 0
  /\ bmode = "none"
  /\ facts = IF Prefix THEN <<[k |-> "gene", x |-> 9], [k |-> "omim", x |-> 9], [k |-> "orpha", x |-> 9]>> ELSE <<>>

HNext ==
  /\ Len(facts) < MaxFacts + (IF Prefix THEN 3 ELSE 0)
  /\ \E k \in Kinds : \E x \in RecIds[k] :
       \/ AddRecord(k, x) /\ facts' = Append(facts, [k |-> k, x |-> x])
       \/ \E t \in Ids : Annotate(k, x, t) /\ facts' = Append(facts, [k |-> k, x |-> x, t |-> t])

HSpec == HInit /\ [][HNext]_histVars

EdgeSeq == LET E == {<<p, c>> \in Ids \X Ids : p \in parents[c]}
           IN  SetToSeq(E)

Expect == [ arena |-> arena, edges |-> EdgeSeq, facts |-> facts, expect |-> Proj,
            pairs |-> IF WithPairs THEN SimPairs ELSE <<>>,
            paths |-> IF WithExtras THEN PathPairs ELSE <<>>,
            sets |-> IF WithExtras /\ Cardinality(Terms) <= 4 THEN SetInfos ELSE <<>> ]

Emit == (EmitAll \/ Len(facts) = MaxFacts + (IF Prefix THEN 3 ELSE 0)) => PrintT(<<"REPLAY", ToJson(Expect)>>)

RecsSmall == [k \in Kinds |-> IF k = "gene" THEN {1, 2} ELSE {1}]
(* different totals per kind, so a wrong total or a kind mix-up changes a value (C03) *)
RecsIC == [k \in Kinds |-> IF k = "gene" THEN {1, 2, 3} ELSE IF k = "omim" THEN {1, 2} ELSE {1}]
(* universes with records of ONE kind only (the other two kinds have none) *)
RecsOnlyGene  == [k \in Kinds |-> IF k = "gene"  THEN {1, 2, 3} ELSE {}]
RecsOnlyOmim  == [k \in Kinds |-> IF k = "omim"  THEN {1, 2, 3} ELSE {}]
RecsOnlyOrpha == [k \in Kinds |-> IF k = "orpha" THEN {1, 2, 3} ELSE {}]
RecsICP == [k \in Kinds |-> IF k = "gene" THEN {1, 2, 9} ELSE IF k = "omim" THEN {1, 9} ELSE {1, 9}]

=============================================================================
