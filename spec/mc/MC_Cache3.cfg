SPECIFICATION Spec
CONSTANTS
  N = 3
  MaxCalls = 3
INVARIANTS
  CacheSound
  CachedEqualsUncached
  Emit
CHECK_DEADLOCK FALSE
