------------------------------ MODULE MC_Linkage ------------------------------
(***************************************************************************)
(* Every initial distance matrix over N sets with values in Vals (scaled   *)
(* by 2^N), every tie-breaking branch of the merge machine; one REPLAY     *)
(* line per matrix with the set of ALL allowed dendrograms.                *)
(***************************************************************************)
EXTENDS HpoLinkage, TLC, Json

CONSTANTS Vals,      \* distance values of the free matrices (arithmetic modes); 0 stands for Inf
          Overlap    \* union mode: FALSE = singleton inputs with distinct weights, TRUE = every assignment of
                     \* subsets of three weighted items (overlapping, nested, equal, empty inputs)

VARIABLES d0, c0, w0

Scale == 2 ^ N
Singletons == [i \in 0..(N - 1) |-> {i}]
(* union mode: the sets carry weights, the user distance is |W(A) - W(B)|; other modes: a free matrix *)
Weights == [0..(N - 1) -> {1, 2, 4, 7, 12, 20}]
Items3 == {0, 1, 2}
W3 == [i \in Items3 |-> CASE i = 0 -> 1 [] i = 1 -> 2 [] OTHER -> 4]      \* every subset has its own weight
Init == /\ IF Mode = "union"
             THEN IF Overlap
                    THEN /\ w0 = W3
                         /\ c0 \in [0..(N - 1) -> SUBSET Items3]          \* the empty set is a set, too
                    ELSE /\ w0 \in {w \in Weights : \A i, j \in 0..(N - 1) : i < j => w[i] # w[j]}
                         /\ c0 = Singletons
             ELSE w0 = [i \in 0..(N - 1) |-> 0] /\ c0 = Singletons
        /\ IF Mode = "union"
             THEN d0 = [p \in Pairs(0..(N - 1)) |-> UserDist(w0, c0[p[1]], c0[p[2]])]
             ELSE d0 \in [Pairs(0..(N - 1)) -> {IF v = 0 THEN Inf ELSE v * Scale : v \in Vals}]
        /\ LInit(d0, c0, w0)
Next == Merge /\ UNCHANGED <<d0, c0, w0>>
Spec == Init /\ [][Next]_<<lvars, d0, c0, w0>>

PairSeq == SetToSortSeq(Pairs(0..(N - 1)), LAMBDA p, q : p[1] < q[1] \/ (p[1] = q[1] /\ p[2] < q[2]))

Emit == (merges = <<>>) =>
  PrintT(<<"REPLAY", ToJson([ n |-> N, mode |-> Mode, scale |-> Scale,
                              d0 |-> [i \in 1..Len(PairSeq) |-> d0[PairSeq[i]]],
                              inf |-> Inf,
                              sets |-> [i \in 1..N |-> SetToSortSeq(c0[i - 1], <)],
                              iw |-> [i \in 1..Cardinality(DOMAIN w0) |-> w0[i - 1]],
                              allowed |-> LET D == Dendrograms(active, dist, nxt, merges, cset, iw) DS == SetToSeq(D) IN
                                          [i \in 1..Len(DS) |-> [merges |-> DS[i], indices |-> Indices(DS[i], 1)]] ])>>)

(* the machine only ever produces allowed dendrograms *)
MachineInSet == Done => merges \in Dendrograms(0..(N - 1), d0, N, <<>>, c0, w0)
=============================================================================
