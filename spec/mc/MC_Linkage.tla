------------------------------ MODULE MC_Linkage ------------------------------
(***************************************************************************)
(* Every initial distance matrix over N sets with values in Vals (scaled   *)
(* by 2^N), every tie-breaking branch of the merge machine; one REPLAY     *)
(* line per matrix with the set of ALL allowed dendrograms.                *)
(***************************************************************************)
EXTENDS HpoLinkage, TLC, Json

CONSTANT Vals

VARIABLE d0

Scale == 2 ^ N
Init == /\ d0 \in [Pairs(0..(N - 1)) -> {v * Scale : v \in Vals}]
        /\ LInit(d0)
Next == Merge /\ UNCHANGED d0
Spec == Init /\ [][Next]_<<lvars, d0>>

PairSeq == SetToSortSeq(Pairs(0..(N - 1)), LAMBDA p, q : p[1] < q[1] \/ (p[1] = q[1] /\ p[2] < q[2]))

Emit == (merges = <<>>) =>
  PrintT(<<"REPLAY", ToJson([ n |-> N, mode |-> Mode, scale |-> Scale,
                              d0 |-> [i \in 1..Len(PairSeq) |-> d0[PairSeq[i]]],
                              allowed |-> Dendrograms(active, dist, nxt, merges) ])>>)

(* the machine only ever produces allowed dendrograms *)
MachineInSet == Done => merges \in Dendrograms(0..(N - 1), d0, N, <<>>)
=============================================================================
