------------------------------ MODULE MC_Linkage ------------------------------
(***************************************************************************)
(* Every initial distance matrix over N sets with values in Vals (scaled   *)
(* by 2^N), every tie-breaking branch of the merge machine; one REPLAY     *)
(* line per matrix with the set of ALL allowed dendrograms.                *)
(***************************************************************************)
EXTENDS HpoLinkage, TLC, Json

CONSTANT Vals

VARIABLES d0, w0

Scale == 2 ^ N
(* union mode: the sets carry weights, the user distance is |W(A) - W(B)|; other modes: a free matrix *)
Weights == [0..(N - 1) -> {1, 2, 4, 7, 12, 20}]
Init == /\ IF Mode = "union"
             THEN w0 \in {w \in Weights : \A i, j \in 0..(N - 1) : i < j => w[i] # w[j]}
                  /\ d0 = [p \in Pairs(0..(N - 1)) |-> Abs(w0[p[1]] - w0[p[2]])]
             ELSE w0 = [i \in 0..(N - 1) |-> 0] /\ d0 \in [Pairs(0..(N - 1)) -> {v * Scale : v \in Vals}]
        /\ LInit(d0, w0)
Next == Merge /\ UNCHANGED <<d0, w0>>
Spec == Init /\ [][Next]_<<lvars, d0, w0>>

PairSeq == SetToSortSeq(Pairs(0..(N - 1)), LAMBDA p, q : p[1] < q[1] \/ (p[1] = q[1] /\ p[2] < q[2]))

Emit == (merges = <<>>) =>
  PrintT(<<"REPLAY", ToJson([ n |-> N, mode |-> Mode, scale |-> Scale,
                              d0 |-> [i \in 1..Len(PairSeq) |-> d0[PairSeq[i]]],
                              w |-> [i \in 1..N |-> w0[i - 1]],
                              allowed |-> LET D == Dendrograms(active, dist, nxt, merges, wt) DS == SetToSeq(D) IN
                                          [i \in 1..Len(DS) |-> [merges |-> DS[i], indices |-> Indices(DS[i], 1)]] ])>>)

(* the machine only ever produces allowed dendrograms *)
MachineInSet == Done => merges \in Dendrograms(0..(N - 1), d0, N, <<>>, w0)
=============================================================================
