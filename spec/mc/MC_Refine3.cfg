SPECIFICATION AlgoSpec
CONSTANTS
  Ids = {1, 2, 3}
  RecIds <- MCRecIdsR
  RootId = 1
  PhenoId = 2
  MaxFacts = 2
CONSTRAINT Bound
INVARIANTS
  AbsTypeOK
  AbsClosureExact
  AbsLinkExact
  AbsResolvable
  MappingIsIdentityWhenQuiet
  CacheSound
PROPERTIES
  RefinesCore
CHECK_DEADLOCK FALSE
