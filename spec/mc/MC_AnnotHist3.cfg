SPECIFICATION HSpec
CONSTANTS
  Ids = {1, 2, 3}
  RecIds <- RecsSmall
  RootId = 1
  PhenoId = 2
  Prefix = FALSE
  WithExtras = FALSE
  WithPairs = FALSE
  MaxFacts = 3
  EmitAll = TRUE
INVARIANTS
  ClosureExact
  LinkExact
  Resolvable
  UpClosed
  Emit
CHECK_DEADLOCK FALSE
