SPECIFICATION Spec
CONSTANTS
  Ns = {1, 2, 3, 4, 5, 6, 7, 8, 9, 10, 11, 12, 13, 14, 15, 16, 17, 18, 19, 20}
  BigNs = {169, 170, 171, 172, 173, 200, 400, 1000}
  BigSamples = {3, 40, 160, 300}
  HugeNs = {1400, 2000}
  WithSpecials = TRUE
INVARIANTS
  SelfCheck
  Emit
CHECK_DEADLOCK FALSE
