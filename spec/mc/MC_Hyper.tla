------------------------------ MODULE MC_Hyper ------------------------------
(***************************************************************************)
(* C06 oracle: for every population size N in Ns and sample size n, ALL    *)
(* annotation profiles (K, k) that can occur together in one enrichment    *)
(* call: K = number of background terms linked to the annotation,          *)
(* k = number of sample terms linked (k = 0 included: such an annotation   *)
(* must NOT be reported).  One REPLAY line per (N, n) with the exact       *)
(* p-value (num/den big naturals) and fold enrichment (k N)/(n K) of every *)
(* profile; the harness realises the line as an ontology with N terms.     *)
(***************************************************************************)
EXTENDS Hypergeom, TLC, Json, FiniteSets, FiniteSetsExt, SequencesExt

CONSTANTS Ns,        \* population sizes explored exhaustively
          BigNs,     \* population sizes explored on selected profiles only
          BigSamples, \* sample sizes used with BigNs
          HugeNs,     \* population sizes (up to 9999) explored on the two extreme tails only, sample = N / 2
          WithSpecials \* BOOLEAN: the selected tuples of Specials

VARIABLE job         \* <<N, n, K>>; K = 0: not yet split (no work); N = 0: root

Min2(a, b) == IF a < b THEN a ELSE b
Max2(a, b) == IF a > b THEN a ELSE b

(* selected tuples: annotation AND sample well above 64 terms with k far above the mean but in the lower half of the   *)
(* support (a tiny p-value with a long upper tail); populations above 13,500 terms with a handful of annotated terms  *)
Specials == { [N |-> 600, n |-> 140, K |-> 140, ks |-> {60, 62}],
              [N |-> 14000, n |-> 10, K |-> 6, ks |-> {1, 2}],
              [N |-> 20000, n |-> 8, K |-> 5, ks |-> {1, 3}] }
SpecialNs == {s.N : s \in Specials}

Jobs == {<<N, n>> \in Ns \X (1..12) : n <= N} \cup {j \in BigNs \X BigSamples : j[2] <= j[1]} \cup {<<N, N \div 2>> : N \in HugeNs}
        \cup (IF WithSpecials THEN {<<s.N, s.n>> : s \in Specials} ELSE {})

(* profiles: all (K, k) for small N; a spread of K and the extreme / middle k for large N *)
Ks(N) == IF N \in SpecialNs THEN {s.K : s \in {q \in Specials : q.N = N}} ELSE IF N \in Ns THEN 1..N ELSE IF N \in HugeNs THEN {N \div 2, N \div 8} ELSE {1, N \div 8, N \div 2, N - 1}
ks(N, K, n) ==
  LET lo == Max2(0, n + K - N) hi == Min2(K, n) IN
  IF N \in SpecialNs THEN (CHOOSE q \in Specials : q.N = N).ks
  ELSE IF N \in Ns THEN lo..hi
  ELSE IF N \in HugeNs THEN {lo, lo + 1, hi}
  ELSE {lo, hi, Min2(hi, Max2(lo, (n * K) \div N + 1)), Min2(hi, Max2(lo, (n * K) \div N + 4))}

(* a three level tree (root, (N,n), (N,n,K)) so that the expensive leaves   *)
(* are spread over TLC's worker threads                                     *)
Init == job = <<0, 0, 0>>
Next ==
  \/ job = <<0, 0, 0>> /\ \E j \in Jobs : job' = <<j[1], j[2], 0>>
  \/ job[1] # 0 /\ job[3] = 0 /\ \E K \in Ks(job[1]) : job' = <<job[1], job[2], K>>
Spec == Init /\ [][Next]_job

Leaf == job[3] # 0

Entry(S, N, n, K, k) ==
  [ K |-> K, k |-> k,
    pnum |-> TailFrom(S, N, K, n, k), pden |-> TailDen(N, n),
    fold |-> <<k * N, n * K>> ]

(* huge populations: everything is computed ONCE per leaf (LET values are cached by TLC) *)
HugeLine ==
  LET N == job[1] n == job[2] K == job[3]
      lo == Max2(0, n + K - N) hi == Min2(K, n)
      den == TailDen(N, n)
      top == TailTop(N, K, n)
      abv == TailAboveLo(N, K, n)
      E(k, num) == [ K |-> K, k |-> k, pnum |-> num, pden |-> den, fold |-> <<k * N, n * K>> ]
  IN [ N |-> N, n |-> n, anns |-> <<E(lo, den), E(lo + 1, abv), E(hi, top)>>,
       sane |-> Cmp(top, abv) <= 0 /\ Cmp(abv, den) <= 0 /\ IsNat(abv) /\ IsNat(top) ]

Line ==
  LET N == job[1] n == job[2] K == job[3] IN
  IF N \in HugeNs
    THEN HugeLine
    ELSE LET S == Suffix(N, K, n) IN
         [ N |-> N, n |-> n, anns |-> SetToSeq({Entry(S, N, n, K, k) : k \in ks(N, K, n)}) ]

SelfCheck ==
  LET N == job[1] n == job[2] K == job[3]
      S == Suffix(N, K, n)
  IN
  (Leaf /\ N \notin HugeNs) =>
  /\ S[Len(S)] = TailDen(N, n)                                 \* Vandermonde
  /\ \A j \in 1..(Len(S) - 1) : Cmp(S[j], S[j + 1]) <= 0        \* antitone in k
  /\ \A j \in 1..Len(S) : IsNat(S[j])
  /\ (N \in Ns) => \A k \in ks(N, K, n) :                       \* one-pass tails = the definition
        /\ TailFrom(S, N, K, n, k) = TailNum(N, K, n, k)
        /\ TailAntitone(N, K, n, k) /\ TailBounded(N, K, n, k)

Emit == Leaf => LET ln == Line IN
                  /\ (job[1] \in HugeNs => ln.sane)
                  /\ PrintT(<<"REPLAY", ToJson(ln)>>)
=============================================================================
