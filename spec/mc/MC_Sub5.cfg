SPECIFICATION Spec
CONSTANTS
  U = {1, 2, 3, 4, 118}
  Topo = TRUE
  TopoOrder <- Topo5
INVARIANTS
  Sane
  NestedSane
  Emit
CHECK_DEADLOCK FALSE
