SPECIFICATION OMSpec
CONSTANTS
  WTerms <- MCTerms
  WParents <- MCPar
  InsertIds <- MCInsert
  MaxOps = 2
INVARIANTS
  TypeOK
  ModLaws
  Emit
CHECK_DEADLOCK FALSE
