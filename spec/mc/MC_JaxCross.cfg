SPECIFICATION Spec
CONSTANTS
  Families = {"T"}
  Lattice = FALSE
INVARIANTS
  Agree
  Emit
CHECK_DEADLOCK FALSE
