SPECIFICATION MSpec
CONSTANTS
  Ids = {1, 2, 3, 4}
  RecIds <- RecsTiny
  RootId = 1
  PhenoId = 118
  OldCode = FALSE
  MaxEdges = 5
  MaxFacts = 5
INVARIANTS
  TypeOK
  NoDangling
  InverseRel
  Resolvable
  ClosureExact
  LinkExact
  Emit
CHECK_DEADLOCK FALSE
