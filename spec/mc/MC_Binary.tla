------------------------------ MODULE MC_Binary ------------------------------
(***************************************************************************)
(* C07 / C08: small ontologies in the three layout versions.               *)
(*  - design level: the format round-trips (Decode o Encode = Restrict_v), *)
(*    every proper prefix, every extension and every unsupported version   *)
(*    byte is rejected BY THE FORMAT ITSELF (HpoBinary!Decode);            *)
(*  - generator: one REPLAY line per file: the abstract ontology, what a   *)
(*    version-v file can carry of it, its semantic projection and the      *)
(*    bytes of the file.                                                   *)
(* Three families vary a few dimensions each around a fixed base (names x  *)
(* names, structure x flags, records x release date), each in v1-v3 and in *)
(* two record orders.                                                      *)
(***************************************************************************)
EXTENDS OntGen, TLC, Json

CONSTANT Families        \* subset of {"A", "B", "C", "D"}

VARIABLE c               \* the chosen parameter record

Params == {[q EXCEPT !.fam = "D"] : q \in (IF "D" \in Families THEN FamD ELSE {})} \cup (IF "A" \in Families THEN FamA ELSE {}) \cup (IF "B" \in Families THEN FamB ELSE {})
          \cup (IF "C" \in Families THEN FamC ELSE {})

(* root -> leaves job tree, so that TLC's workers share the files *)
Init == c = [Default EXCEPT !.fam = "root"]
Next ==
  \/ c.fam = "root" /\ \E f \in Families : \E v \in 1..3 : \E pm \in BOOLEAN :
        c' = [Default EXCEPT !.fam = "node" \o f, !.v = v, !.perm = pm]
  \/ \E f \in Families : /\ c.fam = "node" \o f
                          /\ c' \in {q \in Params : q.fam = f /\ q.v = c.v /\ q.perm = c.perm}
Spec == Init /\ [][Next]_c

File(p) == Encode(Permuted(Ont(p), p.perm), p.v)

Leaf == c.fam \in {"A", "B", "C", "D"}

PrefixOffsets(f) ==
  IF Len(f) <= 160 THEN 0..(Len(f) - 1)
  ELSE (0..30) \cup ((Len(f) - 30)..(Len(f) - 1)) \cup {i \in 0..(Len(f) - 1) : i % 23 = 0}

Theorems ==
  Leaf =>
    LET o == Ont(c) f == File(c) IN
    /\ RoundTrip(Permuted(o, c.perm), c.v)
    /\ \A i \in PrefixOffsets(f) : ~Decode(SubSeq(f, 1, i)).ok
    /\ \A sfx \in {<<0>>, <<255>>, <<0, 0, 0, 0>>, <<0, 0, 0, 0, 0, 0, 0, 0>>} : ExtensionRejected(f, sfx)
    /\ \A x \in {0, 1, 4, 255} : VersionByteRejected(f, x)
    /\ (c.v = 1) => \A x \in {0, 1, 4, 255} :                      \* "HPO" x in front of a header-less v1 body
                      /\ ~Decode(<<72, 80, 79, x>> \o f).ok
                      /\ ~Decode(<<72, 80, 79, x, 7, 232, 1, 1>> \o f).ok

Emit ==
  Leaf =>
    LET o == Ont(c) ro == RestrictV(o, c.v) IN
    PrintT(<<"REPLAY", ToJson([ p |-> c, o |-> Permuted(o, c.perm), ro |-> ro, v |-> c.v,
                                expect |-> ProjOf(ro), bytes |-> File(c) ])>>)
=============================================================================
