SPECIFICATION MCFair
CONSTANTS
  Ids = {1, 2, 3}
  RecIds <- MCRecIds2
  RootId = 1
  PhenoId = 2
VIEW View
PROPERTIES
  LinkTerminates
CHECK_DEADLOCK FALSE
