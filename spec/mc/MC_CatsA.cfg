SPECIFICATION Spec
CONSTANTS
  Ids = {1, 50, 118, 300}
INVARIANTS
  Sane
  Emit
CHECK_DEADLOCK FALSE
