SPECIFICATION Spec
CONSTANTS
  Shapes = {}
  RandomBig = 6
  Vals = {0}
INVARIANTS
  Lemmas
  Emit
CHECK_DEADLOCK FALSE
