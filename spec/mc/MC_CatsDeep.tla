------------------------------ MODULE MC_CatsDeep ------------------------------
(***************************************************************************)
(* C19 beyond the inline capacity (30) of the crate's id groups: terms     *)
(* with more than 30 ancestors.  A phenotype category CatId below HP:118   *)
(* with a chain of 35 terms under it, a modifier root ModId below HP:1     *)
(* with a chain of 35 terms, and one term below both chains.  The category *)
(* ids are chosen ABOVE (layout "high") or BELOW (layout "low") the ids of *)
(* the chain terms: in the first case the category root is the next larger *)
(* id after the deepest term in its own ancestor list.                     *)
(***************************************************************************)
EXTENDS HpoCats, TLC, Json

VARIABLE layout

CatId == IF layout = "high" THEN 800 ELSE 10
ModId == IF layout = "high" THEN 900 ELSE 11
ChainA == 200..234
ChainB == 300..334
Both == 250
U == {Root, Pheno, CatId, ModId, Both} \cup ChainA \cup ChainB
Par == [t \in U |-> CASE t = Root -> {} [] t = Pheno -> {Root} [] t = CatId -> {Pheno} [] t = ModId -> {Root}
                      [] t = 200 -> {CatId} [] t = 300 -> {ModId} [] t = Both -> {234, 334}
                      [] OTHER -> {t - 1}]

Init == layout \in {"high", "low"}
Next == UNCHANGED layout
Spec == Init /\ [][Next]_layout
Sane == CatSane(Par)
EdgeSeq == SetToSeq({<<p, c>> \in U \X U : p \in Par[c]})
Emit == PrintT(<<"REPLAY", ToJson([ ids |-> Sorted(U), edges |-> EdgeSeq, cats |-> CatProj(Par) ])>>)
=============================================================================
