------------------------------ MODULE MC_CoreIC ------------------------------
(***************************************************************************)
(* The abstract builder machine of HpoCore end to end (all phases, atomic  *)
(* actions) on a small universe: TypeOK and every C01-C03 invariant in     *)
(* every reachable state, including the phases after                       *)
(* calculate_information_content (ICArgsExact, ICMonotone).                *)
(***************************************************************************)
EXTENDS HpoCore

Recs == [k \in Kinds |-> IF k = "gene" THEN {1, 2} ELSE IF k = "omim" THEN {1} ELSE {}]

(* bound the number of annotation calls; names (call counters) are hidden *)
Bound == nfact <= 3
NoNames(r) == [k \in Kinds |-> [x \in DOMAIN r[k] |-> r[k][x].hpos]]
View == <<phase, arena, parents, children, allp, ann, NoNames(rec), ic, bmode>>
=============================================================================
