SPECIFICATION Spec
CONSTANTS
  N = 4
  Mode = "complete"
  Vals = {1, 2, 3}
INVARIANTS
  SizesAddUp
  EachClusterOnce
  Monotone
  MachineInSet
  Emit
CHECK_DEADLOCK FALSE
