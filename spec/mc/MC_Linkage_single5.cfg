SPECIFICATION Spec
CONSTANTS
  N = 5
  Mode = "single"
  Overlap = FALSE
  Vals = {1, 2}
INVARIANTS
  SizesAddUp
  TreeShape
  EachClusterOnce
  Monotone
  MachineInSet
  Emit
CHECK_DEADLOCK FALSE
