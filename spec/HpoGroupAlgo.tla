----------------------------- MODULE HpoGroupAlgo -----------------------------
(***************************************************************************)
(* C12, step level: the algorithms of src/term/group.rs as machines.        *)
(*                                                                         *)
(*  union   `&a | &b`: two cursors over the sorted inputs, one arm per      *)
(*          match arm of the loop (Less / Greater / Equal / left drained /  *)
(*          right drained), every arm appends with insert_unchecked        *)
(*  inter   `&a & &b`: the SHORTER input is iterated (ties: the left one),  *)
(*          membership in the longer one by binary search, unchecked append *)
(*  insert  binary search for the slot, insert there unless present; the    *)
(*          reply is "was new"                                              *)
(*                                                                         *)
(* The set-level specification (HpoGroupSpec: a group IS a set in ascending *)
(* order) is what the replay compares the crate with; this module shows    *)
(* that the algorithms as written refine it PROVIDED the inputs are sorted  *)
(* and duplicate free - the assumption the property text points at ("the    *)
(* merge loop and the unchecked append rely on both inputs being sorted"):  *)
(* UnionInv / InterInv are inductive over the loops, Final* relate the      *)
(* result to the set operation, and NeedsSorted shows (as a refuted         *)
(* invariant in the self-test) that the claim fails for unsorted input.     *)
(***************************************************************************)
EXTENDS Integers, Sequences, FiniteSets, SequencesExt

CONSTANTS N,          \* ids are 1..N
          AnyInput    \* FALSE: inputs are strictly ascending (the crate's invariant); TRUE: any sequence up to length 3 (self-test)

VARIABLES op,         \* "union" | "inter" | "insert"  (fixed by Init)
          pc,         \* "run" | "done"
          a, b,       \* inputs (insert: a is the group, b = <<x>>)
          i, j,       \* cursors: next unread position of a / b (inter: i runs over the shorter input)
          out,        \* the result being built
          reply       \* insert: was the id new

vars == <<op, pc, a, b, i, j, out, reply>>

Asc(S) == SetToSortSeq(S, <)
StrictlyAscending(s) == \A k \in 1..(Len(s) - 1) : s[k] < s[k + 1]
Set(s) == {s[k] : k \in 1..Len(s)}
SortedSeqs == {Asc(S) : S \in SUBSET (1..N)}
Inputs == IF AnyInput THEN UNION {[1..n -> 1..N] : n \in 0..3} ELSE SortedSeqs

(* slice::binary_search: Ok(position) / Err(insertion point); on a sorted slice Ok <=> member *)
RECURSIVE BSearch(_, _, _, _)
BSearch(s, x, lo, hi) ==          \* searches s[lo..hi-1], 1-based, hi exclusive
  IF lo >= hi THEN [found |-> FALSE, at |-> lo]
  ELSE LET mid == lo + (hi - lo) \div 2 IN
       IF s[mid] = x THEN [found |-> TRUE, at |-> mid]
       ELSE IF s[mid] < x THEN BSearch(s, x, mid + 1, hi) ELSE BSearch(s, x, lo, mid)
Search(s, x) == BSearch(s, x, 1, Len(s) + 1)

Init ==
  /\ op \in {"union", "inter", "insert"}
  /\ a \in Inputs
  /\ b \in IF op = "insert" THEN {<<x>> : x \in 1..N} ELSE Inputs
  /\ pc = "run" /\ i = 1 /\ j = 1 /\ out = <<>> /\ reply = FALSE

(* ---- union: one action per match arm ---- *)
HasL == i <= Len(a)
HasR == j <= Len(b)
ULess    == pc = "run" /\ op = "union" /\ HasL /\ HasR /\ a[i] < b[j] /\ out' = Append(out, a[i]) /\ i' = i + 1 /\ UNCHANGED <<op, pc, a, b, j, reply>>
UGreater == pc = "run" /\ op = "union" /\ HasL /\ HasR /\ a[i] > b[j] /\ out' = Append(out, b[j]) /\ j' = j + 1 /\ UNCHANGED <<op, pc, a, b, i, reply>>
UEqual   == pc = "run" /\ op = "union" /\ HasL /\ HasR /\ a[i] = b[j] /\ out' = Append(out, a[i]) /\ i' = i + 1 /\ j' = j + 1 /\ UNCHANGED <<op, pc, a, b, reply>>
ULeft    == pc = "run" /\ op = "union" /\ HasL /\ ~HasR /\ out' = Append(out, a[i]) /\ i' = i + 1 /\ UNCHANGED <<op, pc, a, b, j, reply>>
URight   == pc = "run" /\ op = "union" /\ ~HasL /\ HasR /\ out' = Append(out, b[j]) /\ j' = j + 1 /\ UNCHANGED <<op, pc, a, b, i, reply>>
UDone    == pc = "run" /\ op = "union" /\ ~HasL /\ ~HasR /\ pc' = "done" /\ UNCHANGED <<op, a, b, i, j, out, reply>>

(* ---- intersection: iterate the shorter input, look the id up in the longer one ---- *)
Small == IF Len(a) > Len(b) THEN b ELSE a
Large == IF Len(a) > Len(b) THEN a ELSE b
IStep == pc = "run" /\ op = "inter" /\ i <= Len(Small)
         /\ out' = (IF Search(Large, Small[i]).found THEN Append(out, Small[i]) ELSE out)
         /\ i' = i + 1 /\ UNCHANGED <<op, pc, a, b, j, reply>>
IDone == pc = "run" /\ op = "inter" /\ i > Len(Small) /\ pc' = "done" /\ UNCHANGED <<op, a, b, i, j, out, reply>>

(* ---- insert: Vec::insert(k, x) shifts the tail by one (the same definition as in proofs/MergeInduction.tla) ---- *)
VecInsert(s, k, x) == [m \in 1..(Len(s) + 1) |-> IF m < k THEN s[m] ELSE IF m = k THEN x ELSE s[m - 1]]
Ins == pc = "run" /\ op = "insert"
       /\ LET r == Search(a, b[1]) IN
            /\ reply' = ~r.found
            /\ out' = (IF r.found THEN a ELSE VecInsert(a, r.at, b[1]))
       /\ pc' = "done" /\ UNCHANGED <<op, a, b, i, j>>

Next == ULess \/ UGreater \/ UEqual \/ ULeft \/ URight \/ UDone \/ IStep \/ IDone \/ Ins
Spec == Init /\ [][Next]_vars /\ WF_vars(Next)

(* ---- invariants ---- *)
Rest(s, k) == {s[m] : m \in k..Len(s)}
Read(s, k) == {s[m] : m \in 1..(k - 1)}

(* binary search on a sorted slice is membership, and Err carries the insertion point *)
SearchSound ==
  \A s \in SortedSeqs : \A x \in 1..N :
     LET r == Search(s, x) IN
       /\ r.found <=> x \in Set(s)
       /\ r.found => s[r.at] = x
       /\ ~r.found => /\ \A m \in 1..(r.at - 1) : s[m] < x
                      /\ \A m \in r.at..Len(s) : s[m] > x

(* the loop invariant of the merge: everything read so far is out, in order, and below everything unread *)
UnionInv ==
  (op = "union" /\ ~AnyInput) =>
    /\ StrictlyAscending(out)
    /\ Set(out) = Read(a, i) \cup Read(b, j)
    /\ \A x \in Set(out) : \A y \in Rest(a, i) \cup Rest(b, j) : x < y

InterInv ==
  (op = "inter" /\ ~AnyInput) =>
    /\ StrictlyAscending(out)
    /\ Set(out) = Read(Small, i) \cap Set(Large)

(* the result is the set operation, presented in ascending order; insert reports "was new" *)
Result ==
  (pc = "done") =>
    CASE op = "union"  -> out = Asc(Set(a) \cup Set(b))
      [] op = "inter"  -> out = Asc(Set(a) \cap Set(b))
      [] op = "insert" -> out = Asc(Set(a) \cup {b[1]}) /\ (reply <=> b[1] \notin Set(a))

(* every run ends (the cursors only move forward) *)
Terminates == <>(pc = "done")
=============================================================================
