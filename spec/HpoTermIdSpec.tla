---------------------------- MODULE HpoTermIdSpec ----------------------------
(***************************************************************************)
(* C20: text and byte conversions of term ids.                             *)
(*   Format(id)  = "HP:" followed by the number, zero padded to 7 digits   *)
(*   Parse(text) = the number, if the text has at least four bytes, byte   *)
(*                 offset 3 is a character boundary and everything after   *)
(*                 it is a non-empty string of decimal digits that fits    *)
(*                 32 bits; an error otherwise.  It never panics.          *)
(*   Bytes(id)   = the four big-endian bytes; FromBytes is its inverse.    *)
(* A text is a sequence of characters, a character its UTF-8 byte sequence *)
(* (as in HpoBinary).  The three-byte prefix itself is not inspected (the   *)
(* crate accepts any three bytes there; the property only speaks about the *)
(* text after it).  TLC integers are 32 bit signed: numbers above 2^31-1   *)
(* are handled by the harness with the same rule (borders 4294967295 /      *)
(* 4294967296), a leading '+' is outside the generator.                    *)
(***************************************************************************)
EXTENDS Integers, Sequences, FiniteSets, SequencesExt

Digit(c) == c \in {<<48>>, <<49>>, <<50>>, <<51>>, <<52>>, <<53>>, <<54>>, <<55>>, <<56>>, <<57>>}
DigitVal(c) == c[1] - 48

Err == -1

RECURSIVE BytesOf(_)
BytesOf(t) == IF t = <<>> THEN <<>> ELSE t[1] \o BytesOf(SubSeq(t, 2, Len(t)))

(* index of the first character that starts at byte offset 3 (0-based), or 0 if offset 3 is inside a character *)
RECURSIVE CharAtOffset(_, _, _)
CharAtOffset(t, i, off) ==
  IF off = 3 THEN i
  ELSE IF off > 3 \/ i > Len(t) THEN 0
  ELSE CharAtOffset(t, i + 1, off + Len(t[i]))

RECURSIVE Value(_, _, _)
Value(t, i, acc) ==
  IF i > Len(t) THEN acc
  ELSE IF ~Digit(t[i]) THEN Err
  ELSE IF acc > 214748364 THEN Err          \* would leave TLC's integer range: never reached by the generator
  ELSE Value(t, i + 1, acc * 10 + DigitVal(t[i]))

Parse(t) ==
  IF Len(BytesOf(t)) < 4 THEN Err
  ELSE LET i == CharAtOffset(t, 1, 0) IN
       IF i = 0 \/ i > Len(t) THEN Err
       ELSE Value(t, i, 0)

RECURSIVE DigitsOf(_)
DigitsOf(n) == IF n < 10 THEN <<<<48 + n>>>> ELSE DigitsOf(n \div 10) \o <<<<48 + (n % 10)>>>>
Pad7(d) == IF Len(d) >= 7 THEN d ELSE [i \in 1..(7 - Len(d)) |-> <<48>>] \o d
Format(id) == <<<<72>>, <<80>>, <<58>>>> \o Pad7(DigitsOf(id))

Bytes(id) == <<id \div 16777216, (id \div 65536) % 256, (id \div 256) % 256, id % 256>>
FromBytes(b) == b[1] * 16777216 + b[2] * 65536 + b[3] * 256 + b[4]

(* inverse laws *)
RoundTrip(id) == Parse(Format(id)) = id /\ FromBytes(Bytes(id)) = id /\ Len(Format(id)) >= 10

=============================================================================
