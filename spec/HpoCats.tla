------------------------------- MODULE HpoCats -------------------------------
(***************************************************************************)
(* C19: the documented default categories and modifiers.                   *)
(*   modifier roots = children of HP:0000001 other than HP:0000118         *)
(*   categories     = modifier roots + children of HP:0000118              *)
(*   a term is a modifier iff it is, or descends from, a modifier root     *)
(*   its categories = the category terms it equals or descends from,       *)
(*                    in ascending id order                                *)
(*   building with defaults fails when HP:1 or HP:118 is missing           *)
(* (pure operators over a direct-parent relation, see HpoGraph)            *)
(***************************************************************************)
EXTENDS HpoGraph

Root == 1
Pheno == 118

HasRoots(par) == Root \in DOMAIN par /\ Pheno \in DOMAIN par
ModifierRoots(par) == ChildrenOf(par, Root) \ {Pheno}
CategoryTerms(par) == ModifierRoots(par) \cup ChildrenOf(par, Pheno)
IsModifierTerm(par, t) == AncSelf(par, t) \cap ModifierRoots(par) # {}
CategoriesOf(par, t) == Sorted(AncSelf(par, t) \cap CategoryTerms(par))

CatProj(par) ==
  IF ~HasRoots(par) THEN [ok |-> FALSE]
  ELSE [ ok |-> TRUE,
         modifier |-> Sorted(ModifierRoots(par)),
         categories |-> Sorted(CategoryTerms(par)),
         terms |-> LET ids == Sorted(DOMAIN par) IN
                   [i \in 1..Len(ids) |-> [id |-> ids[i], is_modifier |-> IsModifierTerm(par, ids[i]),
                                           categories |-> CategoriesOf(par, ids[i])]] ]

(* sanity: the phenotype root is never a modifier root; modifier roots are categories;   *)
(* every descendant of a modifier term is a modifier term                                *)
CatSane(par) ==
  HasRoots(par) =>
    /\ Pheno \notin ModifierRoots(par)
    /\ ModifierRoots(par) \subseteq CategoryTerms(par)
    /\ \A t \in DOMAIN par : IsModifierTerm(par, t) => \A d \in Desc(par, t) : IsModifierTerm(par, d)
    /\ \A t \in DOMAIN par : (t \in CategoryTerms(par)) => t \in Range(CategoriesOf(par, t))

=============================================================================
