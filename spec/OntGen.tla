------------------------------- MODULE OntGen -------------------------------
(***************************************************************************)
(* Generator of small abstract ontology values (schema of HpoBinary) used  *)
(* by the binary-format and JAX-text configurations: families that vary a  *)
(* few dimensions each around a fixed base - name shapes (ASCII, empty,    *)
(* containing ": ", multi-byte, around the 255 byte limit), structure x    *)
(* obsolete / replacement flags, records (also without terms) x release    *)
(* dates - plus the semantic projection ProjOf of such a value.             *)
(***************************************************************************)
EXTENDS HpoBinary, HpoGraph

Rep(ch, n) == [i \in 1..n |-> ch]

A1 == <<65>>   \* "A"
NameShapes ==
  [ short    |-> <<<<65>>, <<98>>>>,                                        \* "Ab"
    empty    |-> <<>>,
    colon    |-> <<<<65>>, <<58>>, <<32>>, <<66>>>>,                        \* "A: B"
    nonascii |-> <<<<195, 169>>, <<240, 159, 152, 128>>, <<122>>>>,          \* "e-acute, emoji, z"
    notword  |-> <<<<78>>, <<79>>, <<84>>>>,                                   \* "NOT": a NAME, not the qualifier of an annotation row
    trail    |-> <<<<65>>, <<32>>>>,                                            \* "A " (ends in a blank)
    obsname  |-> <<<<111>>, <<98>>, <<115>>, <<111>>, <<108>>, <<101>>, <<116>>, <<101>>, <<32>>, <<65>>>>,   \* "obsolete A": a NAME, not a flag
    b255     |-> Rep(<<97>>, 255),
    b256     |-> Rep(<<97>>, 256),
    b254p2   |-> Rep(<<97>>, 254) \o <<<<195, 169>>>>,                      \* 256 bytes, cut inside a 2-byte char
    b253p4   |-> Rep(<<97>>, 253) \o <<<<240, 159, 152, 128>>>>,            \* 257 bytes, cut inside a 4-byte char
    b253p2   |-> Rep(<<97>>, 253) \o <<<<195, 169>>>>,                      \* exactly 255 bytes, ends in a complete 2-byte char
    b251p4   |-> Rep(<<97>>, 251) \o <<<<240, 159, 152, 128>>>>,            \* exactly 255 bytes, ends in a complete 4-byte char
    b300     |-> Rep(<<98>>, 300) ]
Shapes == DOMAIN NameShapes

TName(id) == <<<<84>>>> \o (IF id = 1 THEN <<<<49>>>> ELSE IF id = 118 THEN <<<<56>>>> ELSE <<<<120>>>>)   \* "T1", "T8", "Tx"

Default ==
  [ fam |-> "0", extra |-> {2}, tshape |-> "short", gshape |-> "short", dshape |-> "short",
    flags |-> <<FALSE, 0>>, pat |-> 2, gsel |-> 1, osel |-> 1, rsel |-> 1,
    version |-> <<2024, 12, 31>>, v |-> 3, perm |-> FALSE ]

FamA == {[Default EXCEPT !.fam = "A", !.tshape = ts, !.gshape = gs, !.dshape = gs, !.v = v, !.perm = pm] :
           ts \in Shapes, gs \in Shapes, v \in 1..3, pm \in BOOLEAN}
FamB == {[Default EXCEPT !.fam = "B", !.extra = ex, !.pat = pt, !.flags = fl, !.v = v, !.perm = pm] :
           ex \in (SUBSET {2, 9999999}) \cup {{65536}, {2, 131072}, {4194304, 8388608}},      \* incl. ids that are exact powers of two
           pt \in 1..3, fl \in {<<FALSE, 0>>, <<TRUE, 0>>, <<TRUE, 118>>, <<FALSE, 1>>},
           v \in 1..3, pm \in BOOLEAN}
FamC == {[Default EXCEPT !.fam = "C", !.gsel = g, !.osel = o, !.rsel = r, !.version = ver, !.v = v, !.perm = pm] :
           g \in 0..3, o \in 0..2, r \in 0..1, ver \in {<<0, 0, 0>>, <<2024, 12, 31>>, <<65535, 255, 255>>},
           v \in 1..3, pm \in BOOLEAN}

FamD == {q \in FamA : q.tshape = q.gshape}    \* the diagonal of family A (quick tier)

TermIds(p) == {1, 118} \cup p.extra
Flagged(p) == IF p.extra = {} THEN 118 ELSE CHOOSE x \in p.extra : \A y \in p.extra : x <= y

ParentsOf(p, t) ==
  CASE p.pat = 1 -> {}
    [] p.pat = 2 -> IF t = 1 THEN {} ELSE IF t = 118 THEN {1} ELSE {118}
    [] p.pat = 3 -> IF t = 1 THEN {} ELSE IF t = 118 THEN {1} ELSE {1, 118}
    [] p.pat = 4 -> IF t = 1 THEN {} ELSE {1}          \* as many parents as pattern 2, but another one ("moved" terms)

Ont(p) ==
  LET ids  == Sorted(TermIds(p))
      mx   == ids[Len(ids)]
      gene == CASE p.gsel = 0 -> <<>>
                [] p.gsel = 1 -> <<[id |-> 7, name |-> NameShapes[p.gshape], terms |-> Sorted({118, mx})]>>
                [] p.gsel = 2 -> <<[id |-> 7, name |-> NameShapes[p.gshape], terms |-> <<mx>>]>>
                                 \o <<[id |-> 2000000000, name |-> NameShapes["nonascii"], terms |-> <<>>]>>
                [] p.gsel = 3 -> <<[id |-> 7, name |-> NameShapes[p.gshape], terms |-> <<mx>>],          \* two genes with the SAME symbol
                                   [id |-> 8, name |-> NameShapes[p.gshape], terms |-> <<118>>]>>
      omim == CASE p.osel = 0 -> <<>>
                [] p.osel = 1 -> <<[id |-> 7, name |-> NameShapes[p.dshape], terms |-> <<mx>>]>>
                [] p.osel = 2 -> <<[id |-> 7, name |-> NameShapes[p.dshape], terms |-> <<1>>]>>
                                 \o <<[id |-> 600000, name |-> NameShapes["b300"], terms |-> <<>>]>>
      orpha == IF p.rsel = 0 THEN <<>> ELSE <<[id |-> 7, name |-> NameShapes[IF p.dshape = "short" THEN "colon" ELSE p.dshape], terms |-> <<118>>]>>
  IN [ version |-> p.version,
       terms   |-> [i \in 1..Len(ids) |->
                      [ id |-> ids[i],
                        name |-> IF ids[i] = 118 THEN NameShapes[p.tshape] ELSE TName(ids[i]),
                        obsolete |-> IF ids[i] = Flagged(p) THEN p.flags[1] ELSE FALSE,
                        repl |-> IF ids[i] = Flagged(p) THEN p.flags[2] ELSE 0 ]],
       parents |-> [i \in 1..Len(ids) |-> [id |-> ids[i], parents |-> Sorted(ParentsOf(p, ids[i]))]],
       gene |-> gene, omim |-> omim, orpha |-> orpha ]

(* the other record order: sections reversed AND the id lists inside the   *)
(* records reversed (the layout prescribes no order for either)           *)
RevInner(rs, fld) == [i \in 1..Len(rs) |-> [rs[i] EXCEPT ![fld] = Reverse(@)]]
Permuted(o, pm) ==
  IF ~pm THEN o
  ELSE [o EXCEPT !.terms = Reverse(@), !.parents = Reverse(RevInner(@, "parents")),
                 !.gene = Reverse(RevInner(@, "terms")), !.omim = Reverse(RevInner(@, "terms")),
                 !.orpha = Reverse(RevInner(@, "terms"))]

(* semantic projection of what the version-v file carries *)
RecFun(rs) == [x \in {rs[i].id : i \in 1..Len(rs)} |->
                 LET r == CHOOSE q \in Range(rs) : q.id = x IN [name |-> 0, hpos |-> Range(r.terms)]]
ProjOf(ro) ==
  LET ids == {ro.terms[i].id : i \in 1..Len(ro.terms)}
      par == [t \in ids |-> LET q == CHOOSE r \in Range(ro.parents) : r.id = t IN Range(q.parents)]
  IN ProjPure(Sorted(ids), par, RecFun(ro.gene), RecFun(ro.omim), RecFun(ro.orpha))

=============================================================================
