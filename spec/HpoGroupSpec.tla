----------------------------- MODULE HpoGroupSpec -----------------------------
(***************************************************************************)
(* C12: a group of term ids is a mathematical SET presented in ascending   *)
(* order.  The group machine: a sequence of insertions builds a set; every *)
(* insertion reports whether the id was new; membership, length and the    *)
(* (strictly ascending, duplicate free) iteration are those of the set.    *)
(* Union, intersection and adding one id are the set-theoretic operations. *)
(***************************************************************************)
EXTENDS Integers, Sequences, FiniteSets, SequencesExt

CONSTANTS Universe,     \* the ids used by the model (naturals)
          MaxOps

VARIABLES set,          \* the abstract content
          log           \* history: Seq of [id, new]

Init == set = {} /\ log = <<>>

Insert(id) ==
  /\ Len(log) < MaxOps
  /\ set' = set \cup {id}
  /\ log' = Append(log, [id |-> id, new |-> id \notin set])

Next == \E id \in Universe : Insert(id)
Spec == Init /\ [][Next]_<<set, log>>

Asc(S) == SetToSortSeq(S, <)

(* what the read API must show for the current content *)
View(S) == [ iter |-> Asc(S), len |-> Cardinality(S) ]

(* the history determines the content; "new" is reported exactly for first occurrences *)
LogSound ==
  /\ set = {log[i].id : i \in 1..Len(log)}
  /\ \A i \in 1..Len(log) : log[i].new <=> (\A j \in 1..(i - 1) : log[j].id # log[i].id)

StrictlyAscending(s) == \A i \in 1..(Len(s) - 1) : s[i] < s[i + 1]
IterSound == StrictlyAscending(Asc(set)) /\ Len(Asc(set)) = Cardinality(set)

(* binary operations *)
Union(A, B) == A \cup B
Inter(A, B) == A \cap B
AddOne(A, x) == A \cup {x}

(* algebraic laws the results obey (TLC checks them on every pair of subsets) *)
Laws(A, B) ==
  /\ Union(A, B) = Union(B, A) /\ Inter(A, B) = Inter(B, A)
  /\ Inter(A, B) \subseteq A /\ A \subseteq Union(A, B)
  /\ Cardinality(Union(A, B)) + Cardinality(Inter(A, B)) = Cardinality(A) + Cardinality(B)
  /\ Union(A, A) = A /\ Inter(A, A) = A

=============================================================================
