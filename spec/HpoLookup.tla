------------------------------ MODULE HpoLookup ------------------------------
(***************************************************************************)
(* The term arena: the crate's own replacement for a hash map.             *)
(*     terms : Vec<term>, index 0 is a placeholder                          *)
(*     ids   : [0 .. TableSize-1] -> index into terms, 0 = absent           *)
(* TableSize is 10^7 in the crate; the machine is checked for small        *)
(* TableSize and bound to the real table by sweeping the whole key space.  *)
(* Ids >= TableSize are "out of range": inserting one panics before any    *)
(* mutation (named action InsertPanics), looking one up returns None.      *)
(* The record lookups (by exact gene symbol, by disease name substring) are *)
(* in module HpoNames.                                                     *)
(***************************************************************************)
EXTENDS Integers, Sequences, FiniteSets, SequencesExt

CONSTANTS TableSize,   \* ids 0..TableSize-1 are addressable
          Probe        \* the ids used for inserts and lookups (some >= TableSize)

VARIABLES terms,       \* Seq of ids; terms[1] is the placeholder (0-based index 0)
          slots,       \* [0..TableSize-1 -> Nat], 0 = absent, else 0-based index into terms
          inserted,    \* history: set of ids whose insert took effect
          log          \* history: Seq of [op, id, result]

vars == <<terms, slots, inserted, log>>

Placeholder == -1
NoTerm == -2            \* "None"

Init ==
  /\ terms = <<Placeholder>>
  /\ slots = [i \in 0..(TableSize - 1) |-> 0]
  /\ inserted = {}
  /\ log = <<>>

InRange(id) == id \in 0..(TableSize - 1)

(* Arena::insert *)
Insert(id) ==
  /\ InRange(id)
  /\ IF slots[id] = 0
       THEN /\ terms' = Append(terms, id)
            /\ slots' = [slots EXCEPT ![id] = Len(terms)]       \* 0-based index of the new entry
            /\ inserted' = inserted \cup {id}
            /\ log' = Append(log, [op |-> "insert", id |-> id, result |-> "new"])
       ELSE /\ UNCHANGED <<terms, slots, inserted>>             \* duplicate id: first term is kept
            /\ log' = Append(log, [op |-> "insert", id |-> id, result |-> "ignored"])

InsertPanics(id) ==
  /\ ~InRange(id)
  /\ UNCHANGED <<terms, slots, inserted>>
  /\ log' = Append(log, [op |-> "insert", id |-> id, result |-> "panic"])

(* Arena::get *)
Get(id) ==
  IF ~InRange(id) THEN NoTerm
  ELSE IF slots[id] = 0 THEN NoTerm
  ELSE terms[slots[id] + 1]

Len0 == Len(terms) - 1                                           \* Arena::len
Values == SubSeq(terms, 2, Len(terms))                           \* Arena::values / iter

Next == \E id \in Probe : Insert(id) \/ InsertPanics(id)
Spec == Init /\ [][Next]_vars

(* --- invariants (C10) --- *)
SlotBijective ==
  /\ \A id \in 0..(TableSize - 1) : slots[id] # 0 => (slots[id] < Len(terms) /\ terms[slots[id] + 1] = id)
  /\ \A p \in 2..Len(terms) : InRange(terms[p]) /\ slots[terms[p]] = p - 1
Slot0Reserved == terms[1] = Placeholder /\ \A id \in 0..(TableSize - 1) : slots[id] # 0 \/ id \notin inserted
GetExact == \A id \in Probe : (Get(id) # NoTerm) <=> (id \in inserted)
GetReturnsSelf == \A id \in inserted : Get(id) = id
LenAgrees == Len0 = Cardinality(inserted)
IterOnce == /\ Range(Values) = inserted
            /\ \A p, q \in 1..Len(Values) : Values[p] = Values[q] => p = q

=============================================================================
