----------------------------- MODULE HpoGraph -----------------------------
(***************************************************************************)
(* Pure graph theory used by every other module: the mathematical objects  *)
(* the hpo crate is supposed to compute, defined WITHOUT reference to the  *)
(* crate's algorithms (no memoisation, no recursion over cached sets).     *)
(*                                                                         *)
(* Every operator takes the direct-parent relation explicitly as a         *)
(* function  par : [T -> SUBSET T]  (T = the set of term ids present).     *)
(***************************************************************************)
EXTENDS Integers, Sequences, FiniteSets, SequencesExt, FiniteSetsExt

NoDist == -1     \* "no path" marker for distances

(* Least fixpoint of "add the parents of everything seen so far".          *)
RECURSIVE ClosureUp(_, _, _)
ClosureUp(par, seen, frontier) ==
  IF frontier = {} THEN seen
  ELSE LET nxt == UNION {par[x] : x \in frontier}
       IN  ClosureUp(par, seen \cup nxt, nxt \ seen)

(* All proper ancestors of t: transitive closure of par, applied to t.     *)
Anc(par, t)      == ClosureUp(par, {}, {t})
AncSelf(par, t)  == Anc(par, t) \cup {t}
Desc(par, t)     == {d \in DOMAIN par : t \in Anc(par, d)}
DescSelf(par, t) == Desc(par, t) \cup {t}

(* The inverse of the parent relation.                                     *)
ChildrenOf(par, t) == {c \in DOMAIN par : t \in par[c]}

Acyclic(par) == \A t \in DOMAIN par : t \notin Anc(par, t)

(* child_of / parent_of as the properties define them: membership in the   *)
(* closure.                                                                *)
ChildOf(par, a, b)  == b \in Anc(par, a)
ParentOf(par, a, b) == a \in Anc(par, b)

CommonAncSelf(par, a, b) == AncSelf(par, a) \cap AncSelf(par, b)
CommonAnc(par, a, b)     == Anc(par, a) \cap Anc(par, b)
UnionAnc(par, a, b)      == Anc(par, a) \cup Anc(par, b)

(* Number of is_a edges on a shortest upward path from t to a (BFS layers, *)
(* deliberately not the crate's recursive min over parents).               *)
RECURSIVE DistUpRec(_, _, _, _, _)
DistUpRec(par, frontier, seen, a, d) ==
  IF a \in frontier THEN d
  ELSE IF frontier = {} THEN NoDist
  ELSE LET nxt == (UNION {par[x] : x \in frontier}) \ seen
       IN  DistUpRec(par, nxt, seen \cup nxt, a, d + 1)
DistUp(par, t, a) == DistUpRec(par, {t}, {t}, a, 0)

(* Shortest distance between two terms through a common ancestor-or-self.  *)
Dist(par, a, b) ==
  LET C == CommonAncSelf(par, a, b)
      S == {DistUp(par, a, c) + DistUp(par, b, c) : c \in C}
  IN  IF C = {} THEN NoDist ELSE Min(S)

(* All shortest upward paths from t to ancestor a, as sequences of the     *)
(* visited ids EXCLUDING t and INCLUDING a (the shape path_to_ancestor     *)
(* returns).                                                               *)
RECURSIVE ShortestUpPaths(_, _, _)
ShortestUpPaths(par, t, a) ==
  IF t = a THEN {<<>>}
  ELSE LET d == DistUp(par, t, a)
       IN  IF d = NoDist THEN {}
           ELSE UNION { {<<p>> \o s : s \in ShortestUpPaths(par, p, a)} :
                        p \in {q \in par[t] : DistUp(par, q, a) = d - 1} }

(* Ascending sequence of a finite set of integers: the iteration order of  *)
(* the crate's sorted HpoGroup.                                            *)
Sorted(S) == SetToSortSeq(S, LAMBDA x, y : x < y)


(* The observable projection of an ontology given by its direct facts:     *)
(* par (direct parents per term) and, per annotation kind, a function      *)
(* record id -> [name, hpos (direct terms)].  Defined semantically:        *)
(* ancestors = transitive closure, a term is linked to a record iff the    *)
(* record is directly annotated to the term or one of its descendants.     *)
LinkedPure(par, r, t) == {x \in DOMAIN r : DescSelf(par, t) \cap r[x].hpos # {}}

ProjTermPure(par, rg, ro, rr, t) ==
  [ id       |-> t,
    parents  |-> Sorted(par[t]),
    children |-> Sorted(ChildrenOf(par, t)),
    allp     |-> Sorted(Anc(par, t)),
    gene     |-> Sorted(LinkedPure(par, rg, t)),
    omim     |-> Sorted(LinkedPure(par, ro, t)),
    orpha    |-> Sorted(LinkedPure(par, rr, t)) ]

ProjRecsPure(r) ==
  LET ids == Sorted(DOMAIN r) IN
  [i \in 1..Len(ids) |-> [id |-> ids[i], name |-> r[ids[i]].name, hpos |-> Sorted(r[ids[i]].hpos)]]

ProjPure(order, par, rg, ro, rr) ==
  [ terms |-> [i \in 1..Len(order) |-> ProjTermPure(par, rg, ro, rr, order[i])],
    gene  |-> ProjRecsPure(rg),
    omim  |-> ProjRecsPure(ro),
    orpha |-> ProjRecsPure(rr) ]

(* All duplicate-free sequences over subsets of S (arena orders).          *)
Arrangements(S) == UNION {{s \in [1..Cardinality(U) -> U] : Range(s) = U} : U \in SUBSET S}

=============================================================================
