------------------------------ MODULE HpoAlgo ------------------------------
(***************************************************************************)
(* HOW the Rust code computes what HpoCore specifies: one action per step  *)
(* of the real control flow, so that (i) TLC checks, in every intermediate *)
(* state, the invariant that makes each shortcut of the code sound and     *)
(* (ii) hook events recorded from the code map 1:1 to actions.             *)
(*                                                                         *)
(*  Connect machine  = Builder<AllTerms>::connect_all_terms                *)
(*       for id in arena order: create_cache_of_grandparents(id)           *)
(*       create_cache(t): res = {}; for p in sorted parents(t):            *)
(*                           res |= all_grandparents(p); allp[t] = res|par *)
(*       all_grandparents(p): if !parents_cached(p) create_cache(p);       *)
(*                            return allp[p]                               *)
(*       parents_cached(t) = parents[t] = {} \/ allp[t] # {}               *)
(*                                                                         *)
(*  Link machine     = Builder<ConnectedTerms>::link_{gene,omim,orpha}_term*)
(*       link(t, x): if insert(ann[t], x) { for p in sorted allp[t]:       *)
(*                                             link(p, x) }                *)
(*       i.e. recursion over ALL ancestors with an early exit when the id  *)
(*       is already present ("then all parents are linked too").           *)
(***************************************************************************)
EXTENDS HpoCore

VARIABLES outer,    \* connect: how many arena entries the outer loop has started
          cstack,   \* connect: Seq of frames [t, todo (Seq of parents still to visit), res]
          lstack,   \* link: Seq of frames [t, todo (Seq of ancestors still to visit)]
          lcur      \* link: the in-flight top-level call [k, x, pending (Seq of direct terms), mode, hpos] or Idle

algoVars == <<coreVars, outer, cstack, lstack, lcur>>

Idle == [k |-> "none", x |-> 0, pending |-> <<>>, mode |-> "none", hpos |-> {}]
InFlight == lcur.k # "none"

AlgoInit ==
  /\ CoreInit
  /\ outer = 0
  /\ cstack = <<>>
  /\ lstack = <<>>
  /\ lcur = Idle

Quiet == cstack = <<>> /\ lstack = <<>> /\ lcur = Idle

-----------------------------------------------------------------------------
(* Connect machine                                                         *)

Cached(t) == parents[t] = {} \/ allp[t] # {}      \* HpoTermInternal::parents_cached

Frame(t) == [t |-> t, todo |-> Sorted(parents[t]), res |-> {}]

Top(s) == s[Len(s)]
Pop(s) == SubSeq(s, 1, Len(s) - 1)
SetTop(s, f) == [s EXCEPT ![Len(s)] = f]

ConnectStart ==
  /\ phase = "all" /\ Quiet
  /\ phase' = "connecting"
  /\ outer' = 0
  /\ UNCHANGED <<arena, parents, children, allp, ann, rec, ic, nfact, bmode, cstack, lstack, lcur>>

(* the outer loop takes the next id in ARENA order - cached or not *)
OuterNext ==
  /\ phase = "connecting" /\ cstack = <<>> /\ outer < Len(arena)
  /\ outer' = outer + 1
  /\ cstack' = <<Frame(arena[outer + 1])>>
  /\ UNCHANGED <<coreVars, lstack, lcur>>

(* all_grandparents(p) for a parent the heuristic considers cached *)
UseCached ==
  /\ phase = "connecting" /\ cstack # <<>>
  /\ LET f == Top(cstack) IN
       /\ f.todo # <<>>
       /\ Cached(Head(f.todo))
       /\ cstack' = SetTop(cstack, [f EXCEPT !.todo = Tail(@), !.res = @ \cup allp[Head(f.todo)]])
  /\ UNCHANGED <<coreVars, outer, lstack, lcur>>

(* all_grandparents(p) for an uncached parent: recurse *)
Descend ==
  /\ phase = "connecting" /\ cstack # <<>>
  /\ LET f == Top(cstack) IN
       /\ f.todo # <<>>
       /\ ~Cached(Head(f.todo))
       /\ cstack' = Append(cstack, Frame(Head(f.todo)))
  /\ UNCHANGED <<coreVars, outer, lstack, lcur>>

(* end of create_cache_of_grandparents(t): write the cache entry *)
Return ==
  /\ phase = "connecting" /\ cstack # <<>>
  /\ LET f == Top(cstack) IN
       /\ f.todo = <<>>
       /\ allp' = [allp EXCEPT ![f.t] = f.res \cup parents[f.t]]
       /\ cstack' = Pop(cstack)
  /\ UNCHANGED <<phase, arena, parents, children, ann, rec, ic, nfact, bmode, outer, lstack, lcur>>

ConnectFinish ==
  /\ phase = "connecting" /\ cstack = <<>> /\ outer = Len(arena)
  /\ phase' = "connected"
  /\ UNCHANGED <<arena, parents, children, allp, ann, rec, ic, nfact, bmode, outer, cstack, lstack, lcur>>

ConnectStep == OuterNext \/ UseCached \/ Descend \/ Return \/ ConnectFinish

(* Why the heuristic is sound: whenever a cache entry is non-empty it is   *)
(* already the complete closure - in EVERY intermediate state.             *)
CacheSound ==
  \A t \in Terms : allp[t] # {} => allp[t] = Anc(parents, t)

(* frames on the stack form an upward path; no term is on the stack twice  *)
StackShape ==
  /\ \A i \in 1..Len(cstack) - 1 : cstack[i + 1].t \in parents[cstack[i].t]
  /\ \A i \in 1..Len(cstack) : cstack[i].res \subseteq Anc(parents, cstack[i].t)

-----------------------------------------------------------------------------
(* Link machine                                                            *)

LFrame(t) == [t |-> t, todo |-> Sorted(allp[t])]

(* "visit t": the body of link_*_term up to the loop *)
Visit(k, x, t, stk) ==
  IF x \in ann[k][t]
    THEN /\ lstack' = stk                        \* early exit: already linked
         /\ ann' = ann
    ELSE /\ lstack' = Append(stk, LFrame(t))
         /\ ann' = [ann EXCEPT ![k][t] = @ \cup {x}]

(* Builder path: annotate_*(x, name, t) = add record, add direct term, link *)
LinkBeginBuilder(k, x, t) ==
  /\ phase = "connected" /\ Quiet
  /\ x \in RecIds[k] /\ t \in Terms
  /\ rec' = [rec EXCEPT ![k] = Put(@, x, [RecWith(k, x) EXCEPT !.hpos = @ \cup {t}])]
  /\ nfact' = nfact + 1
  /\ lcur' = [k |-> k, x |-> x, pending |-> <<>>, mode |-> "builder", hpos |-> {}]
  /\ Visit(k, x, t, <<>>)
  /\ UNCHANGED <<phase, arena, parents, children, allp, ic, bmode, outer, cstack>>

(* Binary path: add_*_from_bytes links every direct term of the decoded    *)
(* record FIRST and inserts the record into the map afterwards.            *)
LinkBeginBytes(k, x, S) ==
  /\ phase = "connected" /\ Quiet
  /\ x \in RecIds[k] /\ ~HasRec(k, x) /\ S \subseteq Terms
  /\ lcur' = [k |-> k, x |-> x, pending |-> Sorted(S), mode |-> "bytes", hpos |-> S]
  /\ UNCHANGED <<coreVars, outer, cstack, lstack>>

LinkNextPending ==
  /\ InFlight /\ lstack = <<>> /\ lcur.pending # <<>>
  /\ lcur' = [lcur EXCEPT !.pending = Tail(@)]
  /\ Visit(lcur.k, lcur.x, Head(lcur.pending), <<>>)
  /\ UNCHANGED <<phase, arena, parents, children, allp, rec, ic, nfact, bmode, outer, cstack>>

LinkStep ==
  /\ InFlight /\ lstack # <<>>
  /\ LET f == Top(lstack) IN
       /\ f.todo # <<>>
       /\ Visit(lcur.k, lcur.x, Head(f.todo), SetTop(lstack, [f EXCEPT !.todo = Tail(@)]))
  /\ UNCHANGED <<phase, arena, parents, children, allp, rec, ic, nfact, bmode, outer, cstack, lcur>>

LinkPop ==
  /\ InFlight /\ lstack # <<>>
  /\ Top(lstack).todo = <<>>
  /\ lstack' = Pop(lstack)
  /\ UNCHANGED <<coreVars, outer, cstack, lcur>>

LinkFinish ==
  /\ InFlight /\ lstack = <<>> /\ lcur.pending = <<>>
  /\ lcur' = Idle
  /\ IF lcur.mode = "bytes"
       THEN /\ rec' = [rec EXCEPT ![lcur.k] = Put(@, lcur.x, [name |-> nfact + 1, hpos |-> lcur.hpos])]
            /\ nfact' = nfact + 1
       ELSE UNCHANGED <<rec, nfact>>
  /\ UNCHANGED <<phase, arena, parents, children, allp, ann, ic, bmode, outer, cstack, lstack>>

LinkStepAny == LinkNextPending \/ LinkStep \/ LinkPop \/ LinkFinish

(* The premise of the early exit, required whenever no call is in flight.  *)
UpClosedQuiet == (Quiet /\ Connected) => UpClosed
LinkExactQuiet == (Quiet /\ Connected) => (LinkExact /\ Resolvable)

(* While a call is in flight: nothing but the in-flight id is out of place, *)
(* and it only ever sits on terms it is allowed to reach.                  *)
LinkInFlightSound ==
  (InFlight) =>
     \A k \in Kinds : \A t \in Terms : \A y \in ann[k][t] :
        \/ y \in DOMAIN rec[k] /\ DescSelf(parents, t) \cap rec[k][y].hpos # {}
        \/ k = lcur.k /\ y = lcur.x /\ DescSelf(parents, t) \cap lcur.hpos # {}

-----------------------------------------------------------------------------
AlgoNext ==
  \/ /\ Quiet
     /\ \/ \E id \in Ids : NewTerm(id)
        \/ TermsComplete
        \/ \E p, c \in Ids : AddParent(p, c)
        \/ \E k \in Kinds : \E x \in RecIds[k] : AddRecord(k, x)
        \/ CalcIC
        \/ BuildMinimal
        \/ BuildDefaults
     /\ UNCHANGED <<outer, cstack, lstack, lcur>>
  \/ ConnectStart
  \/ ConnectStep
  \/ \E k \in Kinds : \E x \in RecIds[k] : \E t \in Ids : LinkBeginBuilder(k, x, t)
  \/ \E k \in Kinds : \E x \in RecIds[k] : \E S \in SUBSET Terms : LinkBeginBytes(k, x, S)
  \/ LinkStepAny

AlgoSpec == AlgoInit /\ [][AlgoNext]_algoVars
AlgoFair == AlgoSpec /\ WF_algoVars(ConnectStep) /\ WF_algoVars(LinkStepAny)

(* termination of both recursions on acyclic graphs *)
ConnectTerminates == (phase = "connecting") ~> (phase = "connected")
LinkTerminates == (InFlight) ~> (~InFlight)

=============================================================================
