------------------------------ MODULE HpoSetMeta ------------------------------
(***************************************************************************)
(* Growth beyond the listed properties: the HpoSet operations that depend  *)
(* on term metadata and on the default categories / modifiers, over the    *)
(* abstract ontology values of OntGen (as loaded by from_bytes, which      *)
(* applies the documented defaults):                                       *)
(*   modifier roots  = children of HP:1 other than HP:118                  *)
(*   category roots  = modifier roots + children of HP:118                 *)
(*   without_modifier(S)      = terms of S with no modifier root among     *)
(*                              their ancestors-or-self                    *)
(*   without_obsolete(S)      = terms of S not flagged obsolete            *)
(*   with_replaced_obsolete(S)= every term with a replacement id is        *)
(*                              replaced by it (the crate does not look at *)
(*                              the obsolete flag nor whether the          *)
(*                              replacement exists: modelled as is)        *)
(*   categories(S)            = per category root, how many terms of S lie *)
(*                              at or below it                             *)
(***************************************************************************)
EXTENDS OntGen

IdsOf(o) == {o.terms[i].id : i \in 1..Len(o.terms)}
ParOf(o) == [t \in IdsOf(o) |-> Range((CHOOSE q \in Range(o.parents) : q.id = t).parents)]
MetaOf(o, t) == CHOOSE x \in Range(o.terms) : x.id = t

ModRoots(o) == ChildrenOf(ParOf(o), 1) \ {118}
CatRoots(o) == ModRoots(o) \cup ChildrenOf(ParOf(o), 118)

WithoutModifier(o, S) == {t \in S : AncSelf(ParOf(o), t) \cap ModRoots(o) = {}}
WithoutObsolete(o, S) == {t \in S : ~MetaOf(o, t).obsolete}
ReplacedObsolete(o, S) == {IF MetaOf(o, t).repl # 0 THEN MetaOf(o, t).repl ELSE t : t \in S}
SetCategories(o, S) ==
  LET cs == {c \in CatRoots(o) : \E t \in S : c \in AncSelf(ParOf(o), t)}
  IN [c \in cs |-> Cardinality({t \in S : c \in AncSelf(ParOf(o), t)})]

SetMeta(o, S) ==
  [ set |-> Sorted(S),
    without_modifier |-> Sorted(WithoutModifier(o, S)),
    without_obsolete |-> Sorted(WithoutObsolete(o, S)),
    replaced |-> Sorted(ReplacedObsolete(o, S)),
    categories |-> LET f == SetCategories(o, S) ks == Sorted(DOMAIN f) IN [i \in 1..Len(ks) |-> <<ks[i], f[ks[i]]>>] ]

(* per term: HpoTerm::categories() (ascending ids) and HpoTerm::is_modifier() *)
TermMeta(o, t) == [ id |-> t, categories |-> Sorted(AncSelf(ParOf(o), t) \cap CatRoots(o)),
                    is_modifier |-> AncSelf(ParOf(o), t) \cap ModRoots(o) # {} ]
TermMetas(o) == LET ids == Sorted(IdsOf(o)) IN [i \in 1..Len(ids) |-> TermMeta(o, ids[i])]

SetMetas(o) == LET subs == SetToSeq(SUBSET IdsOf(o)) IN [i \in 1..Len(subs) |-> SetMeta(o, subs[i])]

MetaSane(o) ==
  \A S \in SUBSET IdsOf(o) :
     /\ WithoutModifier(o, S) \subseteq S /\ WithoutObsolete(o, S) \subseteq S
     /\ Cardinality(ReplacedObsolete(o, S)) <= Cardinality(S)
     /\ WithoutModifier(o, WithoutModifier(o, S)) = WithoutModifier(o, S)

=============================================================================
