------------------------------- MODULE HpoJax -------------------------------
(***************************************************************************)
(* The three JAX text files as STRUCTURED documents (a 30-line renderer in *)
(* the harness turns them into text), a writer that renders an abstract    *)
(* ontology value into them with free record order and the kinds of noise  *)
(* real files contain, and a declarative reader: which facts a file set    *)
(* describes according to the documented formats.                          *)
(*                                                                         *)
(*  hp.obo        blocks separated by an empty line; the header block      *)
(*                starts with "format-version: 1.2" and may carry          *)
(*                "data-version: hp/releases/YYYY-MM-DD"; a [Term] stanza   *)
(*                has "tag: value" lines: id, name, is_a: HP:x ! comment   *)
(*                (any number), is_obsolete: true, replaced_by: HP:x and   *)
(*                arbitrary other tags; other stanza types are ignored.    *)
(*  genes_to_phenotype.txt   one header line, then rows                    *)
(*                gene id <TAB> symbol <TAB> HP:x [<TAB> more columns]     *)
(*  phenotype_to_genes.txt   one header line, then rows                    *)
(*                HP:x <TAB> term name <TAB> gene id <TAB> symbol [...]    *)
(*  phenotype.hpoa  comment lines (#...), a column header line, rows       *)
(*                DB:id <TAB> name <TAB> qualifier <TAB> HP:x [...]        *)
(*                DB = OMIM or ORPHA count, qualifier NOT does not, every  *)
(*                other database is ignored.                               *)
(*                                                                         *)
(* Envelope (the generator stays inside what is documented): one header    *)
(* line in the gene files, every is_a line carries its "! comment", at     *)
(* most one replaced_by, one name per record id, every annotated term      *)
(* exists, versions with 4-digit year / 2-digit month and day.             *)
(***************************************************************************)
EXTENDS OntGen

NoiseText == <<<<100>>, <<58>>, <<32>>, <<120>>>>       \* "d: x"  (contains ": ")

(* --- writer ------------------------------------------------------------ *)

Reorder(s, pm) ==
  CASE pm = "id"  -> s
    [] pm = "rev" -> Reverse(s)
    [] pm = "rot" -> IF Len(s) < 2 THEN s ELSE SubSeq(s, 2, Len(s)) \o <<s[1]>>

TermStanza(o, i, nz) ==
  LET t  == o.terms[i]
      ps == (CHOOSE q \in Range(o.parents) : q.id = t.id).parents
      idl   == <<[tag |-> "id", id |-> t.id]>>
      namel == <<[tag |-> "name", name |-> t.name]>>
      noise == IF nz.tags THEN <<[tag |-> "other", key |-> "def", text |-> NoiseText],
                                 [tag |-> "other", key |-> "synonym", text |-> t.name]>> ELSE <<>>
      isa   == [j \in 1..Len(ps) |-> [tag |-> "is_a", id |-> ps[j], comment |-> NoiseText]]
      obs   == IF t.obsolete THEN <<[tag |-> "is_obsolete"]>> ELSE <<>>
      rep   == IF t.repl # 0 THEN <<[tag |-> "replaced_by", id |-> t.repl]>> ELSE <<>>
  IN [ kind  |-> "Term",
       lines |-> IF nz.altorder THEN noise \o namel \o obs \o isa \o idl \o rep
                 ELSE idl \o namel \o noise \o isa \o obs \o rep ]

TypedefStanza == [ kind |-> "Typedef", lines |-> <<[tag |-> "id", id |-> 7777777], [tag |-> "name", name |-> NoiseText]>> ]

OboFile(o, nz, pm) ==
  LET header == [ kind |-> "header",
                  lines |-> <<[tag |-> "format-version"]>>
                            \o (IF o.version # <<0, 0, 0>> THEN <<[tag |-> "data-version", v |-> o.version]>> ELSE <<>>)
                            \o <<[tag |-> "other", key |-> "saved-by", text |-> NoiseText]>> ]
      stanzas == Reorder([i \in 1..Len(o.terms) |-> TermStanza(o, i, nz)], pm)
  IN <<header>> \o (IF nz.typedef THEN <<TypedefStanza>> ELSE <<>>) \o stanzas
     \o (IF nz.typedef THEN <<TypedefStanza>> ELSE <<>>)

(* one row per (record, direct term) fact, in record order *)
RECURSIVE FactRows(_, _)
FactRows(recs, i) ==
  IF i > Len(recs) THEN <<>>
  ELSE [j \in 1..Len(recs[i].terms) |-> [x |-> recs[i].id, name |-> recs[i].name, t |-> recs[i].terms[j]]]
       \o FactRows(recs, i + 1)

GeneRows(o, nz, pm) ==
  LET base == FactRows(o.gene, 1)
      rows == IF nz.dup /\ base # <<>> THEN base \o <<base[1]>> ELSE base     \* a repeated fact
  IN Reorder([i \in 1..Len(rows) |-> [x |-> rows[i].x, name |-> rows[i].name, t |-> rows[i].t,
                                       extra |-> IF nz.cols THEN 3 ELSE 0]], pm)

HpoaItems(o, nz, pm) ==
  LET row(db, r) == [kind |-> "row", db |-> db, x |-> r.x, name |-> r.name, qual |-> "", t |-> r.t,
                     extra |-> IF nz.cols THEN 8 ELSE 0]
      om  == FactRows(o.omim, 1)
      orp == FactRows(o.orpha, 1)
      pos == [i \in 1..Len(om) |-> row("OMIM", om[i])] \o [i \in 1..Len(orp) |-> row("ORPHA", orp[i])]
      any == o.terms[Len(o.terms)].id
      nots == IF nz.nots THEN
                << [kind |-> "row", db |-> "OMIM",  x |-> 999, name |-> NoiseText, qual |-> "NOT", t |-> any, extra |-> 8],
                   [kind |-> "row", db |-> "ORPHA", x |-> 7,   name |-> NoiseText, qual |-> "NOT", t |-> 1,   extra |-> 0],
                   [kind |-> "row", db |-> "OMIM",  x |-> 7,   name |-> NoiseText, qual |-> "NOT", t |-> any, extra |-> 8] >>
              ELSE <<>>
      deci == IF nz.decipher THEN
                << [kind |-> "row", db |-> "DECIPHER", x |-> 7, name |-> NoiseText, qual |-> "", t |-> 1, extra |-> 8] >>
              ELSE <<>>
      body == Reorder(pos \o nots \o deci, pm)
  IN (IF nz.comments THEN <<[kind |-> "comment"], [kind |-> "comment"], [kind |-> "colheader"]>> ELSE <<>>) \o body

JaxFiles(o, nz, pm) ==
  [ obo   |-> OboFile(o, nz, pm),
    genes |-> [header |-> nz.gheader, rows |-> GeneRows(o, nz, pm)],
    hpoa  |-> HpoaItems(o, nz, pm) ]

(* --- declarative reader ------------------------------------------------ *)

TagLines(st, tag) == SelectSeq(st.lines, LAMBDA l : l.tag = tag)

ReadTerm(st) ==
  [ id       |-> TagLines(st, "id")[1].id,
    name     |-> TagLines(st, "name")[1].name,
    obsolete |-> TagLines(st, "is_obsolete") # <<>>,
    repl     |-> IF TagLines(st, "replaced_by") = <<>> THEN 0 ELSE TagLines(st, "replaced_by")[1].id ]

ReadParents(st) ==
  [ id |-> TagLines(st, "id")[1].id,
    parents |-> {l.id : l \in Range(TagLines(st, "is_a"))} ]

(* the name of a record is the one of its first row *)
FirstName(rows, x) == rows[CHOOSE i \in 1..Len(rows) : rows[i].x = x /\ \A j \in 1..(i - 1) : rows[j].x # x].name

ReadRecs(rows) ==
  {[id |-> x, name |-> FirstName(rows, x), terms |-> {r.t : r \in {q \in Range(rows) : q.x = x}}] :
     x \in {r.x : r \in Range(rows)}}

Describes(f) ==
  LET terms  == SelectSeq(f.obo, LAMBDA b : b.kind = "Term")
      hdr    == SelectSeq(f.obo, LAMBDA b : b.kind = "header")
      dv     == IF hdr = <<>> THEN <<>> ELSE TagLines(hdr[1], "data-version")
      rowsOf(db) == SelectSeq(f.hpoa, LAMBDA it : it.kind = "row" /\ it.db = db /\ it.qual # "NOT")
  IN [ version |-> IF dv = <<>> THEN <<0, 0, 0>> ELSE dv[1].v,
       terms   |-> {ReadTerm(terms[i]) : i \in 1..Len(terms)},
       parents |-> {p \in {ReadParents(terms[i]) : i \in 1..Len(terms)} : p.parents # {}},
       gene    |-> ReadRecs(f.genes.rows),
       omim    |-> ReadRecs(rowsOf("OMIM")),
       orpha   |-> ReadRecs(rowsOf("ORPHA")) ]

(* what the text formats can carry of o: no record without a term *)
JaxRestrict(o) ==
  [ o EXCEPT !.gene  = SelectSeq(@, LAMBDA r : r.terms # <<>>),
             !.omim  = SelectSeq(@, LAMBDA r : r.terms # <<>>),
             !.orpha = SelectSeq(@, LAMBDA r : r.terms # <<>>) ]

(* writer and reader agree: the files describe exactly the facts of o *)
WriteReadAgree(o, nz, pm) == Describes(JaxFiles(o, nz, pm)) = Canon(JaxRestrict(o))

=============================================================================
