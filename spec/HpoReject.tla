------------------------------ MODULE HpoReject ------------------------------
(***************************************************************************)
(* C15: the Builder under call histories that include REJECTED calls.      *)
(*                                                                         *)
(* The public calls add_parent(p, c) and annotate_*(x, name, t) return     *)
(* DoesNotExist when a referenced term is absent.  Required: such a call   *)
(* is a stuttering step of the abstract builder state (HpoCore), so the    *)
(* built ontology is the one of the successful calls alone and is          *)
(* referentially closed (NoDangling).                                      *)
(*                                                                         *)
(* `calls` is the observable history (what the client did and what it was  *)
(* told); nfact is HpoCore's ghost counter that names records and counts   *)
(* EVERY record-level call, rejected or not, so that a name can be traced  *)
(* to the call that supplied it.                                           *)
(*                                                                         *)
(* OldCode = TRUE switches the two rejected calls to what the crate did    *)
(* before the repair of finding F4 (mutation before the failing lookup):   *)
(*   add_parent(p, c), p present, c absent: c is added to p's children;    *)
(*   annotate_*(x, _, t), t absent: the record x is created (name of THIS  *)
(*   call) and t is added to its direct terms.                             *)
(* TLC refutes NoDangling and RejectedStutters under OldCode (self-test).  *)
(***************************************************************************)
EXTENDS HpoCore

CONSTANT OldCode

VARIABLE calls

rejVars == <<coreVars, calls>>

Call(op, a, b, c, ok) == [op |-> op, a |-> a, b |-> b, c |-> c, ok |-> ok]

RNewTerm(id) == NewTerm(id) /\ calls' = Append(calls, Call("new_term", id, 0, "", TRUE))
RTermsComplete == TermsComplete /\ calls' = Append(calls, Call("terms_complete", 0, 0, "", TRUE))
RConnectAll == ConnectAll /\ calls' = Append(calls, Call("connect_all_terms", 0, 0, "", TRUE))
RCalcIC == CalcIC /\ calls' = Append(calls, Call("calculate_information_content", 0, 0, "", TRUE))
RBuild == BuildMinimal /\ calls' = Append(calls, Call("build_minimal", 0, 0, "", TRUE))

RAddParentOk(p, c) == AddParent(p, c) /\ calls' = Append(calls, Call("add_parent", p, c, "", TRUE))

RAddParentRejected(p, c) ==
  /\ phase = "all"
  /\ p \in Ids /\ c \in Ids /\ p # c
  /\ p \notin Terms \/ c \notin Terms
  /\ IF OldCode /\ p \in Terms
       THEN children' = [children EXCEPT ![p] = @ \cup {c}] /\ UNCHANGED <<phase, arena, parents, allp, ann, rec, ic, nfact, bmode>>
       ELSE UNCHANGED coreVars
  /\ calls' = Append(calls, Call("add_parent", p, c, "", FALSE))

RAddRecord(k, x) == AddRecord(k, x) /\ calls' = Append(calls, Call("add_record", x, 0, k, TRUE))
RAnnotateOk(k, x, t) == Annotate(k, x, t) /\ calls' = Append(calls, Call("annotate", x, t, k, TRUE))

RAnnotateRejected(k, x, t) ==
  /\ phase = "connected"
  /\ x \in RecIds[k] /\ t \in Ids \ Terms
  /\ IF OldCode
       THEN rec' = [rec EXCEPT ![k] = Put(@, x, [RecWith(k, x) EXCEPT !.hpos = @ \cup {t}])]
            /\ UNCHANGED <<phase, arena, parents, children, allp, ann, ic, bmode>>
       ELSE UNCHANGED <<phase, arena, parents, children, allp, ann, rec, ic, bmode>>
  /\ nfact' = nfact + 1                     \* ghost: the call is counted, nothing else happens
  /\ calls' = Append(calls, Call("annotate", x, t, k, FALSE))

RejInit == CoreInit /\ calls = <<>>

RejNext ==
  \/ \E id \in Ids : RNewTerm(id)
  \/ RTermsComplete
  \/ \E p, c \in Ids : RAddParentOk(p, c) \/ RAddParentRejected(p, c)
  \/ RConnectAll
  \/ \E k \in Kinds : \E x \in RecIds[k] : RAddRecord(k, x) \/ \E t \in Ids : RAnnotateOk(k, x, t) \/ RAnnotateRejected(k, x, t)
  \/ RCalcIC
  \/ RBuild

RejSpec == RejInit /\ [][RejNext]_rejVars

-----------------------------------------------------------------------------
(* every id handed out by the read API resolves in the same ontology *)
NoDangling ==
  /\ \A t \in Terms : parents[t] \subseteq Terms /\ children[t] \subseteq Terms /\ allp[t] \subseteq Terms
  /\ \A t \in Ids \ Terms : parents[t] = {} /\ children[t] = {} /\ allp[t] = {}
  /\ \A k \in Kinds : /\ \A x \in DOMAIN rec[k] : rec[k][x].hpos \subseteq Terms
                      /\ \A t \in Ids : ann[k][t] \subseteq DOMAIN rec[k] /\ (t \notin Terms => ann[k][t] = {})

(* the builder state proper: everything but the ghost counter *)
builderState == <<phase, arena, parents, children, allp, ann, rec, ic, bmode>>

(* a call that returns an error leaves the builder unchanged *)
RejectedStutters ==
  [][(calls' # calls /\ ~calls'[Len(calls')].ok) => UNCHANGED builderState]_rejVars

(* the reply is a function of the state before the call: both terms / the term must exist *)
ReplyRight ==
  [][calls' # calls =>
      LET c == calls'[Len(calls')] IN
        /\ c.op = "add_parent" => (c.ok <=> (c.a \in Terms /\ c.b \in Terms))
        /\ c.op = "annotate" => (c.ok <=> c.b \in Terms)]_rejVars

=============================================================================
