------------------------------- MODULE HpoNames -------------------------------
(***************************************************************************)
(* Record lookups by name.  Names are sequences of characters.             *)
(***************************************************************************)
EXTENDS Integers, Sequences, FiniteSets

IsPrefixAt(q, nm, i) == i + Len(q) - 1 <= Len(nm) /\ \A j \in 1..Len(q) : nm[i + j - 1] = q[j]
IsSubstring(q, nm) == q = <<>> \/ \E i \in 1..Len(nm) : IsPrefixAt(q, nm, i)

(* omim_diseases_by_name(q): exactly the diseases whose name contains q *)
DiseasesByName(names, q) == {x \in DOMAIN names : IsSubstring(q, names[x])}
(* gene_by_name(sym): some gene with exactly that symbol, or nothing iff none *)
GenesBySymbol(syms, s) == {x \in DOMAIN syms : syms[x] = s}

=============================================================================
