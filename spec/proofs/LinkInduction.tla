--------------------------- MODULE LinkInduction ---------------------------
(***************************************************************************)
(* Unbounded (TLAPS) companion to the model-checked C02 invariants.        *)
(*                                                                         *)
(* For ARBITRARY sets of terms T and annotation ids X and an arbitrary     *)
(* ancestor relation Anc (no finiteness, no bound on ids):                 *)
(*  1. the abstract Annotate action of HpoCore preserves LinkExact         *)
(*     ("a term is linked to x iff x is directly annotated to the term or  *)
(*     to one of its descendants");                                        *)
(*  2. LinkExact implies UpClosed, the premise of the crate's early exit   *)
(*     ("already linked, so all ancestors are linked too") - this needs    *)
(*     transitivity of Anc, i.e. that the ancestor cache is a closure      *)
(*     (C01).                                                              *)
(* TLC checks the same statements exhaustively on every DAG over <= 4 ids  *)
(* including the step-level early-exit machine; this module lifts the      *)
(* abstract part to all sizes.                                             *)
(***************************************************************************)
EXTENDS TLAPS

CONSTANTS T, X, Anc(_)

ASSUME AncType == \A t \in T : Anc(t) \subseteq T
ASSUME AncTrans == \A a, b, c \in T : (a \in Anc(b) /\ b \in Anc(c)) => a \in Anc(c)

VARIABLES ann, hpos

DescSelf(t) == {d \in T : d = t \/ t \in Anc(d)}

TypeOK == ann \in [T -> SUBSET X] /\ hpos \in [X -> SUBSET T]

LinkExact == \A t \in T : ann[t] = {x \in X : DescSelf(t) \cap hpos[x] # {}}

UpClosed == \A t \in T : \A a \in Anc(t) : ann[t] \subseteq ann[a]

Annotate(x, t) ==
  /\ hpos' = [hpos EXCEPT ![x] = @ \cup {t}]
  /\ ann' = [a \in T |-> IF a = t \/ a \in Anc(t) THEN ann[a] \cup {x} ELSE ann[a]]

THEOREM AnnotatePreservesType ==
  ASSUME TypeOK, NEW x \in X, NEW t \in T, Annotate(x, t)
  PROVE  TypeOK'
  BY DEF TypeOK, Annotate

THEOREM AnnotatePreservesLinkExact ==
  ASSUME TypeOK, LinkExact, NEW x \in X, NEW t \in T, Annotate(x, t)
  PROVE  LinkExact'
<1>1. SUFFICES ASSUME NEW a \in T
               PROVE  ann'[a] = {y \in X : DescSelf(a) \cap hpos'[y] # {}}
  BY DEF LinkExact
<1>2. ann[a] = {y \in X : DescSelf(a) \cap hpos[y] # {}}
  BY DEF LinkExact
<1>3. hpos'[x] = hpos[x] \cup {t} /\ \A y \in X : y # x => hpos'[y] = hpos[y]
  BY DEF Annotate, TypeOK
<1>4. (t \in DescSelf(a)) <=> (a = t \/ a \in Anc(t))
  BY DEF DescSelf
<1>5. ann'[a] = IF a = t \/ a \in Anc(t) THEN ann[a] \cup {x} ELSE ann[a]
  BY DEF Annotate
<1>6. CASE a = t \/ a \in Anc(t)
  <2>1. ann'[a] = ann[a] \cup {x}
    BY <1>5, <1>6
  <2>2. DescSelf(a) \cap hpos'[x] # {}
    BY <1>3, <1>4, <1>6
  <2>3. \A y \in X : (DescSelf(a) \cap hpos'[y] # {}) <=> (y = x \/ DescSelf(a) \cap hpos[y] # {})
    BY <1>3, <2>2
  <2> QED BY <2>1, <2>3, <1>2
<1>7. CASE ~(a = t \/ a \in Anc(t))
  <2>1. ann'[a] = ann[a]
    BY <1>5, <1>7
  <2>2. t \notin DescSelf(a)
    BY <1>4, <1>7
  <2>3. \A y \in X : (DescSelf(a) \cap hpos'[y] # {}) <=> (DescSelf(a) \cap hpos[y] # {})
    BY <1>3, <2>2
  <2> QED BY <2>1, <2>3, <1>2
<1> QED BY <1>6, <1>7

THEOREM LinkExactImpliesUpClosed ==
  ASSUME TypeOK, LinkExact
  PROVE  UpClosed
<1>1. SUFFICES ASSUME NEW t \in T, NEW a \in Anc(t), NEW y \in ann[t]
               PROVE  y \in ann[a]
  BY DEF UpClosed
<1>2. a \in T
  BY AncType
<1>3. y \in X /\ DescSelf(t) \cap hpos[y] # {}
  BY DEF LinkExact
<1>4. PICK d \in DescSelf(t) : d \in hpos[y]
  BY <1>3
<1>5. d \in T /\ (d = t \/ t \in Anc(d))
  BY DEF DescSelf
<1>6. a \in Anc(d)
  BY <1>5, <1>2, AncTrans
<1>7. d \in DescSelf(a)
  BY <1>5, <1>6 DEF DescSelf
<1>8. DescSelf(a) \cap hpos[y] # {}
  BY <1>4, <1>7
<1> QED BY <1>2, <1>3, <1>8 DEF LinkExact

=============================================================================
