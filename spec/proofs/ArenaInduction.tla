--------------------------- MODULE ArenaInduction ---------------------------
(***************************************************************************)
(* Unbounded (TLAPS) companion to the model-checked C10 arena invariants:  *)
(* for an ARBITRARY table size and arbitrarily many inserts, the slot      *)
(* table and the term vector stay a bijection, slot 0 stays reserved, and  *)
(* therefore Get(id) finds a term iff it was inserted.  Same machine as    *)
(* spec/HpoLookup.tla (history variables dropped).                         *)
(***************************************************************************)
EXTENDS Integers, Sequences, TLAPS

CONSTANT TableSize
ASSUME TableSizeNat == TableSize \in Nat

VARIABLES terms, slots

Placeholder == -1
Ids == 0..(TableSize - 1)

TypeOK ==
  /\ terms \in Seq(Ids \cup {Placeholder})
  /\ Len(terms) >= 1
  /\ slots \in [Ids -> Nat]

Init ==
  /\ terms = <<Placeholder>>
  /\ slots = [i \in Ids |-> 0]

Insert(id) ==
  /\ id \in Ids
  /\ IF slots[id] = 0
       THEN /\ terms' = Append(terms, id)
            /\ slots' = [slots EXCEPT ![id] = Len(terms)]
       ELSE UNCHANGED <<terms, slots>>

Next == \E id \in Ids : Insert(id)

(* the inductive invariant *)
Inv ==
  /\ TypeOK
  /\ terms[1] = Placeholder
  /\ \A id \in Ids : slots[id] # 0 => (slots[id] < Len(terms) /\ terms[slots[id] + 1] = id)
  /\ \A p \in 2..Len(terms) : terms[p] \in Ids /\ slots[terms[p]] = p - 1

(* Arena::get: a term is found iff some position of the vector holds it *)
Get(id) == IF id \in Ids /\ slots[id] # 0 THEN terms[slots[id] + 1] ELSE Placeholder
Inserted == {terms[p] : p \in 2..Len(terms)}

THEOREM InitInv == Init => Inv
<1> SUFFICES ASSUME Init PROVE Inv
  OBVIOUS
<1>1. terms = <<Placeholder>> /\ Len(terms) = 1 /\ terms[1] = Placeholder
  BY DEF Init
<1>2. TypeOK
  BY <1>1, TableSizeNat DEF TypeOK, Init, Ids, Placeholder
<1>3. \A id \in Ids : slots[id] = 0
  BY DEF Init
<1>4. 2..Len(terms) = {}
  BY <1>1
<1> QED BY <1>1, <1>2, <1>3, <1>4 DEF Inv

THEOREM NextInv == Inv /\ Next => Inv'
<1> SUFFICES ASSUME Inv, NEW id \in Ids, Insert(id) PROVE Inv'
  BY DEF Next
<1>1. CASE slots[id] # 0
  BY <1>1 DEF Insert, Inv, TypeOK
<1>2. CASE slots[id] = 0
  <2>1. terms' = Append(terms, id) /\ slots' = [slots EXCEPT ![id] = Len(terms)]
    BY <1>2 DEF Insert
  <2>2. Len(terms) \in Nat /\ Len(terms) >= 1 /\ terms \in Seq(Ids \cup {Placeholder})
    BY DEF Inv, TypeOK
  <2>3. Len(terms') = Len(terms) + 1 /\ \A p \in 1..Len(terms) : terms'[p] = terms[p]
    BY <2>1, <2>2
  <2>4. terms'[Len(terms) + 1] = id
    BY <2>1, <2>2
  <2>5. TypeOK'
    BY <2>1, <2>2 DEF TypeOK, Inv
  <2>6. terms'[1] = Placeholder
    BY <2>3, <2>2 DEF Inv
  <2>7. \A j \in Ids : slots'[j] # 0 => (slots'[j] < Len(terms') /\ terms'[slots'[j] + 1] = j)
    <3> SUFFICES ASSUME NEW j \in Ids, slots'[j] # 0
                 PROVE  slots'[j] < Len(terms') /\ terms'[slots'[j] + 1] = j
      OBVIOUS
    <3>1. CASE j = id
      BY <3>1, <2>1, <2>2, <2>3, <2>4 DEF Inv, TypeOK
    <3>2. CASE j # id
      <4>1. slots'[j] = slots[j]
        BY <3>2, <2>1 DEF Inv, TypeOK
      <4>2. slots[j] < Len(terms) /\ terms[slots[j] + 1] = j /\ slots[j] \in Nat
        BY <4>1 DEF Inv, TypeOK
      <4> QED BY <4>1, <4>2, <2>2, <2>3
    <3> QED BY <3>1, <3>2
  <2>8. \A p \in 2..Len(terms') : terms'[p] \in Ids /\ slots'[terms'[p]] = p - 1
    <3> SUFFICES ASSUME NEW p \in 2..Len(terms')
                 PROVE  terms'[p] \in Ids /\ slots'[terms'[p]] = p - 1
      OBVIOUS
    <3>1. CASE p = Len(terms) + 1
      BY <3>1, <2>1, <2>2, <2>4 DEF Inv, TypeOK
    <3>2. CASE p # Len(terms) + 1
      <4>1. p \in 2..Len(terms)
        BY <3>2, <2>2, <2>3
      <4>2. terms'[p] = terms[p] /\ terms[p] \in Ids /\ slots[terms[p]] = p - 1
        BY <4>1, <2>3, <2>2 DEF Inv
      <4>3. terms[p] # id
        BY <4>2, <4>1, <1>2
      <4> QED BY <4>2, <4>3, <2>1 DEF Inv, TypeOK
    <3> QED BY <3>1, <3>2
  <2> QED BY <2>5, <2>6, <2>7, <2>8 DEF Inv
<1> QED BY <1>1, <1>2

(* lookups are exact: Get finds exactly the inserted ids, and returns the id asked for *)
THEOREM GetExact == Inv => \A id \in Ids : (Get(id) # Placeholder <=> id \in Inserted) /\ (id \in Inserted => Get(id) = id)
<1> SUFFICES ASSUME Inv, NEW id \in Ids
             PROVE  (Get(id) # Placeholder <=> id \in Inserted) /\ (id \in Inserted => Get(id) = id)
  OBVIOUS
<1>1. Len(terms) \in Nat /\ Len(terms) >= 1
  BY DEF Inv, TypeOK
<1>2. CASE slots[id] # 0
  <2>1. slots[id] \in Nat /\ slots[id] < Len(terms) /\ terms[slots[id] + 1] = id
    BY <1>2 DEF Inv, TypeOK
  <2>2. slots[id] + 1 \in 2..Len(terms)
    BY <2>1, <1>1, <1>2
  <2>3. id \in Inserted
    BY <2>1, <2>2 DEF Inserted
  <2>4. Get(id) = id
    BY <1>2, <2>1 DEF Get
  <2> QED BY <2>3, <2>4 DEF Ids, Placeholder
<1>3. CASE slots[id] = 0
  <2>1. Get(id) = Placeholder
    BY <1>3 DEF Get
  <2>2. id \notin Inserted
    <3> SUFFICES ASSUME id \in Inserted PROVE FALSE
      OBVIOUS
    <3>1. PICK p \in 2..Len(terms) : terms[p] = id
      BY DEF Inserted
    <3>2. slots[id] = p - 1
      BY <3>1 DEF Inv
    <3> QED BY <3>1, <3>2, <1>3, <1>1
  <2> QED BY <2>1, <2>2
<1> QED BY <1>2, <1>3

=============================================================================
