--------------------------- MODULE MergeInduction ---------------------------
(***************************************************************************)
(* Unbounded (TLAPS) companion to the model-checked C12 merge machine       *)
(* (spec/HpoGroupAlgo.tla, union): for ARBITRARY strictly ascending inputs  *)
(* a and b of any length the loop invariant is inductive, and when both     *)
(* cursors are past the end the output is strictly ascending and holds     *)
(* exactly the ids of a and b - i.e. `&a | &b` is the set union presented  *)
(* in ascending order.  Same five arms as the match in src/term/group.rs.   *)
(***************************************************************************)
EXTENDS Integers, Sequences, TLAPS

CONSTANTS a, b
Ascending(s) == \A p, q \in 1..Len(s) : p < q => s[p] < s[q]
ASSUME InputsOK == /\ a \in Seq(Nat) /\ b \in Seq(Nat)
                   /\ Ascending(a) /\ Ascending(b)

VARIABLES i, j, out
vars == <<i, j, out>>

Read(s, k) == {s[m] : m \in 1..(k - 1)}
Rest(s, k) == {s[m] : m \in k..Len(s)}
Set(s) == {s[m] : m \in 1..Len(s)}

Init == i = 1 /\ j = 1 /\ out = <<>>

HasL == i <= Len(a)
HasR == j <= Len(b)
ULess    == HasL /\ HasR /\ a[i] < b[j] /\ out' = Append(out, a[i]) /\ i' = i + 1 /\ j' = j
UGreater == HasL /\ HasR /\ a[i] > b[j] /\ out' = Append(out, b[j]) /\ j' = j + 1 /\ i' = i
UEqual   == HasL /\ HasR /\ a[i] = b[j] /\ out' = Append(out, a[i]) /\ i' = i + 1 /\ j' = j + 1
ULeft    == HasL /\ ~HasR /\ out' = Append(out, a[i]) /\ i' = i + 1 /\ j' = j
URight   == ~HasL /\ HasR /\ out' = Append(out, b[j]) /\ j' = j + 1 /\ i' = i
Next == ULess \/ UGreater \/ UEqual \/ ULeft \/ URight

Inv ==
  /\ i \in 1..(Len(a) + 1) /\ j \in 1..(Len(b) + 1)
  /\ out \in Seq(Nat)
  /\ Ascending(out)
  /\ Set(out) = Read(a, i) \cup Read(b, j)
  /\ \A x \in Set(out) : \A y \in Rest(a, i) \cup Rest(b, j) : x < y

LEMMA LenNat == Len(a) \in Nat /\ Len(b) \in Nat
  BY InputsOK

THEOREM InitInv == Init => Inv
<1> SUFFICES ASSUME Init PROVE Inv
  OBVIOUS
<1>1. i = 1 /\ j = 1 /\ out = <<>> /\ Len(out) = 0
  BY DEF Init
<1>2. Set(out) = {} /\ Read(a, i) = {} /\ Read(b, j) = {}
  BY <1>1 DEF Set, Read
<1>3. Ascending(out)
  BY <1>1 DEF Ascending
<1>4. out \in Seq(Nat)
  BY <1>1
<1> QED BY <1>1, <1>2, <1>3, <1>4, LenNat DEF Inv

(* appending an element above everything keeps the sequence ascending and adds exactly that element *)
LEMMA AppendAbove ==
  ASSUME NEW s \in Seq(Nat), NEW e \in Nat, Ascending(s), \A x \in Set(s) : x < e
  PROVE  /\ Append(s, e) \in Seq(Nat)
         /\ Ascending(Append(s, e))
         /\ Set(Append(s, e)) = Set(s) \cup {e}
<1> DEFINE t == Append(s, e)
<1>1. t \in Seq(Nat) /\ Len(t) = Len(s) + 1 /\ t[Len(s) + 1] = e /\ \A m \in 1..Len(s) : t[m] = s[m]
  OBVIOUS
<1>2. Ascending(t)
  <2> SUFFICES ASSUME NEW p \in 1..Len(t), NEW q \in 1..Len(t), p < q PROVE t[p] < t[q]
    BY DEF Ascending
  <2>1. p \in 1..Len(s)
    BY <1>1
  <2>2. CASE q \in 1..Len(s)
    BY <1>1, <2>1, <2>2 DEF Ascending
  <2>3. CASE q = Len(s) + 1
    <3>1. s[p] \in Set(s)
      BY <2>1 DEF Set
    <3> QED BY <1>1, <2>1, <2>3, <3>1
  <2> QED BY <1>1, <2>2, <2>3
<1>3. Set(t) = Set(s) \cup {e}
  <2>1. ASSUME NEW x \in Set(t) PROVE x \in Set(s) \cup {e}
    <3>1. PICK m \in 1..Len(t) : x = t[m]
      BY DEF Set
    <3>2. CASE m \in 1..Len(s)
      BY <1>1, <3>1, <3>2 DEF Set
    <3>3. CASE m = Len(s) + 1
      BY <1>1, <3>1, <3>3
    <3> QED BY <1>1, <3>2, <3>3
  <2>2. ASSUME NEW x \in Set(s) \cup {e} PROVE x \in Set(t)
    <3>1. CASE x \in Set(s)
      <4>1. PICK m \in 1..Len(s) : x = s[m]
        BY <3>1 DEF Set
      <4>2. m \in 1..Len(t) /\ t[m] = x
        BY <1>1, <4>1
      <4> QED BY <4>2 DEF Set
    <3>2. CASE x = e
      <4>1. (Len(s) + 1) \in 1..Len(t) /\ t[Len(s) + 1] = x
        BY <1>1, <3>2
      <4> QED BY <4>1 DEF Set
    <3> QED BY <3>1, <3>2
  <2> QED BY <2>1, <2>2
<1> QED BY <1>1, <1>2, <1>3

(* moving a cursor over a sequence *)
LEMMA ReadStep ==
  ASSUME NEW s \in Seq(Nat), NEW k \in 1..Len(s)
  PROVE  /\ Read(s, k + 1) = Read(s, k) \cup {s[k]}
         /\ Rest(s, k) = Rest(s, k + 1) \cup {s[k]}
         /\ s[k] \in Nat
<1>1. Read(s, k + 1) = Read(s, k) \cup {s[k]}
  <2>1. 1..((k + 1) - 1) = 1..(k - 1) \cup {k}
    OBVIOUS
  <2> QED BY <2>1 DEF Read
<1>2. Rest(s, k) = Rest(s, k + 1) \cup {s[k]}
  <2>1. k..Len(s) = (k + 1)..Len(s) \cup {k}
    OBVIOUS
  <2> QED BY <2>1 DEF Rest
<1> QED BY <1>1, <1>2

(* in an ascending sequence the element at the cursor is below the rest *)
LEMMA HeadBelowRest ==
  ASSUME NEW s \in Seq(Nat), Ascending(s), NEW k \in 1..Len(s)
  PROVE  \A y \in Rest(s, k + 1) : s[k] < y
  BY DEF Rest, Ascending

(* an arm that consumes a[i] (ULess, UEqual, ULeft); R is what remains unread of b afterwards *)
LEMMA TakeLeft ==
  ASSUME Inv, HasL, NEW R, R \subseteq Rest(b, j), \A y \in R : a[i] < y
  PROVE  /\ Append(out, a[i]) \in Seq(Nat)
         /\ Ascending(Append(out, a[i]))
         /\ Set(Append(out, a[i])) = Read(a, i + 1) \cup Read(b, j)
         /\ \A x \in Set(Append(out, a[i])) : \A y \in Rest(a, i + 1) \cup R : x < y
         /\ (i + 1) \in 1..(Len(a) + 1)
<1>1. a \in Seq(Nat) /\ Ascending(a) /\ i \in 1..Len(a)
  BY InputsOK, LenNat DEF Inv, HasL
<1>2. /\ Read(a, i + 1) = Read(a, i) \cup {a[i]}
      /\ Rest(a, i) = Rest(a, i + 1) \cup {a[i]}
      /\ a[i] \in Nat
  BY <1>1, ReadStep
<1>3. \A y \in Rest(a, i + 1) : a[i] < y
  BY <1>1, HeadBelowRest
<1>4. \A x \in Set(out) : x < a[i]
  BY <1>2 DEF Inv
<1>5. /\ Append(out, a[i]) \in Seq(Nat)
      /\ Ascending(Append(out, a[i]))
      /\ Set(Append(out, a[i])) = Set(out) \cup {a[i]}
  BY <1>2, <1>4, AppendAbove DEF Inv
<1>6. Set(Append(out, a[i])) = Read(a, i + 1) \cup Read(b, j)
  BY <1>5, <1>2 DEF Inv
<1>7. \A x \in Set(Append(out, a[i])) : \A y \in Rest(a, i + 1) \cup R : x < y
  <2> SUFFICES ASSUME NEW x \in Set(Append(out, a[i])), NEW y \in Rest(a, i + 1) \cup R PROVE x < y
    OBVIOUS
  <2>1. CASE x \in Set(out)
    BY <2>1, <1>2 DEF Inv
  <2>2. CASE x = a[i]
    BY <2>2, <1>3
  <2> QED BY <1>5, <2>1, <2>2
<1>8. (i + 1) \in 1..(Len(a) + 1)
  BY <1>1, LenNat
<1> QED BY <1>5, <1>6, <1>7, <1>8

(* an arm that consumes a[i] (UGreater, URight); R is what remains unread of b afterwards *)
LEMMA TakeRight ==
  ASSUME Inv, HasR, NEW R, R \subseteq Rest(a, i), \A y \in R : b[j] < y
  PROVE  /\ Append(out, b[j]) \in Seq(Nat)
         /\ Ascending(Append(out, b[j]))
         /\ Set(Append(out, b[j])) = Read(b, j + 1) \cup Read(a, i)
         /\ \A x \in Set(Append(out, b[j])) : \A y \in Rest(b, j + 1) \cup R : x < y
         /\ (j + 1) \in 1..(Len(b) + 1)
<1>1. b \in Seq(Nat) /\ Ascending(b) /\ j \in 1..Len(b)
  BY InputsOK, LenNat DEF Inv, HasR
<1>2. /\ Read(b, j + 1) = Read(b, j) \cup {b[j]}
      /\ Rest(b, j) = Rest(b, j + 1) \cup {b[j]}
      /\ b[j] \in Nat
  BY <1>1, ReadStep
<1>3. \A y \in Rest(b, j + 1) : b[j] < y
  BY <1>1, HeadBelowRest
<1>4. \A x \in Set(out) : x < b[j]
  BY <1>2 DEF Inv
<1>5. /\ Append(out, b[j]) \in Seq(Nat)
      /\ Ascending(Append(out, b[j]))
      /\ Set(Append(out, b[j])) = Set(out) \cup {b[j]}
  BY <1>2, <1>4, AppendAbove DEF Inv
<1>6. Set(Append(out, b[j])) = Read(b, j + 1) \cup Read(a, i)
  BY <1>5, <1>2 DEF Inv
<1>7. \A x \in Set(Append(out, b[j])) : \A y \in Rest(b, j + 1) \cup R : x < y
  <2> SUFFICES ASSUME NEW x \in Set(Append(out, b[j])), NEW y \in Rest(b, j + 1) \cup R PROVE x < y
    OBVIOUS
  <2>1. CASE x \in Set(out)
    BY <2>1, <1>2 DEF Inv
  <2>2. CASE x = b[j]
    BY <2>2, <1>3
  <2> QED BY <1>5, <2>1, <2>2
<1>8. (j + 1) \in 1..(Len(b) + 1)
  BY <1>1, LenNat
<1> QED BY <1>5, <1>6, <1>7, <1>8

(* the element at the cursor is not above the rest of its own sequence *)
LEMMA RestSplit ==
  ASSUME NEW s \in Seq(Nat), Ascending(s), NEW k \in 1..Len(s)
  PROVE  /\ Rest(s, k + 1) \subseteq Rest(s, k)
         /\ \A y \in Rest(s, k) : s[k] <= y
         /\ s[k] \in Nat
<1>1. Rest(s, k + 1) \subseteq Rest(s, k)
  BY DEF Rest
<1>2. \A y \in Rest(s, k) : s[k] <= y
  <2> SUFFICES ASSUME NEW y \in Rest(s, k) PROVE s[k] <= y
    OBVIOUS
  <2>1. PICK m \in k..Len(s) : y = s[m]
    BY DEF Rest
  <2>2. CASE m = k
    BY <2>1, <2>2
  <2>3. CASE m > k
    BY <2>1, <2>3 DEF Ascending
  <2> QED BY <2>1, <2>2, <2>3
<1> QED BY <1>1, <1>2

THEOREM Inductive == Inv /\ Next => Inv'
<1> SUFFICES ASSUME Inv, Next PROVE Inv'
  OBVIOUS
<1>a. a \in Seq(Nat) /\ b \in Seq(Nat) /\ Ascending(a) /\ Ascending(b) /\ Len(a) \in Nat /\ Len(b) \in Nat
  BY InputsOK, LenNat
<1>b. i \in 1..(Len(a) + 1) /\ j \in 1..(Len(b) + 1)
  BY DEF Inv
<1>1. CASE ULess
  <2>1. HasL /\ HasR /\ a[i] < b[j] /\ out' = Append(out, a[i]) /\ i' = i + 1 /\ j' = j
    BY <1>1 DEF ULess
  <2>2. j \in 1..Len(b) /\ i \in 1..Len(a)
    BY <2>1, <1>a, <1>b DEF HasL, HasR
  <2>3. \A y \in Rest(b, j) : a[i] < y
    <3>1. \A y \in Rest(b, j) : b[j] <= y
      BY <2>2, <1>a, RestSplit
    <3>2. a[i] \in Nat /\ b[j] \in Nat
      BY <2>2, <1>a
    <3>3. \A y \in Rest(b, j) : y \in Nat
      BY <2>2, <1>a DEF Rest
    <3> QED BY <2>1, <3>1, <3>2, <3>3
  <2>4. Rest(b, j) \subseteq Rest(b, j)
    OBVIOUS
  <2>5. /\ Append(out, a[i]) \in Seq(Nat)
        /\ Ascending(Append(out, a[i]))
        /\ Set(Append(out, a[i])) = Read(a, i + 1) \cup Read(b, j)
        /\ \A x \in Set(Append(out, a[i])) : \A y \in Rest(a, i + 1) \cup Rest(b, j) : x < y
        /\ (i + 1) \in 1..(Len(a) + 1)
    BY <2>1, <2>3, <2>4, TakeLeft
  <2> QED BY <2>1, <2>5, <1>b DEF Inv, Ascending, Set, Read, Rest
<1>2. CASE UGreater
  <2>1. HasL /\ HasR /\ a[i] > b[j] /\ out' = Append(out, b[j]) /\ j' = j + 1 /\ i' = i
    BY <1>2 DEF UGreater
  <2>2. j \in 1..Len(b) /\ i \in 1..Len(a)
    BY <2>1, <1>a, <1>b DEF HasL, HasR
  <2>3. \A y \in Rest(a, i) : b[j] < y
    <3>1. \A y \in Rest(a, i) : a[i] <= y
      BY <2>2, <1>a, RestSplit
    <3>2. a[i] \in Nat /\ b[j] \in Nat
      BY <2>2, <1>a
    <3>3. \A y \in Rest(a, i) : y \in Nat
      BY <2>2, <1>a DEF Rest
    <3> QED BY <2>1, <3>1, <3>2, <3>3
  <2>4. Rest(a, i) \subseteq Rest(a, i)
    OBVIOUS
  <2>5. /\ Append(out, b[j]) \in Seq(Nat)
        /\ Ascending(Append(out, b[j]))
        /\ Set(Append(out, b[j])) = Read(b, j + 1) \cup Read(a, i)
        /\ \A x \in Set(Append(out, b[j])) : \A y \in Rest(b, j + 1) \cup Rest(a, i) : x < y
        /\ (j + 1) \in 1..(Len(b) + 1)
    BY <2>1, <2>3, <2>4, TakeRight
  <2> QED BY <2>1, <2>5, <1>b DEF Inv, Ascending, Set, Read, Rest
<1>3. CASE UEqual
  <2>1. HasL /\ HasR /\ a[i] = b[j] /\ out' = Append(out, a[i]) /\ i' = i + 1 /\ j' = j + 1
    BY <1>3 DEF UEqual
  <2>2. j \in 1..Len(b) /\ i \in 1..Len(a)
    BY <2>1, <1>a, <1>b DEF HasL, HasR
  <2>3. \A y \in Rest(b, j + 1) : a[i] < y
    BY <2>1, <2>2, <1>a, HeadBelowRest
  <2>4. Rest(b, j + 1) \subseteq Rest(b, j)
    BY <2>2, <1>a, RestSplit
  <2>5. /\ Append(out, a[i]) \in Seq(Nat)
        /\ Ascending(Append(out, a[i]))
        /\ Set(Append(out, a[i])) = Read(a, i + 1) \cup Read(b, j)
        /\ \A x \in Set(Append(out, a[i])) : \A y \in Rest(a, i + 1) \cup Rest(b, j + 1) : x < y
        /\ (i + 1) \in 1..(Len(a) + 1)
    BY <2>1, <2>3, <2>4, TakeLeft
  <2>6. Read(b, j + 1) = Read(b, j) \cup {b[j]} /\ Read(a, i + 1) = Read(a, i) \cup {a[i]}
    BY <2>2, <1>a, ReadStep
  <2>7. Read(a, i + 1) \cup Read(b, j) = Read(a, i + 1) \cup Read(b, j + 1)
    BY <2>1, <2>6
  <2>8. (j + 1) \in 1..(Len(b) + 1)
    BY <2>2, <1>a
  <2> QED BY <2>1, <2>5, <2>7, <2>8 DEF Inv, Ascending, Set, Read, Rest
<1>4. CASE ULeft
  <2>1. HasL /\ ~HasR /\ out' = Append(out, a[i]) /\ i' = i + 1 /\ j' = j
    BY <1>4 DEF ULeft
  <2>2. Rest(b, j) = {}
    BY <2>1, <1>a, <1>b DEF HasR, Rest
  <2>3. \A y \in Rest(b, j) : a[i] < y
    BY <2>2
  <2>4. Rest(b, j) \subseteq Rest(b, j)
    OBVIOUS
  <2>5. /\ Append(out, a[i]) \in Seq(Nat)
        /\ Ascending(Append(out, a[i]))
        /\ Set(Append(out, a[i])) = Read(a, i + 1) \cup Read(b, j)
        /\ \A x \in Set(Append(out, a[i])) : \A y \in Rest(a, i + 1) \cup Rest(b, j) : x < y
        /\ (i + 1) \in 1..(Len(a) + 1)
    BY <2>1, <2>3, <2>4, TakeLeft
  <2> QED BY <2>1, <2>5, <1>b DEF Inv, Ascending, Set, Read, Rest
<1>5. CASE URight
  <2>1. ~HasL /\ HasR /\ out' = Append(out, b[j]) /\ j' = j + 1 /\ i' = i
    BY <1>5 DEF URight
  <2>2. Rest(a, i) = {}
    BY <2>1, <1>a, <1>b DEF HasL, Rest
  <2>3. \A y \in Rest(a, i) : b[j] < y
    BY <2>2
  <2>4. Rest(a, i) \subseteq Rest(a, i)
    OBVIOUS
  <2>5. /\ Append(out, b[j]) \in Seq(Nat)
        /\ Ascending(Append(out, b[j]))
        /\ Set(Append(out, b[j])) = Read(b, j + 1) \cup Read(a, i)
        /\ \A x \in Set(Append(out, b[j])) : \A y \in Rest(b, j + 1) \cup Rest(a, i) : x < y
        /\ (j + 1) \in 1..(Len(b) + 1)
    BY <2>1, <2>3, <2>4, TakeRight
  <2> QED BY <2>1, <2>5, <1>b DEF Inv, Ascending, Set, Read, Rest
<1> QED BY <1>1, <1>2, <1>3, <1>4, <1>5 DEF Next

(* when both inputs are consumed, the output is the union in ascending order *)
THEOREM Final == Inv /\ ~HasL /\ ~HasR => Ascending(out) /\ Set(out) = Set(a) \cup Set(b)
<1> SUFFICES ASSUME Inv, ~HasL, ~HasR PROVE Ascending(out) /\ Set(out) = Set(a) \cup Set(b)
  OBVIOUS
<1>1. i = Len(a) + 1 /\ j = Len(b) + 1
  BY LenNat DEF Inv, HasL, HasR
<1>2. Read(a, i) = Set(a) /\ Read(b, j) = Set(b)
  BY <1>1, LenNat DEF Read, Set
<1> QED BY <1>2 DEF Inv

(***************************************************************************)
(* The intersection loop: one input is iterated (the crate takes the        *)
(* shorter one; here it is called a), an id is kept iff it is a member of   *)
(* the other one (membership by binary search is model-checked:             *)
(* HpoGroupAlgo!SearchSound).  Only the ITERATED input needs to be sorted.  *)
(***************************************************************************)
IStep == /\ i <= Len(a)
         /\ out' = IF a[i] \in Set(b) THEN Append(out, a[i]) ELSE out
         /\ i' = i + 1 /\ j' = j

InterInv ==
  /\ i \in 1..(Len(a) + 1)
  /\ out \in Seq(Nat)
  /\ Ascending(out)
  /\ Set(out) = Read(a, i) \cap Set(b)
  /\ \A x \in Set(out) : \A y \in Rest(a, i) : x < y

THEOREM InterInit == Init => InterInv
<1> SUFFICES ASSUME Init PROVE InterInv
  OBVIOUS
<1>1. i = 1 /\ out = <<>> /\ Len(out) = 0
  BY DEF Init
<1>2. Set(out) = {} /\ Read(a, i) = {}
  BY <1>1 DEF Set, Read
<1>3. Ascending(out)
  BY <1>1 DEF Ascending
<1>4. out \in Seq(Nat)
  BY <1>1
<1> QED BY <1>1, <1>2, <1>3, <1>4, LenNat DEF InterInv

THEOREM InterInductive == InterInv /\ IStep => InterInv'
<1> SUFFICES ASSUME InterInv, IStep PROVE InterInv'
  OBVIOUS
<1>a. a \in Seq(Nat) /\ Ascending(a) /\ Len(a) \in Nat
  BY InputsOK, LenNat
<1>b. i \in 1..Len(a) /\ i' = i + 1
  BY <1>a DEF InterInv, IStep
<1>c. /\ Read(a, i + 1) = Read(a, i) \cup {a[i]}
      /\ Rest(a, i) = Rest(a, i + 1) \cup {a[i]}
      /\ a[i] \in Nat
  BY <1>a, <1>b, ReadStep
<1>d. \A y \in Rest(a, i + 1) : a[i] < y
  BY <1>a, <1>b, HeadBelowRest
<1>e. (i + 1) \in 1..(Len(a) + 1)
  BY <1>a, <1>b
<1>1. CASE a[i] \in Set(b)
  <2>1. out' = Append(out, a[i])
    BY <1>1 DEF IStep
  <2>2. \A x \in Set(out) : x < a[i]
    BY <1>c DEF InterInv
  <2>3. /\ Append(out, a[i]) \in Seq(Nat)
        /\ Ascending(Append(out, a[i]))
        /\ Set(Append(out, a[i])) = Set(out) \cup {a[i]}
    BY <1>c, <2>2, AppendAbove DEF InterInv
  <2>4. Set(Append(out, a[i])) = Read(a, i + 1) \cap Set(b)
    BY <2>3, <1>c, <1>1 DEF InterInv
  <2>5. \A x \in Set(Append(out, a[i])) : \A y \in Rest(a, i + 1) : x < y
    <3> SUFFICES ASSUME NEW x \in Set(Append(out, a[i])), NEW y \in Rest(a, i + 1) PROVE x < y
      OBVIOUS
    <3>1. CASE x \in Set(out)
      BY <3>1, <1>c DEF InterInv
    <3>2. CASE x = a[i]
      BY <3>2, <1>d
    <3> QED BY <2>3, <3>1, <3>2
  <2> QED BY <1>b, <1>e, <2>1, <2>3, <2>4, <2>5 DEF InterInv, Ascending, Set, Read, Rest
<1>2. CASE a[i] \notin Set(b)
  <2>1. out' = out
    BY <1>2 DEF IStep
  <2>2. Set(out) = Read(a, i + 1) \cap Set(b)
    BY <1>c, <1>2 DEF InterInv
  <2>3. \A x \in Set(out) : \A y \in Rest(a, i + 1) : x < y
    BY <1>c DEF InterInv
  <2> QED BY <1>b, <1>e, <2>1, <2>2, <2>3 DEF InterInv, Ascending, Set, Read, Rest
<1> QED BY <1>1, <1>2

THEOREM InterFinal == InterInv /\ ~(i <= Len(a)) => Ascending(out) /\ Set(out) = Set(a) \cap Set(b)
<1> SUFFICES ASSUME InterInv, ~(i <= Len(a)) PROVE Ascending(out) /\ Set(out) = Set(a) \cap Set(b)
  OBVIOUS
<1>1. i = Len(a) + 1
  BY LenNat DEF InterInv
<1>2. Read(a, i) = Set(a)
  BY <1>1, LenNat DEF Read, Set
<1> QED BY <1>2 DEF InterInv

(***************************************************************************)
(* insert: `binary_search` reports either the position of the id (nothing   *)
(* changes, the reply is "not new") or the slot k with everything before   *)
(* it smaller and everything from it on larger (model-checked:             *)
(* HpoGroupAlgo!SearchSound); `Vec::insert(k, x)` shifts the tail by one.   *)
(***************************************************************************)
VecInsert(s, k, x) == [m \in 1..(Len(s) + 1) |-> IF m < k THEN s[m] ELSE IF m = k THEN x ELSE s[m - 1]]

THEOREM InsertKeepsOrder ==
  ASSUME NEW s \in Seq(Nat), Ascending(s), NEW x \in Nat, NEW k \in 1..(Len(s) + 1),
         \A m \in 1..(k - 1) : s[m] < x,
         \A m \in k..Len(s) : x < s[m]
  PROVE  /\ VecInsert(s, k, x) \in Seq(Nat)
         /\ Len(VecInsert(s, k, x)) = Len(s) + 1
         /\ Ascending(VecInsert(s, k, x))
         /\ Set(VecInsert(s, k, x)) = Set(s) \cup {x}
<1> DEFINE t == VecInsert(s, k, x)
<1>0. Len(s) \in Nat
  OBVIOUS
<1>1. t \in Seq(Nat) /\ Len(t) = Len(s) + 1
  <2>1. \A m \in 1..(Len(s) + 1) : (IF m < k THEN s[m] ELSE IF m = k THEN x ELSE s[m - 1]) \in Nat
    OBVIOUS
  <2>2. t \in [1..(Len(s) + 1) -> Nat]
    BY <2>1 DEF VecInsert
  <2> QED BY <1>0, <2>2 DEF VecInsert
<1>2. \A m \in 1..(Len(s) + 1) : t[m] = (IF m < k THEN s[m] ELSE IF m = k THEN x ELSE s[m - 1])
  BY DEF VecInsert
<1>3. Ascending(t)
  <2> SUFFICES ASSUME NEW p \in 1..Len(t), NEW q \in 1..Len(t), p < q PROVE t[p] < t[q]
    BY DEF Ascending
  <2>1. p \in 1..(Len(s) + 1) /\ q \in 1..(Len(s) + 1)
    BY <1>1
  <2>2. CASE q < k
    BY <1>2, <2>1, <2>2 DEF Ascending
  <2>3. CASE q = k
    BY <1>2, <2>1, <2>3
  <2>4. CASE q > k /\ p < k
    <3>1. t[p] = s[p] /\ t[q] = s[q - 1] /\ s[p] < x /\ x < s[q - 1]
      BY <1>2, <2>1, <2>4
    <3>2. s[p] \in Nat /\ s[q - 1] \in Nat
      BY <2>1, <2>4
    <3> QED BY <3>1, <3>2
  <2>5. CASE q > k /\ p = k
    BY <1>2, <2>1, <2>5
  <2>6. CASE q > k /\ p > k
    <3>1. t[p] = s[p - 1] /\ t[q] = s[q - 1] /\ (p - 1) \in 1..Len(s) /\ (q - 1) \in 1..Len(s) /\ p - 1 < q - 1
      BY <1>2, <2>1, <2>6
    <3> QED BY <3>1 DEF Ascending
  <2> QED BY <2>1, <2>2, <2>3, <2>4, <2>5, <2>6
<1>4. Set(t) = Set(s) \cup {x}
  <2>1. ASSUME NEW y \in Set(t) PROVE y \in Set(s) \cup {x}
    <3>1. PICK m \in 1..Len(t) : y = t[m]
      BY DEF Set
    <3>2. m \in 1..(Len(s) + 1)
      BY <1>1
    <3>3. CASE m < k
      BY <1>2, <3>1, <3>2, <3>3 DEF Set
    <3>4. CASE m = k
      BY <1>2, <3>1, <3>2, <3>4
    <3>5. CASE m > k
      <4>1. y = s[m - 1] /\ (m - 1) \in 1..Len(s)
        BY <1>2, <3>1, <3>2, <3>5
      <4> QED BY <4>1 DEF Set
    <3> QED BY <3>2, <3>3, <3>4, <3>5
  <2>2. ASSUME NEW y \in Set(s) \cup {x} PROVE y \in Set(t)
    <3>1. CASE y = x
      <4>1. k \in 1..Len(t) /\ t[k] = x
        BY <1>1, <1>2
      <4> QED BY <3>1, <4>1 DEF Set
    <3>2. CASE y \in Set(s)
      <4>1. PICK m \in 1..Len(s) : y = s[m]
        BY <3>2 DEF Set
      <4>2. CASE m < k
        <5>1. m \in 1..Len(t) /\ t[m] = y
          BY <1>1, <1>2, <4>1, <4>2
        <5> QED BY <5>1 DEF Set
      <4>3. CASE m >= k
        <5>1. (m + 1) \in 1..Len(t) /\ t[m + 1] = y
          BY <1>1, <1>2, <4>1, <4>3
        <5> QED BY <5>1 DEF Set
      <4> QED BY <4>1, <4>2, <4>3
    <3> QED BY <3>1, <3>2
  <2> QED BY <2>1, <2>2
<1> QED BY <1>1, <1>3, <1>4
=============================================================================
