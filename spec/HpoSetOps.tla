------------------------------ MODULE HpoSetOps ------------------------------
(***************************************************************************)
(* Growth beyond the ten listed properties: the rest of the query layer    *)
(* that is derived from the same abstract state -                          *)
(*   HpoTerm::distance_to_ancestor / path_to_ancestor / distance_to_term / *)
(*            path_to_term / common_ancestor_ids / union_ancestor_ids,     *)
(*   HpoSet::child_nodes / gene_ids / omim_disease_ids / orpha_disease_ids *)
(*           / information_content.                                        *)
(* Path queries are NONDETERMINISTIC in the specification: any shortest    *)
(* path is allowed (the crate returns the first minimum it finds).         *)
(***************************************************************************)
EXTENDS HpoSim

(* path_to_ancestor(t, a): ids visited going up from t, excluding t, including a *)
UpPaths(t, a) == ShortestUpPaths(parents, t, a)

(* path_to_term(a, b): up from a to a common ancestor c that minimises the   *)
(* total distance, then down to b; excludes a, includes b.  For a = b the    *)
(* crate returns <<b>> (named deviation: one element although distance 0).   *)
DownPart(pb, b) == IF pb = <<>> THEN <<>> ELSE Tail(Reverse(pb)) \o <<b>>
TermPaths(a, b) ==
  IF a = b THEN {<<b>>}
  ELSE LET d == Dist(parents, a, b)
           C == {c \in CommonAncSelf(parents, a, b) : DistUp(parents, a, c) + DistUp(parents, b, c) = d}
       IN UNION { {pa \o DownPart(pb, b) : pa \in UpPaths(a, c), pb \in UpPaths(b, c)} : c \in C }

(* What the crate actually does (named deviation from the documented "shortest path"): when one  *)
(* term is an ancestor of the other, path_to_term walks the lineage (a shortest UPWARD path), even  *)
(* if going up to a higher common ancestor and down again would be as short or shorter.  On graphs  *)
(* with at most 3 terms both notions coincide (TLC: LineageAgreesSmall holds in MC_Extras3); with 4 *)
(* terms the allowed sets already differ (TLC refutes LineageAgreesSmall on 4 ids), and from 5 on   *)
(* the lineage path can be strictly longer than the distance (chain 5-4-3-2-1 plus the shortcut     *)
(* 5-1: path_to_term(5, 2) has 3 steps, the distance is 2).                                         *)
TermPathsLineage(a, b) ==
  IF a = b THEN {<<b>>}
  ELSE IF b \in Anc(parents, a) THEN UpPaths(a, b)
  ELSE IF a \in Anc(parents, b) THEN {DownPart(pb, b) : pb \in UpPaths(b, a)}
  ELSE TermPaths(a, b)

LineageAgreesSmall == \A a, b \in Terms : TermPathsLineage(a, b) = TermPaths(a, b)

PathPair(a, b) ==
  [ a |-> a, b |-> b,
    updist  |-> DistUp(parents, a, b),             \* distance_to_ancestor(a, b), -1 = None
    uppaths |-> UpPaths(a, b),                     \* allowed results of path_to_ancestor(a, b)
    dist    |-> Dist(parents, a, b),
    paths   |-> TermPathsLineage(a, b),            \* allowed results of path_to_term(a, b) (lineage shortcut, see above)
    common      |-> Sorted(CommonAnc(parents, a, b)),       \* common_ancestor_ids (without the terms)
    commonself  |-> Sorted(CommonAncSelf(parents, a, b)),   \* all_common_ancestor_ids
    union       |-> Sorted(UnionAnc(parents, a, b)) ]       \* union_ancestor_ids / all_union_ancestor_ids

PathPairs ==
  LET n == Len(arena) IN
  [i \in 1..(n * n) |-> PathPair(arena[((i - 1) \div n) + 1], arena[((i - 1) % n) + 1])]

(* every allowed path has the right length and walks along is_a edges *)
PathsWellFormed ==
  \A a, b \in Terms :
     /\ \A p \in UpPaths(a, b) : Len(p) = DistUp(parents, a, b)
     /\ (a # b) => \A p \in TermPaths(a, b) : Len(p) = Dist(parents, a, b) /\ p[Len(p)] = b
     /\ (UpPaths(a, b) = {}) <=> (b \notin AncSelf(parents, a))
     /\ (TermPaths(a, b) = {}) <=> (CommonAncSelf(parents, a, b) = {})

(* --- sets of terms --- *)
ChildNodes(S) == {t \in S : ~\E u \in S : t \in Anc(parents, u)}
SetLinked(k, S) == UNION {LinkedTo(k, t) : t \in S}

SetInfo(S) ==
  [ set   |-> Sorted(S),
    child |-> Sorted(ChildNodes(S)),
    gene  |-> Sorted(SetLinked("gene", S)),
    omim  |-> Sorted(SetLinked("omim", S)),
    orpha |-> Sorted(SetLinked("orpha", S)),
    icgene |-> <<Cardinality(SetLinked("gene", S)), Cardinality(DOMAIN rec["gene"])>>,
    icomim |-> <<Cardinality(SetLinked("omim", S)), Cardinality(DOMAIN rec["omim"])>> ]

SetInfos == LET subs == SetToSeq(SUBSET Terms) IN [i \in 1..Len(subs) |-> SetInfo(subs[i])]

ChildNodesSane ==
  \A S \in SUBSET Terms :
     /\ ChildNodes(S) \subseteq S
     /\ (S # {}) => ChildNodes(S) # {}
     /\ \A k \in Kinds : SetLinked(k, ChildNodes(S)) \subseteq SetLinked(k, S)

=============================================================================
