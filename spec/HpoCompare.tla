------------------------------ MODULE HpoCompare ------------------------------
(***************************************************************************)
(* Growth beyond the listed properties: Ontology::compare(lhs, rhs) as set *)
(* differences of two abstract ontology values (schema of HpoBinary).      *)
(*   added / removed terms and records: by id;                             *)
(*   changed term: same id, and name, direct parents, obsolete flag or     *)
(*     EFFECTIVE replacement differ.  The crate compares replaced_by(),    *)
(*     which resolves the replacement id inside the same ontology, so a    *)
(*     replacement pointing to a term that does not exist counts as none;  *)
(*   changed record: same id, and name or direct terms differ.             *)
(***************************************************************************)
EXTENDS OntGen

TermIdsOf(o) == {o.terms[i].id : i \in 1..Len(o.terms)}
TermOf(o, id) == CHOOSE t \in Range(o.terms) : t.id = id
ParentsIn(o, id) == Range((CHOOSE p \in Range(o.parents) : p.id = id).parents)
EffRepl(o, id) == LET r == TermOf(o, id).repl IN IF r \in TermIdsOf(o) THEN r ELSE 0

AddedTerms(l, r)   == TermIdsOf(r) \ TermIdsOf(l)
RemovedTerms(l, r) == TermIdsOf(l) \ TermIdsOf(r)

TermDelta(l, r, id) ==
  [ id |-> id,
    name_changed |-> TermOf(l, id).name # TermOf(r, id).name,
    added_parents   |-> Sorted(ParentsIn(r, id) \ ParentsIn(l, id)),
    removed_parents |-> Sorted(ParentsIn(l, id) \ ParentsIn(r, id)),
    obsolete |-> <<TermOf(l, id).obsolete, TermOf(r, id).obsolete>>,
    repl     |-> <<EffRepl(l, id), EffRepl(r, id)>> ]

IsChange(d) == d.name_changed \/ d.added_parents # <<>> \/ d.removed_parents # <<>>
               \/ d.obsolete[1] # d.obsolete[2] \/ d.repl[1] # d.repl[2]

ChangedTerms(l, r) == {d \in {TermDelta(l, r, id) : id \in TermIdsOf(l) \cap TermIdsOf(r)} : IsChange(d)}

RecIdsOf(rs) == {rs[i].id : i \in 1..Len(rs)}
RecOf(rs, id) == CHOOSE x \in Range(rs) : x.id = id
RecDelta(ls, rs, id) ==
  [ id |-> id,
    name_changed |-> RecOf(ls, id).name # RecOf(rs, id).name,
    added   |-> Sorted(Range(RecOf(rs, id).terms) \ Range(RecOf(ls, id).terms)),
    removed |-> Sorted(Range(RecOf(ls, id).terms) \ Range(RecOf(rs, id).terms)),
    n |-> <<Len(RecOf(ls, id).terms), Len(RecOf(rs, id).terms)>> ]
ChangedRecs(ls, rs) ==
  {d \in {RecDelta(ls, rs, id) : id \in RecIdsOf(ls) \cap RecIdsOf(rs)} : d.name_changed \/ d.added # <<>> \/ d.removed # <<>>}

Compare(l, r) ==
  [ added_terms   |-> Sorted(AddedTerms(l, r)),
    removed_terms |-> Sorted(RemovedTerms(l, r)),
    changed_terms |-> SetToSeq(ChangedTerms(l, r)),
    gene  |-> [added |-> Sorted(RecIdsOf(r.gene) \ RecIdsOf(l.gene)),   removed |-> Sorted(RecIdsOf(l.gene) \ RecIdsOf(r.gene)),   changed |-> SetToSeq(ChangedRecs(l.gene, r.gene))],
    omim  |-> [added |-> Sorted(RecIdsOf(r.omim) \ RecIdsOf(l.omim)),   removed |-> Sorted(RecIdsOf(l.omim) \ RecIdsOf(r.omim)),   changed |-> SetToSeq(ChangedRecs(l.omim, r.omim))],
    orpha |-> [added |-> Sorted(RecIdsOf(r.orpha) \ RecIdsOf(l.orpha)), removed |-> Sorted(RecIdsOf(l.orpha) \ RecIdsOf(r.orpha)), changed |-> SetToSeq(ChangedRecs(l.orpha, r.orpha))] ]

(* comparing an ontology with itself reports nothing; swapping the sides swaps added and removed *)
CompareLaws(l, r) ==
  /\ Compare(l, l).added_terms = <<>> /\ Compare(l, l).changed_terms = <<>> /\ Compare(l, l).gene.changed = <<>>
  /\ Compare(l, r).added_terms = Compare(r, l).removed_terms
  /\ Compare(l, r).gene.added = Compare(r, l).gene.removed
  /\ Cardinality(ChangedTerms(l, r)) = Cardinality(ChangedTerms(r, l))

=============================================================================
