------------------------------- MODULE HpoExport -------------------------------
(***************************************************************************)
(* Growth: the two diagram exports of an ontology, as STRUCTURED output    *)
(* (the harness splits the text the crate produces into lines and fields). *)
(*                                                                         *)
(*  as_mermaid():  first line "graph TD"; per term one node line           *)
(*        <id>["<id>\n<name>"]   and one edge line   <id> --> <child id>  *)
(*        per direct child.  Nodes = all terms, edges = the child relation *)
(*        (= the parent relation read backwards).                          *)
(*  as_graphviz(layout): "digraph G  {", "layout=<layout>", one line       *)
(*        "<parent name>" -> "<child name>"  per edge, every blank of a    *)
(*        name replaced by a line break, then "}".  Terms are identified   *)
(*        by NAME here, so the edge list is a BAG of name pairs.           *)
(* The order of the lines follows the iteration order of the ontology,     *)
(* which is not specified: node / edge lines are compared as bags.         *)
(***************************************************************************)
EXTENDS OntGen

ETerms(o) == Range(o.terms)
EIds(o) == {t.id : t \in ETerms(o)}
EPar(o) == [t \in EIds(o) |-> Range((CHOOSE q \in Range(o.parents) : q.id = t).parents)]
EName(o, id) == (CHOOSE t \in ETerms(o) : t.id = id).name

(* every is_a link, as <<parent, child>> *)
EEdges(o) == {<<p, c>> \in EIds(o) \X EIds(o) : p \in EPar(o)[c]}

MermaidNodes(o) == {[id |-> t.id, name |-> t.name] : t \in ETerms(o)}
MermaidEdges(o) == EEdges(o)

(* a name as graphviz prints it: every blank becomes a line break *)
NL(name) == [i \in 1..Len(name) |-> IF name[i] = <<32>> THEN <<10>> ELSE name[i]]
EdgeSeq(o) == SetToSortSeq(EEdges(o), LAMBDA a, b : a[1] < b[1] \/ (a[1] = b[1] /\ a[2] < b[2]))
GraphvizEdges(o) == [i \in 1..Len(EdgeSeq(o)) |-> <<NL(EName(o, EdgeSeq(o)[i][1])), NL(EName(o, EdgeSeq(o)[i][2]))>>]

Export(o) ==
  [ nodes |-> SetToSeq(MermaidNodes(o)),
    edges |-> EdgeSeq(o),
    gv    |-> GraphvizEdges(o) ]

(* one edge line per is_a link in both exports; a term without links appears in mermaid only *)
ExportLaws(o) ==
  /\ Cardinality(MermaidNodes(o)) = Len(o.terms)
  /\ Cardinality(MermaidEdges(o)) = Len(GraphvizEdges(o))
  /\ \A e \in MermaidEdges(o) : e[1] # e[2]
  /\ \A i \in 1..Len(GraphvizEdges(o)) : \A j \in 1..2 : \A k \in 1..Len(GraphvizEdges(o)[i][j]) : GraphvizEdges(o)[i][j][k] # <<32>>
=============================================================================
