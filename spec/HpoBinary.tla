----------------------------- MODULE HpoBinary -----------------------------
(***************************************************************************)
(* The hpo binary file format, versions 1, 2 and 3, written from the       *)
(* documented layout (NOT from the crate's reader or writer):              *)
(*                                                                         *)
(*   v1:     [terms][parents][genes][omim]                                 *)
(*   v2:  "HPO" 2 year(u16) month(u8) day(u8) [terms][parents][genes][omim]*)
(*   v3:  "HPO" 3 year(u16) month(u8) day(u8) [terms][parents][genes][omim]*)
(*                                                             [orpha]     *)
(*   [section] = length(u32) payload;  all integers big endian             *)
(*   term v1   = total(u32) id(u32) nlen(u8) name                          *)
(*   term v2+  = total(u32) id(u32) nlen(u8) name flags(u8) replacement(u32)*)
(*               flags bit 0 = obsolete; replacement 0 = none              *)
(*   parents   = n(u32) id(u32) parent(u32)*n                              *)
(*   gene      = total(u32) id(u32) nlen(u8)  name n(u32) term(u32)*n      *)
(*   disease   = total(u32) id(u32) nlen(u32) name n(u32) term(u32)*n      *)
(*                                                                         *)
(* A NAME is a sequence of characters, a character being its UTF-8 byte    *)
(* sequence (<<97>>, <<195,169>>, <<240,159,152,128>>).  Term and gene     *)
(* names are limited to 255 bytes; Trim255 keeps the longest prefix of     *)
(* WHOLE characters that fits - the only reading of "trimmed to 255"       *)
(* under which the writer never emits bytes the loader rejects.            *)
(*                                                                         *)
(* An abstract ontology value o (what a file describes):                   *)
(*   [ version |-> <<y,m,d>>,                                              *)
(*     terms   |-> Seq [id, name, obsolete, repl],      (file order)       *)
(*     parents |-> Seq [id, parents (Seq ids)],         (file order)       *)
(*     gene / omim / orpha |-> Seq [id, name, terms (Seq ids)] ]           *)
(***************************************************************************)
EXTENDS Integers, Sequences, FiniteSets, SequencesExt, FiniteSetsExt, Functions

Reject == [ok |-> FALSE]      \* every reader returns a record with an ok flag

---------------------------------------------------------------------------
(* text *)
NameBytes(nm) == FlattenSeq(nm)
RECURSIVE ByteLen(_)
ByteLen(nm) == IF nm = <<>> THEN 0 ELSE Len(nm[1]) + ByteLen(SubSeq(nm, 2, Len(nm)))

(* longest prefix of whole characters with at most 255 bytes *)
RECURSIVE TrimFrom(_, _, _)
TrimFrom(nm, i, used) ==
  IF i > Len(nm) THEN nm
  ELSE IF used + Len(nm[i]) > 255 THEN SubSeq(nm, 1, i - 1)
  ELSE TrimFrom(nm, i + 1, used + Len(nm[i]))
Trim255(nm) == TrimFrom(nm, 1, 0)

(* bytes -> characters; Reject if not well formed UTF-8 (structure only) *)
CharLen(b) == IF b < 128 THEN 1 ELSE IF b \in 194..223 THEN 2 ELSE IF b \in 224..239 THEN 3
              ELSE IF b \in 240..244 THEN 4 ELSE 0
RECURSIVE Utf8Chars(_, _, _)
Utf8Chars(bs, p, acc) ==
  IF p > Len(bs) THEN [ok |-> TRUE, name |-> acc]
  ELSE LET n == CharLen(bs[p]) IN
       IF n = 0 \/ p + n - 1 > Len(bs) THEN Reject
       ELSE IF \E j \in 1..(n - 1) : bs[p + j] \notin 128..191 THEN Reject
       ELSE Utf8Chars(bs, p + n, Append(acc, SubSeq(bs, p, p + n - 1)))

---------------------------------------------------------------------------
(* integers *)
U16(n) == <<n \div 256, n % 256>>
U32(n) == <<n \div 16777216, (n \div 65536) % 256, (n \div 256) % 256, n % 256>>
FlatU32(s) == FlattenSeq([i \in 1..Len(s) |-> U32(s[i])])

---------------------------------------------------------------------------
(* encoder *)
EncTerm(t, v) ==
  LET nb == NameBytes(Trim255(t.name)) IN
  IF v = 1 THEN U32(9 + Len(nb)) \o U32(t.id) \o <<Len(nb)>> \o nb
  ELSE U32(14 + Len(nb)) \o U32(t.id) \o <<Len(nb)>> \o nb
       \o <<IF t.obsolete THEN 1 ELSE 0>> \o U32(t.repl)

EncParents(p) == U32(Len(p.parents)) \o U32(p.id) \o FlatU32(p.parents)

EncGene(g) ==
  LET nb == NameBytes(Trim255(g.name)) IN
  U32(13 + Len(nb) + 4 * Len(g.terms)) \o U32(g.id) \o <<Len(nb)>> \o nb
  \o U32(Len(g.terms)) \o FlatU32(g.terms)

EncDisease(d) ==
  LET nb == NameBytes(d.name) IN
  U32(16 + Len(nb) + 4 * Len(d.terms)) \o U32(d.id) \o U32(Len(nb)) \o nb
  \o U32(Len(d.terms)) \o FlatU32(d.terms)

Section(recs) == LET body == FlattenSeq(recs) IN U32(Len(body)) \o body

Header(o, v) == IF v = 1 THEN <<>> ELSE <<72, 80, 79, v>> \o U16(o.version[1]) \o <<o.version[2], o.version[3]>>

Encode(o, v) ==
  Header(o, v)
  \o Section([i \in 1..Len(o.terms)   |-> EncTerm(o.terms[i], v)])
  \o Section([i \in 1..Len(o.parents) |-> EncParents(o.parents[i])])
  \o Section([i \in 1..Len(o.gene)    |-> EncGene(o.gene[i])])
  \o Section([i \in 1..Len(o.omim)    |-> EncDisease(o.omim[i])])
  \o (IF v = 3 THEN Section([i \in 1..Len(o.orpha) |-> EncDisease(o.orpha[i])]) ELSE <<>>)

(* what a file of version v can carry of o *)
RestrictV(o, v) ==
  [ version |-> IF v = 1 THEN <<0, 0, 0>> ELSE o.version,
    terms   |-> [i \in 1..Len(o.terms) |->
                   [ id |-> o.terms[i].id, name |-> Trim255(o.terms[i].name),
                     obsolete |-> IF v = 1 THEN FALSE ELSE o.terms[i].obsolete,
                     repl |-> IF v = 1 THEN 0 ELSE o.terms[i].repl ]],
    parents |-> o.parents,
    gene    |-> [i \in 1..Len(o.gene) |-> [o.gene[i] EXCEPT !.name = Trim255(@)]],
    omim    |-> o.omim,
    orpha   |-> IF v = 3 THEN o.orpha ELSE <<>> ]

(* order of records inside a section is irrelevant *)
Canon(o) ==
  IF "ok" \in DOMAIN o /\ ~o.ok THEN Reject
  ELSE [ version |-> o.version,
         terms   |-> Range(o.terms),
         parents |-> {[id |-> p.id, parents |-> Range(p.parents)] : p \in {q \in Range(o.parents) : q.parents # <<>>}},
         gene    |-> {[id |-> g.id, name |-> g.name, terms |-> Range(g.terms)] : g \in Range(o.gene)},
         omim    |-> {[id |-> g.id, name |-> g.name, terms |-> Range(g.terms)] : g \in Range(o.omim)},
         orpha   |-> {[id |-> g.id, name |-> g.name, terms |-> Range(g.terms)] : g \in Range(o.orpha)} ]

---------------------------------------------------------------------------
(* decoder: positions are 1-based; every reader returns Reject on any      *)
(* inconsistency                                                           *)
Avail(b, p, n) == p + n - 1 <= Len(b)
RdU32(b, p) == b[p] * 16777216 + b[p + 1] * 65536 + b[p + 2] * 256 + b[p + 3]
OkU32(b, p) == Avail(b, p, 4) /\ b[p] < 128        \* fits TLC's 32 bit integers

RECURSIVE RdIds(_, _, _, _)
RdIds(b, p, n, acc) == IF n = 0 THEN acc ELSE RdIds(b, p + 4, n - 1, Append(acc, RdU32(b, p)))

(* records of one section: b[p..to], parsed by Rd(b, p, to) which returns  *)
(* [ok, rec, next]                                                         *)
RECURSIVE RdRecords(_, _, _, _, _)
RdRecords(b, p, to, Rd(_, _, _), acc) ==
  IF p = to + 1 THEN [ok |-> TRUE, recs |-> acc]
  ELSE LET r == Rd(b, p, to) IN
       IF ~r.ok THEN Reject ELSE RdRecords(b, r.next, to, Rd, Append(acc, r.rec))

Got(rec, next) == [ok |-> TRUE, rec |-> rec, next |-> next]

RdTerm(v, b, p, to) ==
  IF ~(p + 8 <= to /\ OkU32(b, p) /\ OkU32(b, p + 4)) THEN Reject
  ELSE LET total == RdU32(b, p)
           nl    == b[p + 8]
           fixed == IF v = 1 THEN 9 ELSE 14
       IN IF total # fixed + nl \/ p + total - 1 > to THEN Reject
          ELSE LET nm == Utf8Chars(SubSeq(b, p + 9, p + 8 + nl), 1, <<>>) IN
               IF ~nm.ok THEN Reject
               ELSE IF v = 1
                    THEN Got([id |-> RdU32(b, p + 4), name |-> nm.name, obsolete |-> FALSE, repl |-> 0], p + total)
                    ELSE IF ~(b[p + 9 + nl] \in {0, 1} /\ b[p + 10 + nl] < 128) THEN Reject
                    ELSE Got([id |-> RdU32(b, p + 4), name |-> nm.name, obsolete |-> b[p + 9 + nl] = 1,
                              repl |-> RdU32(b, p + 10 + nl)], p + total)

RdParents(b, p, to) ==
  IF ~(p + 7 <= to /\ OkU32(b, p) /\ OkU32(b, p + 4)) THEN Reject
  ELSE LET n == RdU32(b, p) IN
       IF p + 8 + 4 * n - 1 > to THEN Reject
       ELSE IF \E j \in 0..(n - 1) : b[p + 8 + 4 * j] >= 128 THEN Reject
       ELSE Got([id |-> RdU32(b, p + 4), parents |-> RdIds(b, p + 8, n, <<>>)], p + 8 + 4 * n)

RdGene(b, p, to) ==
  IF ~(p + 12 <= to /\ OkU32(b, p) /\ OkU32(b, p + 4)) THEN Reject
  ELSE LET total == RdU32(b, p)
           nl    == b[p + 8]
       IN IF total < 13 + nl \/ p + total - 1 > to \/ ~OkU32(b, p + 9 + nl) THEN Reject
          ELSE LET n  == RdU32(b, p + 9 + nl)
                   nm == Utf8Chars(SubSeq(b, p + 9, p + 8 + nl), 1, <<>>)
               IN IF total # 13 + nl + 4 * n \/ ~nm.ok THEN Reject
                  ELSE IF \E j \in 0..(n - 1) : b[p + 13 + nl + 4 * j] >= 128 THEN Reject
                  ELSE Got([id |-> RdU32(b, p + 4), name |-> nm.name, terms |-> RdIds(b, p + 13 + nl, n, <<>>)], p + total)

RdDisease(b, p, to) ==
  IF ~(p + 15 <= to /\ OkU32(b, p) /\ OkU32(b, p + 4) /\ OkU32(b, p + 8)) THEN Reject
  ELSE LET total == RdU32(b, p)
           nl    == RdU32(b, p + 8)
       IN IF total < 16 + nl \/ p + total - 1 > to \/ ~OkU32(b, p + 12 + nl) THEN Reject
          ELSE LET n  == RdU32(b, p + 12 + nl)
                   nm == Utf8Chars(SubSeq(b, p + 12, p + 11 + nl), 1, <<>>)
               IN IF total # 16 + nl + 4 * n \/ ~nm.ok THEN Reject
                  ELSE IF \E j \in 0..(n - 1) : b[p + 16 + nl + 4 * j] >= 128 THEN Reject
                  ELSE Got([id |-> RdU32(b, p + 4), name |-> nm.name, terms |-> RdIds(b, p + 16 + nl, n, <<>>)], p + total)

(* one section starting at p: [ok, recs, next] *)
RdSection(b, p, Rd(_, _, _)) ==
  IF ~OkU32(b, p) THEN Reject
  ELSE LET n == RdU32(b, p) IN
       IF ~Avail(b, p + 4, n) THEN Reject
       ELSE LET rs == RdRecords(b, p + 4, p + 3 + n, Rd, <<>>) IN
            IF ~rs.ok THEN Reject ELSE [ok |-> TRUE, recs |-> rs.recs, next |-> p + 4 + n]

DecodeBody(b, start, v, version) ==
  LET s1 == RdSection(b, start, LAMBDA x, y, z : RdTerm(v, x, y, z)) IN
  IF ~s1.ok THEN Reject ELSE
  LET s2 == RdSection(b, s1.next, RdParents) IN
  IF ~s2.ok THEN Reject ELSE
  LET s3 == RdSection(b, s2.next, RdGene) IN
  IF ~s3.ok THEN Reject ELSE
  LET s4 == RdSection(b, s3.next, RdDisease) IN
  IF ~s4.ok THEN Reject ELSE
  LET s5 == IF v = 3 THEN RdSection(b, s4.next, RdDisease) ELSE [ok |-> TRUE, recs |-> <<>>, next |-> s4.next] IN
  IF ~s5.ok THEN Reject ELSE
  IF s5.next # Len(b) + 1 THEN Reject            \* nothing may follow the last section
  ELSE LET ids == {s1.recs[i].id : i \in 1..Len(s1.recs)}
           refs == UNION ({ {r.id} \cup Range(r.parents) : r \in Range(s2.recs) }
                          \cup { Range(r.terms) : r \in Range(s3.recs) \cup Range(s4.recs) \cup Range(s5.recs) })
       IN IF ~(refs \subseteq ids) THEN Reject     \* every referenced term must exist
          ELSE [ ok |-> TRUE, version |-> version, terms |-> s1.recs, parents |-> s2.recs,
                 gene |-> s3.recs, omim |-> s4.recs, orpha |-> s5.recs ]

Decode(b) ==
  IF Len(b) < 5 THEN Reject
  ELSE IF SubSeq(b, 1, 3) = <<72, 80, 79>>
       THEN IF b[4] \in {2, 3} /\ Len(b) >= 8
            THEN DecodeBody(b, 9, b[4], <<b[5] * 256 + b[6], b[7], b[8]>>)
            ELSE Reject
       ELSE DecodeBody(b, 1, 1, <<0, 0, 0>>)

---------------------------------------------------------------------------
(* The format is self-delimiting: theorems TLC checks on concrete files.   *)
RoundTrip(o, v) == Canon(Decode(Encode(o, v))) = Canon(RestrictV(o, v))
PrefixesRejected(f) == \A i \in 0..(Len(f) - 1) : ~Decode(SubSeq(f, 1, i)).ok
ExtensionRejected(f, suffix) == suffix = <<>> \/ ~Decode(f \o suffix).ok
VersionByteRejected(f, x) == (Len(f) > 4 /\ SubSeq(f, 1, 3) = <<72, 80, 79>> /\ x \notin {2, 3})
                                => ~Decode([f EXCEPT ![4] = x]).ok

=============================================================================
