------------------------------- MODULE HpoSim -------------------------------
(***************************************************************************)
(* Query layer, part 1: the STRUCTURAL arguments of the eight built-in     *)
(* term similarities for an ordered pair (a, b) of terms of the current    *)
(* builder state, and exact rational scores where the formula is rational. *)
(* The transcendental part (ln, exp, f32 rounding) is evaluated by the     *)
(* conformance harness from these arguments with this table:               *)
(*                                                                         *)
(*   IC_k(t)   = -ln(n/N), n = |LinkedTo(k,t)|, N = |records of kind k|,   *)
(*               0 if n = 0 or N = 0                                       *)
(*   Resnik    = max {IC(c) : c in CommonAncSelf(a,b)}, 0 if empty         *)
(*   GraphIC   = 1 if a = b; else sum IC(CommonAncSelf) / sum IC(UnionAnc),*)
(*               0 if the denominator is 0                                 *)
(*   Lin       = 2 Resnik / (IC(a)+IC(b)), 0 if the denominator is 0       *)
(*   JC        = 1 if a = b; 0 if IC(a) = 0 or IC(b) = 0;                  *)
(*               else 1 / (IC(a)+IC(b) - 2 Resnik + 1)                     *)
(*   Relevance = Lin (1 - exp(-Resnik))                                    *)
(*   InfCoeff  = Lin (1 - 1/(1+Resnik))                                    *)
(*   Distance  = 1 / (Dist(a,b)+1), 0 if there is no common ancestor       *)
(*   Mutation  = 1 if a = b; else |ann_a /\ ann_b| / |ann_a \/ ann_b|,     *)
(*               0 if the union is empty                                   *)
(***************************************************************************)
EXTENDS HpoCore

SimPair(a, b) ==
  LET G(k) == <<Cardinality(LinkedTo(k, a) \cap LinkedTo(k, b)),
                Cardinality(LinkedTo(k, a) \cup LinkedTo(k, b))>>
  IN [ a      |-> a,
       b      |-> b,
       common |-> Sorted(CommonAncSelf(parents, a, b)),
       union  |-> Sorted(UnionAnc(parents, a, b)),
       dist   |-> Dist(parents, a, b),
       gene   |-> G("gene"),
       omim   |-> G("omim"),
       orpha  |-> G("orpha") ]

(* all ordered pairs, in arena order *)
SimPairs ==
  LET n == Len(arena) IN
  [i \in 1..(n * n) |-> SimPair(arena[((i - 1) \div n) + 1], arena[((i - 1) % n) + 1])]

(* exact rational scores <<num, den>> *)
DistanceScore(a, b) ==
  LET d == Dist(parents, a, b) IN IF d = NoDist THEN <<0, 1>> ELSE <<1, d + 1>>
MutationScore(k, a, b) ==
  LET g == SimPair(a, b)[k] IN
  IF a = b THEN <<1, 1>> ELSE IF g[2] = 0 THEN <<0, 1>> ELSE g

-----------------------------------------------------------------------------
(* Lemmas TLC checks on every pair of every explored state: the arguments  *)
(* are symmetric (so every score is), and bounded as the property states.  *)
SimSymmetric ==
  \A a, b \in Terms :
     LET p == SimPair(a, b) q == SimPair(b, a) IN
       /\ p.common = q.common /\ p.union = q.union /\ p.dist = q.dist
       /\ p.gene = q.gene /\ p.omim = q.omim /\ p.orpha = q.orpha
SimBounds ==
  \A a, b \in Terms :
     LET p == SimPair(a, b) IN
       /\ p.gene[1] <= p.gene[2] /\ p.omim[1] <= p.omim[2] /\ p.orpha[1] <= p.orpha[2]
       /\ (a = b) => p.dist = 0
       /\ (p.dist = NoDist) <=> (p.common = <<>>)
       /\ (a # b) => Range(p.common) \subseteq Range(p.union) \cup {a, b}
       /\ (a # b) => CommonAncSelf(parents, a, b) \subseteq UnionAnc(parents, a, b)  \* GraphIC <= 1
       \* an ancestor is never farther away than its upward distance - but it CAN be nearer: from 5 terms on a route
       \* over a higher common ancestor may be shorter than the parent chain (a->x->y->b next to a->c<-b); TLC refutes
       \* "= DistUp" at 5 ids, which is how finding F3 (path_to_term) was first seen
       /\ (b \in Anc(parents, a)) => (p.dist # NoDist /\ p.dist <= DistUp(parents, a, b))
(* Dist is a shortest path length: the triangle inequality through any     *)
(* common ancestor, and no common ancestor gives a shorter sum             *)
DistIsMin ==
  \A a, b \in Terms : \A c \in CommonAncSelf(parents, a, b) :
     Dist(parents, a, b) <= DistUp(parents, a, c) + DistUp(parents, b, c)

=============================================================================
