---------------------------- MODULE HpoSetMachine ----------------------------
(***************************************************************************)
(* C13 as a STATE MACHINE: one HpoSet object that lives through a sequence *)
(* of operations.                                                          *)
(*                                                                         *)
(* The pure operators of HpoSetOps / HpoSetMeta say what each operation    *)
(* returns for a given member set.  An HpoSet is also an object with       *)
(* in-place operations; "each in-place operation yields the same set as    *)
(* its copying counterpart" and "the aggregated information content is     *)
(* -ln(|union|/N)" are then statements about EVERY point of EVERY history  *)
(* of that object: after any earlier operations and observations the next  *)
(* observation is the pure function of the CURRENT members.  (A cached     *)
(* aggregate that survives an in-place change, or an in-place replacement  *)
(* that feeds already replaced members back into the loop, is a wrong      *)
(* history, while each single call on a fresh object is still right.)      *)
(*                                                                         *)
(* World: an ontology value in the schema of HpoBinary / OntGen (terms     *)
(* with obsolete flag and replacement id, parents, gene / OMIM / ORPHA     *)
(* records with direct terms), loaded by from_bytes, i.e. with the         *)
(* documented default modifier roots and categories.                       *)
(*                                                                         *)
(* State:  members  - the current set of term ids                          *)
(*         hist     - operations performed so far (history, for replay)    *)
(* Operations (one action each):                                           *)
(*   in place : remove_modifier, remove_obsolete, replace_obsolete,        *)
(*              extend(t)                                                  *)
(*   copying  : child_nodes, without_modifier, without_obsolete,           *)
(*              with_replaced_obsolete  - the object under observation     *)
(*              becomes the returned set, the original must be unchanged   *)
(* Observation after every step (Obs): members in ascending order, gene /  *)
(* OMIM / ORPHA id unions (inherited links of the members), the arguments  *)
(* (n, N) of the aggregated information content for genes and OMIM,        *)
(* category counts.                                                        *)
(***************************************************************************)
EXTENDS HpoSetMeta

CONSTANTS World,      \* the ontology value (OntGen schema)
          MaxOps,     \* length of the explored histories
          ExtendIds   \* ids that extend() may add

VARIABLES members,   \* the current member set of the object
          hist,      \* operations performed so far, each with the observation that must follow it
          start      \* the member set the object was created with

smVars == <<members, hist, start>>

Kinds == {"gene", "omim", "orpha"}

WIds == IdsOf(World)
WPar == ParOf(World)

Replacement(t) == MetaOf(World, t).repl          \* 0 = none
ReplIn(t) == IF Replacement(t) # 0 THEN Replacement(t) ELSE t

(* inherited links of one term: records directly annotated to the term or a descendant *)
RecsOfKind(k) == IF k = "gene" THEN World.gene ELSE IF k = "omim" THEN World.omim ELSE World.orpha
LinkedW(k, t) == {r.id : r \in {q \in Range(RecsOfKind(k)) : Range(q.terms) \cap DescSelf(WPar, t) # {}}}
SetLinkedW(k, S) == UNION {LinkedW(k, t) : t \in S}
NRecs(k) == Cardinality({r.id : r \in Range(RecsOfKind(k))})

(* the pure meaning of every operation on a member set *)
OpResult(op, S) ==
  CASE op.name \in {"remove_modifier", "without_modifier"}   -> WithoutModifier(World, S)
    [] op.name \in {"remove_obsolete", "without_obsolete"}   -> WithoutObsolete(World, S)
    [] op.name \in {"replace_obsolete", "with_replaced_obsolete"} -> {ReplIn(t) : t \in S}
    [] op.name = "child_nodes"                               -> {t \in S : ~\E u \in S : t \in Anc(WPar, u)}
    [] op.name = "extend"                                    -> S \cup {op.arg}

InPlace == {"remove_modifier", "remove_obsolete", "replace_obsolete"}
Copying == {"child_nodes", "without_modifier", "without_obsolete", "with_replaced_obsolete"}
Ops == {[name |-> n, arg |-> 0] : n \in InPlace \cup Copying} \cup {[name |-> "extend", arg |-> t] : t \in ExtendIds}

Obs(S) ==
  [ members |-> Sorted(S),
    genes |-> Sorted(SetLinkedW("gene", S)),
    omim  |-> Sorted(SetLinkedW("omim", S)),
    orpha |-> Sorted(SetLinkedW("orpha", S)),
    ic_gene |-> <<Cardinality(SetLinkedW("gene", S)), NRecs("gene")>>,
    ic_omim |-> <<Cardinality(SetLinkedW("omim", S)), NRecs("omim")>>,
    categories |-> LET f == SetCategories(World, S) ks == Sorted(DOMAIN f) IN [i \in 1..Len(ks) |-> <<ks[i], f[ks[i]]>>] ]

SMInit == members \in SUBSET WIds /\ hist = <<>> /\ start = members

Apply(op) ==
  /\ Len(hist) < MaxOps
  /\ OpResult(op, members) \subseteq WIds        \* a replacement that leaves the ontology cannot be observed (HpoSetMeta covers it)
  /\ members' = OpResult(op, members)
  /\ hist' = Append(hist, [op |-> op, obs |-> Obs(members')])
  /\ UNCHANGED start

SMNext == \E op \in Ops : Apply(op)

SMSpec == SMInit /\ [][SMNext]_smVars

-----------------------------------------------------------------------------
(* what a caller relies on, in every reachable state *)
TypeOK == members \subseteq WIds

(* filters only remove, replacement never grows the set, filters are idempotent *)
StepLaws ==
  [][\A op \in Ops : (hist' # hist /\ hist'[Len(hist')].op = op) =>
        /\ (op.name \in {"remove_modifier", "without_modifier", "remove_obsolete", "without_obsolete", "child_nodes"}) =>
              (members' \subseteq members /\ OpResult(op, members') = members')
        /\ (op.name \in {"replace_obsolete", "with_replaced_obsolete"}) => Cardinality(members') <= Cardinality(members)
        /\ (op.name = "extend") => members' = members \cup {op.arg}]_smVars

(* the aggregates are monotone in the member set and determined by the child nodes *)
AggregateLaws ==
  /\ \A k \in Kinds : SetLinkedW(k, OpResult([name |-> "child_nodes", arg |-> 0], members)) \subseteq SetLinkedW(k, members)
  /\ \A t \in members : \A k \in Kinds : LinkedW(k, t) \subseteq SetLinkedW(k, members)
  /\ Cardinality(SetLinkedW("gene", members)) <= NRecs("gene")
  /\ Cardinality(SetLinkedW("omim", members)) <= NRecs("omim")

=============================================================================
