---------------------------- MODULE HpoSetMachine ----------------------------
(***************************************************************************)
(* C13 as a STATE MACHINE: one HpoSet object that lives through a sequence *)
(* of operations.                                                          *)
(*                                                                         *)
(* The pure operators of HpoSetOps / HpoSetMeta say what each operation    *)
(* returns for a given member set.  An HpoSet is also an object with       *)
(* in-place operations; "each in-place operation yields the same set as    *)
(* its copying counterpart" and "the aggregated information content is     *)
(* -ln(|union|/N)" are then statements about EVERY point of EVERY history  *)
(* of that object: after any earlier operations and observations the next  *)
(* observation is the pure function of the CURRENT members.  (A cached     *)
(* aggregate that survives an in-place change, or an in-place replacement  *)
(* that feeds already replaced members back into the loop, is a wrong      *)
(* history, while each single call on a fresh object is still right.)      *)
(*                                                                         *)
(* World: an ontology value in the schema of HpoBinary / OntGen (terms     *)
(* with obsolete flag and replacement id, parents, gene / OMIM / ORPHA     *)
(* records with direct terms), loaded by from_bytes, i.e. with the         *)
(* documented default modifier roots and categories.                       *)
(*                                                                         *)
(* State:  members  - the current set of term ids                          *)
(*         hist     - operations performed so far (history, for replay)    *)
(* Operations (one action each):                                           *)
(*   in place : remove_modifier, remove_obsolete, replace_obsolete,        *)
(*              extend(t)                                                  *)
(*   copying  : child_nodes, without_modifier, without_obsolete,           *)
(*              with_replaced_obsolete  - the object under observation     *)
(*              becomes the returned set, the original must be unchanged   *)
(* Observation after every step (Obs): members in ascending order, gene /  *)
(* OMIM / ORPHA id unions (inherited links of the members), the arguments  *)
(* (n, N) of the aggregated information content for genes and OMIM,        *)
(* category counts.                                                        *)
(***************************************************************************)
EXTENDS HpoSetMeta

CONSTANTS World,      \* the ontology value (OntGen schema)
          MaxOps,     \* length of the explored histories
          ExtendIds,  \* ids that extend() may add
          InitSets    \* the member sets an object may be created with (every subset of the term ids for the small worlds)

VARIABLES members,   \* the current member set of the object
          hist,      \* operations performed so far, each with the observation that must follow it
          start      \* the member set the object was created with

smVars == <<members, hist, start>>

Kinds == {"gene", "omim", "orpha"}

WIds == IdsOf(World)
WPar == ParOf(World)

(* Tables over the (constant) world: TLC evaluates a constant definition without parameters once, so the graph     *)
(* closures below are not recomputed for every member of every set of every state (the 44-term world needs that). *)
MetaTab    == [t \in WIds |-> MetaOf(World, t)]
AncTab     == [t \in WIds |-> Anc(WPar, t)]
DescSelfTab == [t \in WIds |-> DescSelf(WPar, t)]
WModRoots  == ModRoots(World)
WCatRoots  == CatRoots(World)
IsModTab   == [t \in WIds |-> (AncTab[t] \cup {t}) \cap WModRoots # {}]
CatsTab    == [t \in WIds |-> (AncTab[t] \cup {t}) \cap WCatRoots]

Replacement(t) == MetaTab[t].repl          \* 0 = none
ReplIn(t) == IF Replacement(t) # 0 THEN Replacement(t) ELSE t

(* inherited links of one term: records directly annotated to the term or a descendant *)
RecsOfKind(k) == IF k = "gene" THEN World.gene ELSE IF k = "omim" THEN World.omim ELSE World.orpha
LinkedTab == [k \in Kinds |-> [t \in WIds |-> {r.id : r \in {q \in Range(RecsOfKind(k)) : Range(q.terms) \cap DescSelfTab[t] # {}}}]]
LinkedW(k, t) == LinkedTab[k][t]
SetLinkedW(k, S) == UNION {LinkedW(k, t) : t \in S}
NRecsTab == [k \in Kinds |-> Cardinality({r.id : r \in Range(RecsOfKind(k))})]
NRecs(k) == NRecsTab[k]

(* the pure meaning of every operation on a member set *)
OpResult(op, S) ==
  CASE op.name \in {"remove_modifier", "without_modifier"}   -> {t \in S : ~IsModTab[t]}
    [] op.name \in {"remove_obsolete", "without_obsolete"}   -> {t \in S : ~MetaTab[t].obsolete}
    [] op.name \in {"replace_obsolete", "with_replaced_obsolete"} -> {ReplIn(t) : t \in S}
    [] op.name = "child_nodes"                               -> {t \in S : ~\E u \in S : t \in AncTab[u]}
    [] op.name = "extend"                                    -> S \cup {op.arg}

SetCategoriesW(S) ==
  LET cs == UNION {CatsTab[t] : t \in S}
  IN [c \in cs |-> Cardinality({t \in S : c \in CatsTab[t]})]

(* the tables say what HpoSetMeta / HpoSetOps define (checked on the small worlds) *)
TablesAgree(S) ==
  /\ OpResult([name |-> "without_modifier", arg |-> 0], S) = WithoutModifier(World, S)
  /\ OpResult([name |-> "without_obsolete", arg |-> 0], S) = WithoutObsolete(World, S)
  /\ OpResult([name |-> "with_replaced_obsolete", arg |-> 0], S) = ReplacedObsolete(World, S)
  /\ OpResult([name |-> "child_nodes", arg |-> 0], S) = {t \in S : ~\E u \in S : t \in Anc(WPar, u)}
  /\ SetCategoriesW(S) = SetCategories(World, S)

InPlace == {"remove_modifier", "remove_obsolete", "replace_obsolete"}
Copying == {"child_nodes", "without_modifier", "without_obsolete", "with_replaced_obsolete"}
Ops == {[name |-> n, arg |-> 0] : n \in InPlace \cup Copying} \cup {[name |-> "extend", arg |-> t] : t \in ExtendIds}

Obs(S) ==
  [ members |-> Sorted(S),
    genes |-> Sorted(SetLinkedW("gene", S)),
    omim  |-> Sorted(SetLinkedW("omim", S)),
    orpha |-> Sorted(SetLinkedW("orpha", S)),
    ic_gene |-> <<Cardinality(SetLinkedW("gene", S)), NRecs("gene")>>,
    ic_omim |-> <<Cardinality(SetLinkedW("omim", S)), NRecs("omim")>>,
    categories |-> LET f == SetCategoriesW(S) ks == Sorted(DOMAIN f) IN [i \in 1..Len(ks) |-> <<ks[i], f[ks[i]]>>] ]

SMInit == members \in InitSets /\ hist = <<>> /\ start = members

Apply(op) ==
  /\ Len(hist) < MaxOps
  /\ OpResult(op, members) \subseteq WIds        \* a replacement that leaves the ontology cannot be observed (HpoSetMeta covers it)
  /\ members' = OpResult(op, members)
  /\ hist' = Append(hist, [op |-> op, obs |-> Obs(members')])
  /\ UNCHANGED start

SMNext == \E op \in Ops : Apply(op)

SMSpec == SMInit /\ [][SMNext]_smVars

-----------------------------------------------------------------------------
(* what a caller relies on, in every reachable state *)
TypeOK == members \subseteq WIds
DefsAgree == TablesAgree(members)

(* filters only remove, replacement never grows the set, filters are idempotent *)
StepLaws ==
  [][\A op \in Ops : (hist' # hist /\ hist'[Len(hist')].op = op) =>
        /\ (op.name \in {"remove_modifier", "without_modifier", "remove_obsolete", "without_obsolete", "child_nodes"}) =>
              (members' \subseteq members /\ OpResult(op, members') = members')
        /\ (op.name \in {"replace_obsolete", "with_replaced_obsolete"}) => Cardinality(members') <= Cardinality(members)
        /\ (op.name = "extend") => members' = members \cup {op.arg}]_smVars

(* the aggregates are monotone in the member set and determined by the child nodes *)
AggregateLaws ==
  /\ \A k \in Kinds : SetLinkedW(k, OpResult([name |-> "child_nodes", arg |-> 0], members)) \subseteq SetLinkedW(k, members)
  /\ \A t \in members : \A k \in Kinds : LinkedW(k, t) \subseteq SetLinkedW(k, members)
  /\ Cardinality(SetLinkedW("gene", members)) <= NRecs("gene")
  /\ Cardinality(SetLinkedW("omim", members)) <= NRecs("omim")

=============================================================================
