------------------------------ MODULE HpoLinkage ------------------------------
(***************************************************************************)
(* Growth beyond the listed properties: stats::Linkage (single, complete,  *)
(* average linkage) as a merge state machine.                              *)
(*   clusters 0..N-1 are the initial sets, every merge creates cluster     *)
(*   N, N+1, ...; a step merges a pair of active clusters whose distance   *)
(*   is MINIMAL (the crate scans a hash map, so ties are broken            *)
(*   nondeterministically - any minimal pair is allowed) and the distance  *)
(*   of the new cluster to every other active cluster k is                 *)
(*        single:   min(d[k,i], d[k,j])                                    *)
(*        complete: max(d[k,i], d[k,j])                                    *)
(*        average:  (d[k,i] + d[k,j]) / 2                                  *)
(* Distances are integers scaled by 2^N so that the repeated halving of    *)
(* the average linkage stays exact.                                        *)
(***************************************************************************)
EXTENDS Integers, Sequences, FiniteSets, FiniteSetsExt, SequencesExt

CONSTANTS N, Mode

VARIABLES active, dist, nxt, merges

lvars == <<active, dist, nxt, merges>>

Key(a, b) == IF a < b THEN <<a, b>> ELSE <<b, a>>
Pairs(S) == {<<a, b>> \in S \X S : a < b}

Combine(x, y) ==
  CASE Mode = "single"   -> IF x < y THEN x ELSE y
    [] Mode = "complete" -> IF x > y THEN x ELSE y
    [] Mode = "average"  -> (x + y) \div 2

SizeIn(ms, x) == IF x < N THEN 1 ELSE ms[x - N + 1].size

(* the successor configuration after merging the active pair <<i, j>> *)
After(act, d, nx, ms, i, j) ==
  LET rest == act \ {i, j}
      d2   == [p \in Pairs(rest) \cup {<<k, nx>> : k \in rest} |->
                 IF p[2] = nx THEN Combine(d[Key(p[1], i)], d[Key(p[1], j)]) ELSE d[p]]
  IN [ active |-> rest \cup {nx}, dist |-> d2, nxt |-> nx + 1,
       merges |-> Append(ms, [lhs |-> i, rhs |-> j, dist |-> d[<<i, j>>], size |-> SizeIn(ms, i) + SizeIn(ms, j)]) ]

MinPairs(act, d) == {p \in Pairs(act) : \A q \in Pairs(act) : d[p] <= d[q]}

LInit(d0) == active = 0..(N - 1) /\ dist = d0 /\ nxt = N /\ merges = <<>>

Merge ==
  \E p \in MinPairs(active, dist) :
     LET s == After(active, dist, nxt, merges, p[1], p[2]) IN
     active' = s.active /\ dist' = s.dist /\ nxt' = s.nxt /\ merges' = s.merges

(* all complete merge sequences from a configuration (ties branch) *)
RECURSIVE Dendrograms(_, _, _, _)
Dendrograms(act, d, nx, ms) ==
  IF Cardinality(act) <= 1 THEN {ms}
  ELSE UNION { LET s == After(act, d, nx, ms, p[1], p[2]) IN Dendrograms(s.active, s.dist, s.nxt, s.merges)
               : p \in MinPairs(act, d) }

(* invariants of the machine *)
Done == Cardinality(active) = 1
SizesAddUp == Done => (N >= 2 => merges[Len(merges)].size = N) /\ Len(merges) = N - 1
EachClusterOnce ==
  \A a, b \in 1..Len(merges) : a # b => {merges[a].lhs, merges[a].rhs} \cap {merges[b].lhs, merges[b].rhs} = {}
(* single and complete linkage merge at non-decreasing distances *)
Monotone == (Mode \in {"single", "complete"}) => \A a \in 1..(Len(merges) - 1) : merges[a].dist <= merges[a + 1].dist

=============================================================================
