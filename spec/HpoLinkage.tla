------------------------------ MODULE HpoLinkage ------------------------------
(***************************************************************************)
(* C17: stats::Linkage (single, complete, average, union linkage) as a     *)
(* merge STATE MACHINE.                                                    *)
(*   clusters 0..N-1 are the initial sets, every merge creates cluster     *)
(*   N, N+1, ...; a step merges a pair of active clusters whose distance   *)
(*   is MINIMAL (the crate scans a hash map, so ties are broken            *)
(*   nondeterministically - any minimal pair is allowed) and the distance  *)
(*   of the new cluster to every other active cluster k is                 *)
(*        single:   min(d[k,i], d[k,j])                                    *)
(*        complete: max(d[k,i], d[k,j])                                    *)
(*        average:  (d[k,i] + d[k,j]) / 2                                  *)
(*        union:    the user distance applied to the UNION of the merged   *)
(*                  sets and the set of k.  Every cluster carries its set  *)
(*                  of items (cset; the inputs may overlap, be nested or   *)
(*                  equal), every item a weight (iw), and the user         *)
(*                  distance is |W(A) - W(B)|, W = sum of the item weights *)
(*                  - a function of the CONTENT of the two sets, as the    *)
(*                  crate's callback contract says.                        *)
(* Distances are integers scaled by 2^N so that the repeated halving of    *)
(* the average linkage stays exact; Inf stands for an infinite distance    *)
(* (legal: e.g. 1/similarity - 1 for similarity 0) and is absorbing for    *)
(* max and mean.  The k-th merge is addressable as cluster index N + k;    *)
(* Indices is the reported leaf order.                                     *)
(***************************************************************************)
EXTENDS Integers, Sequences, FiniteSets, FiniteSetsExt, SequencesExt

CONSTANTS N, Mode

VARIABLES active,   \* indices of the live clusters
          dist,     \* distance of every unordered pair <<a, b>>, a < b, of live clusters
          nxt,      \* index the next merge will create
          merges,   \* Seq of [lhs, rhs, dist, size]: the dendrogram so far
          cset,     \* items of every cluster ever created (union mode)
          iw        \* weight of every item (union mode; never changes)

lvars == <<active, dist, nxt, merges, cset, iw>>

Inf == 1073741824      \* 2^30: an infinite distance

Key(a, b) == IF a < b THEN <<a, b>> ELSE <<b, a>>
Pairs(S) == {<<a, b>> \in S \X S : a < b}

Combine(x, y) ==
  CASE Mode = "single"   -> IF x < y THEN x ELSE y
    [] Mode = "complete" -> IF x > y THEN x ELSE y
    [] Mode = "average"  -> IF x = Inf \/ y = Inf THEN Inf ELSE (x + y) \div 2

Abs(x) == IF x < 0 THEN -x ELSE x

SizeIn(ms, x) == IF x < N THEN 1 ELSE ms[x - N + 1].size

(* the successor configuration after merging the active pair <<i, j>> *)
RECURSIVE SumW(_, _)
SumW(w, S) == IF S = {} THEN 0 ELSE LET x == CHOOSE y \in S : TRUE IN w[x] + SumW(w, S \ {x})
UserDist(w, A, B) == Abs(SumW(w, A) - SumW(w, B))

After(act, d, nx, ms, cs, w, i, j) ==
  LET rest == act \ {i, j}
      cs2  == [k \in DOMAIN cs \cup {nx} |-> IF k = nx THEN cs[i] \cup cs[j] ELSE cs[k]]
      d2   == [p \in Pairs(rest) \cup {<<k, nx>> : k \in rest} |->
                 IF p[2] = nx
                   THEN IF Mode = "union" THEN UserDist(w, cs2[nx], cs2[p[1]]) ELSE Combine(d[Key(p[1], i)], d[Key(p[1], j)])
                   ELSE d[p]]
  IN [ active |-> rest \cup {nx}, dist |-> d2, nxt |-> nx + 1, cset |-> cs2,
       merges |-> Append(ms, [lhs |-> i, rhs |-> j, dist |-> d[<<i, j>>], size |-> SizeIn(ms, i) + SizeIn(ms, j)]) ]

MinPairs(act, d) == {p \in Pairs(act) : \A q \in Pairs(act) : d[p] <= d[q]}

LInit(d0, cs0, w0) == active = 0..(N - 1) /\ dist = d0 /\ nxt = N /\ merges = <<>> /\ cset = cs0 /\ iw = w0

(* merging the live pair p is allowed iff no live pair is closer *)
MergePair(p) ==
  /\ p \in Pairs(active)
  /\ \A q \in Pairs(active) : dist[p] <= dist[q]
  /\ LET s == After(active, dist, nxt, merges, cset, iw, p[1], p[2]) IN
     active' = s.active /\ dist' = s.dist /\ nxt' = s.nxt /\ merges' = s.merges /\ cset' = s.cset /\ iw' = iw

Merge == \E p \in MinPairs(active, dist) : MergePair(p)

(* all complete merge sequences from a configuration (ties branch) *)
RECURSIVE Dendrograms(_, _, _, _, _, _)
Dendrograms(act, d, nx, ms, cs, w) ==
  IF Cardinality(act) <= 1 THEN {ms}
  ELSE UNION { LET s == After(act, d, nx, ms, cs, w, p[1], p[2]) IN Dendrograms(s.active, s.dist, s.nxt, s.merges, s.cset, w)
               : p \in MinPairs(act, d) }

(* the reported leaf order: the original sets in the order in which the merges mention them *)
RECURSIVE Indices(_, _)
Indices(ms, k) ==
  IF k > Len(ms) THEN <<>>
  ELSE (IF ms[k].lhs < N THEN <<ms[k].lhs>> ELSE <<>>) \o (IF ms[k].rhs < N THEN <<ms[k].rhs>> ELSE <<>>) \o Indices(ms, k + 1)

(* invariants of the machine *)
(* every merge joined a pair that was closest at that moment, at the reported distance: by construction of Merge;  *)
(* what remains checkable on the state: the recorded distance of the last merge is not larger than any live distance *)
(* it could have chosen instead (single/complete) - see Monotone.                                                   *)
Done == Cardinality(active) = 1
SizesAddUp == Done => (N >= 2 => merges[Len(merges)].size = N) /\ Len(merges) = N - 1
(* a binary tree over the inputs: every input and every intermediate cluster is merged exactly once, *)
(* the k-th merge creates cluster N + k - 1 ... and the leaf order is a permutation of 0..N-1       *)
TreeShape == Done =>
  /\ {merges[k].lhs : k \in 1..Len(merges)} \cup {merges[k].rhs : k \in 1..Len(merges)} = 0..(2 * N - 3)
  /\ \A k \in 1..Len(merges) : merges[k].lhs < N + k - 1 /\ merges[k].rhs < N + k - 1
  /\ {Indices(merges, 1)[i] : i \in 1..Len(Indices(merges, 1))} = 0..(N - 1) /\ Len(Indices(merges, 1)) = N
EachClusterOnce ==
  \A a, b \in 1..Len(merges) : a # b => {merges[a].lhs, merges[a].rhs} \cap {merges[b].lhs, merges[b].rhs} = {}
(* single and complete linkage merge at non-decreasing distances *)
Monotone == (Mode \in {"single", "complete"}) => \A a \in 1..(Len(merges) - 1) : merges[a].dist <= merges[a + 1].dist

=============================================================================
