"""check selftest [--full]: demonstrates that the binding binds.
 (a) corrupt one recorded field / drop one event of an accepted trace -> TLC must reject it (TraceCore, TraceAlgo, TraceBinary)
 (b) --full: every kept seeded change (/verif/seeded/*) must make its property's check exit 1,
     every benign refactoring (/verif/mutants/benign/*.patch) must leave C01-C03 at exit 0.
"""
import json, os, subprocess, sys, glob, random
import hvlib
from hvlib import Ctx, hv, tlc_trace, log, ToolError, build_harness, VERIF


def mutate_trace(src, dst, fn):
    lines = open(src).read().splitlines()
    recs = [json.loads(x) for x in lines]
    fn(recs)
    open(dst, "w").write("\n".join(json.dumps(r) for r in recs) + "\n")


def expect_reject(ctx, what, cfg, module, tf, results):
    ok, line = tlc_trace(ctx, cfg, module, tf)
    results.append((what, not ok))
    log(f"[selftest] {what}: {'rejected as required (line %s)' % line if not ok else 'ACCEPTED - binding is vacuous!'}")


def run(full=False):
    build_harness()
    ctx = Ctx("SELFTEST", "quick", 1)
    results = []
    try:
        # --- TraceCore
        tf = os.path.join(ctx.scratch, "core.ndjson")
        hv(ctx, "record", trace=tf, runs=3)
        ok, _ = tlc_trace(ctx, "trace/TraceCoreC01.cfg", "trace/TraceCore.tla", tf)
        results.append(("unmodified recorded trace accepted (TraceCore)", ok))

        def drop_ancestor(recs):
            for r in recs:
                if r.get("e") == "Built":
                    for t in r["proj"]["terms"]:
                        if t["allp"]:
                            t["allp"] = t["allp"][1:]
                            t["rallp"] = t["rallp"][1:]
                            return
        bad = os.path.join(ctx.scratch, "core-bad1.ndjson")
        mutate_trace(tf, bad, drop_ancestor)
        expect_reject(ctx, "TraceCore/C01: one ancestor removed from a recorded projection", "trace/TraceCoreC01.cfg", "trace/TraceCore.tla", bad, results)

        def drop_event(recs):
            for i, r in enumerate(recs):
                if r.get("e") == "AddParent":
                    del recs[i]
                    return
        bad = os.path.join(ctx.scratch, "core-bad2.ndjson")
        mutate_trace(tf, bad, drop_event)
        expect_reject(ctx, "TraceCore/C01: one AddParent event deleted", "trace/TraceCoreC01.cfg", "trace/TraceCore.tla", bad, results)

        def leak_kind(recs):
            for r in recs:
                if r.get("e") == "Built":
                    for t in r["proj"]["terms"]:
                        if t["gene"] and t["gene"] != t["omim"]:
                            t["omim"], t["romim"] = t["gene"], t["gene"]
                            return
        bad = os.path.join(ctx.scratch, "core-bad3.ndjson")
        mutate_trace(tf, bad, leak_kind)
        expect_reject(ctx, "TraceCore/C02: gene ids copied into a term's OMIM set", "trace/TraceCoreC02.cfg", "trace/TraceCore.tla", bad, results)
        # --- TraceAlgo
        tf = os.path.join(ctx.scratch, "algo.ndjson")
        hv(ctx, "record-algo", trace=tf, runs=6)
        ok, _ = tlc_trace(ctx, "trace/TraceAlgo.cfg", "trace/TraceAlgo.tla", tf)
        results.append(("unmodified hook trace accepted (TraceAlgo)", ok))

        def flip_already(recs):
            for r in recs:
                if r.get("e") == "LinkVisit":
                    r["already"] = not r["already"]
                    return
        bad = os.path.join(ctx.scratch, "algo-bad1.ndjson")
        mutate_trace(tf, bad, flip_already)
        expect_reject(ctx, "TraceAlgo: one 'already linked' flag flipped", "trace/TraceAlgo.cfg", "trace/TraceAlgo.tla", bad, results)

        def drop_read(recs):
            for i, r in enumerate(recs):
                if r.get("e") == "GrandparentsRead":
                    del recs[i]
                    return
        bad = os.path.join(ctx.scratch, "algo-bad2.ndjson")
        mutate_trace(tf, bad, drop_read)
        expect_reject(ctx, "TraceAlgo: one GrandparentsRead hook event removed", "trace/TraceAlgo.cfg", "trace/TraceAlgo.tla", bad, results)
        # --- TraceBinary
        out = hvlib.tlc(ctx, "mc/MC_BinaryQuick.cfg", "mc/MC_Binary.tla", workers=14)["out"]
        dump = os.path.join(ctx.scratch, "dump")
        hv(ctx, "replay-binary", prop="C07", **{"in": out}, dump=dump)
        recs, _ = hvlib.gather(dump)
        tf = os.path.join(ctx.scratch, "bin.ndjson")
        open(tf, "w").write("\n".join(recs[:40]) + "\n")
        ok, _ = tlc_trace(ctx, "trace/TraceBinary.cfg", "trace/TraceBinary.tla", tf)
        results.append(("unmodified as_bytes output accepted (TraceBinary)", ok))

        def flip_byte(recs):
            recs[7]["bytes"][len(recs[7]["bytes"]) // 2] ^= 1
        bad = os.path.join(ctx.scratch, "bin-bad.ndjson")
        mutate_trace(tf, bad, flip_byte)
        expect_reject(ctx, "TraceBinary: one byte of an as_bytes output flipped", "trace/TraceBinary.cfg", "trace/TraceBinary.tla", bad, results)
        # --- TraceLinkage: a recorded clustering run is accepted, a corrupted one rejected
        ltf = os.path.join(ctx.scratch, "lk")
        ls = hv(ctx, "record-linkage", trace=ltf, runs=40, max_n=9)
        grp = next(g for g in ls["extra"]["groups"] if g["mode"] == "average" and g["n"] >= 5)
        lcfg = hvlib.cfgfile(ctx, "TraceLinkageSelf", "trace/TraceLinkage.tla", f'SPECIFICATION TSpec\nCONSTANTS\n  N = {grp["n"]}\n  Mode = "average"\nPOSTCONDITION Accepted\nCHECK_DEADLOCK FALSE\n')
        ok, _ = tlc_trace(ctx, lcfg, "trace/TraceLinkage.tla", grp["file"])
        results.append(("unmodified recorded clustering run accepted (TraceLinkage)", ok))

        def bump_dist(recs):
            for r in recs:
                if r.get("e") == "Merge":
                    r["dist"] += 1
                    return
        bad = os.path.join(ctx.scratch, "lk-bad.ndjson")
        mutate_trace(grp["file"], bad, bump_dist)
        expect_reject(ctx, "TraceLinkage: one recorded merge distance changed", lcfg, "trace/TraceLinkage.tla", bad, results)
        # --- TraceJax: recorded loads of random file sets are accepted; a changed loaded fact or a changed file line is rejected
        jtf = os.path.join(ctx.scratch, "jx")
        js = hv(ctx, "record-jax", prop="C09", trace=jtf, runs=12, chunks=1)
        jfile = js["extra"]["files"][0]["file"]
        ok, _ = tlc_trace(ctx, "trace/TraceJax.cfg", "trace/TraceJax.tla", jfile)
        results.append(("unmodified recorded loads of random JAX file sets accepted (TraceJax)", ok))

        def drop_fact(recs):
            for r in recs:
                for k in ("omim", "gene", "orpha"):
                    if r["loaded"][k]:
                        r["loaded"][k][0]["terms"] = [118, 9999998]
                        return
        bad = os.path.join(ctx.scratch, "jx-bad1.ndjson")
        mutate_trace(jfile, bad, drop_fact)
        expect_reject(ctx, "TraceJax: the direct terms of one loaded record changed", "trace/TraceJax.cfg", "trace/TraceJax.tla", bad, results)

        def not_row(recs):
            for r in recs:
                rows = [it for it in r["files"]["hpoa"] if it.get("kind") == "row" and it.get("qual") == "" and it.get("db") in ("OMIM", "ORPHA")]
                for it in rows:
                    # a fact stated by exactly one row (the generator repeats some rows)
                    if sum(1 for o in rows if (o["db"], o["x"], o["t"]) == (it["db"], it["x"], it["t"])) == 1:
                        it["qual"] = "NOT"
                        return
        bad = os.path.join(ctx.scratch, "jx-bad2.ndjson")
        mutate_trace(jfile, bad, not_row)
        expect_reject(ctx, "TraceJax: one annotation row of the file set turned into a NOT row", "trace/TraceJax.cfg", "trace/TraceJax.tla", bad, results)
        # --- TraceGroup: recorded group events are accepted; a wrong insertion reply and a duplicated id in a union are rejected
        gtf = os.path.join(ctx.scratch, "gr.ndjson")
        hv(ctx, "record-group", trace=gtf, runs=20)
        ok, _ = tlc_trace(ctx, "trace/TraceGroup.cfg", "trace/TraceGroup.tla", gtf)
        results.append(("unmodified recorded group events accepted (TraceGroup)", ok))

        def flip_reply(recs):
            for r in recs:
                if r.get("e") == "Ins":
                    r["new"] = not r["new"]
                    return
        bad = os.path.join(ctx.scratch, "gr-bad1.ndjson")
        mutate_trace(gtf, bad, flip_reply)
        expect_reject(ctx, "TraceGroup: one insertion reply flipped", "trace/TraceGroup.cfg", "trace/TraceGroup.tla", bad, results)

        def dup_union(recs):
            for r in recs:
                if r.get("e") == "Ops" and r["union"]:
                    r["union"] = r["union"] + [r["union"][-1]]
                    return
        bad = os.path.join(ctx.scratch, "gr-bad2.ndjson")
        mutate_trace(gtf, bad, dup_union)
        expect_reject(ctx, "TraceGroup: the last id of one recorded union duplicated", "trace/TraceGroup.cfg", "trace/TraceGroup.tla", bad, results)
        # --- the design-level invariants have teeth: mutated SPECIFICATIONS must be refuted by TLC
        import shutil, re as _re
        specmut = [
            ("HpoAlgo.tla", "allp' = [allp EXCEPT ![f.t] = f.res \\cup parents[f.t]]", "allp' = [allp EXCEPT ![f.t] = f.res]",
             "mc/MC_Connect3free.cfg", "mc/MC_Connect.tla", "connect machine: Return forgets the direct parents"),
            ("HpoAlgo.tla", "Cached(t) == parents[t] = {} \\/ allp[t] # {}", "Cached(t) == TRUE",
             "mc/MC_Connect3free.cfg", "mc/MC_Connect.tla", "connect machine: every term counts as cached"),
            ("HpoAlgo.tla", "LFrame(t) == [t |-> t, todo |-> Sorted(allp[t])]", "LFrame(t) == [t |-> t, todo |-> Sorted(allp[t] \\ {Max(allp[t] \\cup {0})})]",
             "mc/MC_Annot3q.cfg", "mc/MC_Annot.tla", "link machine: the largest ancestor is skipped"),
            ("HpoLookup.tla", "slots' = [slots EXCEPT ![id] = Len(terms)]", "slots' = [slots EXCEPT ![id] = Len(terms) - 1]",
             "mc/MC_Lookup.cfg", "mc/MC_Lookup.tla", "arena: slot index off by one"),
            ("HpoCombine.tla", "ELSE <<Cols(M) * SumRowMax(M) + Rows(M) * SumColMax(M), 2 * Rows(M) * Cols(M)>>", "ELSE <<Rows(M) * SumRowMax(M) + Cols(M) * SumColMax(M), 2 * Rows(M) * Cols(M)>>",
             "mc/MC_Combine.cfg", "mc/MC_Combine.tla", "funSimAvg divides by the wrong dimension (transpose lemma must fail)"),
            ("HpoAlgo.tla", "allp' = [allp EXCEPT ![f.t] = f.res \\cup parents[f.t]]", "allp' = [allp EXCEPT ![f.t] = f.res]",
             "mc/MC_Refine3q.cfg", "mc/MC_Refine.tla", "refinement: a connect machine that forgets the direct parents does not refine HpoCore!ConnectAll"),
            ("HpoAlgo.tla", "Put(@, lcur.x, [name |-> nfact + 1, hpos |-> lcur.hpos])", "Put(@, lcur.x, [name |-> nfact + 1, hpos |-> lcur.hpos \\ {Max(lcur.hpos \\cup {0})}])",
             "mc/MC_Refine3q.cfg", "mc/MC_Refine.tla", "refinement: a binary loader that drops a direct term of the record does not refine HpoCore!LoadRecord"),
            ("HpoGroupAlgo.tla", "a[i] = b[j] /\\ out' = Append(out, a[i]) /\\ i' = i + 1 /\\ j' = j + 1 /\\ UNCHANGED <<op, pc, a, b, reply>>",
                                 "a[i] = b[j] /\\ out' = Append(out, a[i]) /\\ i' = i + 1 /\\ UNCHANGED <<op, pc, a, b, j, reply>>",
             "mc/MC_GroupAlgo.cfg", "mc/MC_GroupAlgo.tla", "group merge loop: the Equal arm advances only the left cursor (UnionInv must fail)"),
            ("HpoGroupAlgo.tla", "Inputs == IF AnyInput", "Inputs == IF AnyInput",
             "mc/MC_GroupAlgoAny.cfg", "mc/MC_GroupAlgo.tla", "group algorithms on UNSORTED inputs (no change to the spec): Result must fail - the sortedness assumption is needed"),
            ("HpoLinkage.tla", ("MinPairs(act, d) == {p \\in Pairs(act) : \\A q \\in Pairs(act) : d[p] <= d[q]}", "/\\ \\A q \\in Pairs(active) : dist[p] <= dist[q]"),
                               ("MinPairs(act, d) == {p \\in Pairs(act) : \\A q \\in Pairs(act) : d[p] >= d[q]}", "/\\ \\A q \\in Pairs(active) : dist[p] >= dist[q]"),
             "mc/MC_Linkage_single.cfg", "mc/MC_Linkage.tla", "linkage machine: the farthest pair is merged first (Monotone must fail)"),
            ("HpoSetMachine.tla", "[] op.name = \"child_nodes\"                               -> {t \\in S : ~\\E u \\in S : t \\in AncTab[u]}", "[] op.name = \"child_nodes\"                               -> {t \\in S : ~\\E u \\in S : u \\in AncTab[t]}",
             "mc/MC_SetMachine1.cfg", "mc/MC_SetMachine.tla", "set machine: child_nodes keeps the ancestors instead (AggregateLaws must fail)"),
            ("HpoReject.tla", "IF OldCode /\\ p \\in Terms", "IF p \\in Terms",
             "mc/MC_Reject.cfg", "mc/MC_Reject.tla", "builder: a rejected add_parent that mutates the parent first (NoDangling / RejectedStutters must fail)"),
        ]
        for fname, old_, new_, cfg, mod, what in specmut:
            d = os.path.join(ctx.scratch, "specmut")
            shutil.rmtree(d, ignore_errors=True)
            shutil.copytree(hvlib.SPEC, d, ignore=shutil.ignore_patterns(".tlacache", "states"))
            src = open(os.path.join(d, fname)).read()
            olds, news = (old_, new_) if isinstance(old_, tuple) else ((old_,), (new_,))
            if any(o not in src for o in olds):
                results.append((f"spec mutant applies: {what}", False))
                continue
            for o, n in zip(olds, news):
                src = src.replace(o, n)
            open(os.path.join(d, fname), "w").write(src)
            r = subprocess.run(["java", "-Xss1g", "-XX:+UseParallelGC", "-Djava.io.tmpdir=" + ctx.scratch, "-cp", hvlib.TLA_CP, "tlc2.TLC", "-workers", "8", "-metadir", os.path.join(ctx.scratch, "specmut-meta"),
                                "-cleanup", "-noGenerateSpecTE", "-config", cfg, mod], cwd=d, stdout=subprocess.PIPE, stderr=subprocess.STDOUT, text=True, timeout=900)
            refuted = "is violated" in r.stdout or "Error:" in r.stdout
            results.append((f"mutated specification refuted by TLC: {what}", refuted))
            log(f"[selftest] spec mutant '{what}': {'refuted' if refuted else 'NOT refuted - invariant is vacuous!'}")
        # --- the TLAPS proof of the merge loop is about THIS machine: with the Equal arm advancing one cursor only, an obligation must fail
        d = os.path.join(ctx.scratch, "proofmut")
        shutil.rmtree(d, ignore_errors=True)
        os.makedirs(d)
        src = open(os.path.join(hvlib.SPEC, "proofs", "MergeInduction.tla")).read()
        arm = "a[i] = b[j] /\\ out' = Append(out, a[i]) /\\ i' = i + 1 /\\ j' = j + 1"
        if arm not in src:
            results.append(("proof mutant applies: MergeInduction Equal arm", False))
        else:
            open(os.path.join(d, "MergeInduction.tla"), "w").write(src.replace(arm, arm[:-len(" + 1")]))
            r = subprocess.run(["tlapm", "--threads", "8", "MergeInduction.tla"], cwd=d, stdout=subprocess.PIPE, stderr=subprocess.STDOUT, text=True, timeout=900)
            failed = "obligations failed" in r.stdout
            results.append(("TLAPS proof of the merge loop fails for a machine whose Equal arm advances one cursor only", failed))
            log(f"[selftest] proof mutant 'merge loop, Equal arm': {'an obligation fails as required' if failed else 'STILL PROVED - the proof does not depend on the machine!'}")
        if full:
            rc, out = subprocess.getstatusoutput("git -C /repo status --porcelain")
            if out.strip():
                raise ToolError("/repo is not clean")
            for d in sorted(glob.glob(os.path.join(VERIF, "seeded", "*"))):
                meta = json.load(open(os.path.join(d, "meta.json")))
                prop = meta["property"]
                subprocess.run(["git", "-C", "/repo", "apply", os.path.join(d, "patch.diff")], check=True)
                try:
                    r = subprocess.run([os.path.join(VERIF, "bin", "check"), prop], stdout=subprocess.PIPE, stderr=subprocess.STDOUT, text=True)
                finally:
                    subprocess.run(["git", "-C", "/repo", "checkout", "--", "."], check=True)
                results.append((f"seeded {os.path.basename(d)} detected by {prop}", r.returncode == 1))
                log(f"[selftest] seeded {os.path.basename(d)}: check {prop} exit {r.returncode}")
            for p in sorted(glob.glob(os.path.join(VERIF, "mutants", "benign", "*.patch"))):
                subprocess.run(["git", "-C", "/repo", "apply", p], check=True)
                try:
                    for prop in ("C01", "C02", "C03"):
                        r = subprocess.run([os.path.join(VERIF, "bin", "check"), prop], stdout=subprocess.PIPE, stderr=subprocess.STDOUT, text=True)
                        results.append((f"benign {os.path.basename(p)} leaves {prop} quiet", r.returncode == 0))
                        log(f"[selftest] benign {os.path.basename(p)}: check {prop} exit {r.returncode}")
                finally:
                    subprocess.run(["git", "-C", "/repo", "checkout", "--", "."], check=True)
            subprocess.run(["git", "-C", VERIF, "checkout", "--", "evidence"])
    finally:
        ctx.cleanup()
    bad = [w for w, ok in results if not ok]
    for w, ok in results:
        log(f"  {'ok  ' if ok else 'FAIL'} {w}")
    json.dump([{"what": w, "ok": ok} for w, ok in results], open(os.path.join(VERIF, "selftest-result.json"), "w"), indent=1)
    return 2 if bad else 0
