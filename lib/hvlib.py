"""Driver for the hpo verification checks: TLC runs, harness runs, evidence, exit codes."""
import json, os, re, shutil, subprocess, sys, tempfile, time, glob, hashlib

VERIF = os.path.dirname(os.path.dirname(os.path.abspath(__file__)))
SPEC = os.path.join(VERIF, "spec")
HARNESS = os.path.join(VERIF, "harness")
HV = os.path.join(HARNESS, "target", "release", "hv")
REPLAYS = os.path.join(VERIF, "replays")
EVIDENCE = os.path.join(VERIF, "evidence")
TLA_CP = "/opt/veriftools/tla/tla2tools.jar:/opt/veriftools/tla/CommunityModules-deps.jar"


import itertools
_COUNTER = itertools.count()


class ToolError(Exception):
    pass


class Ctx:
    def __init__(self, prop, tier, seed):
        self.prop, self.tier, self.seed = prop, tier, seed
        self.t0 = time.time()
        self.scratch = tempfile.mkdtemp(prefix="hpo-verif.")
        # JAX file sets are written and removed ~10^5 times per run: keep them on tmpfs when there is one
        shm = "/dev/shm" if os.path.isdir("/dev/shm") and os.access("/dev/shm", os.W_OK) else None
        self.shm = tempfile.mkdtemp(prefix="hpo-verif.", dir=shm) if shm else None
        os.environ["HV_SCRATCH"] = os.path.join(self.shm or self.scratch, "hv")
        self.tlc_runs = []
        self.hv_runs = []
        self.violations = []       # dicts {property, what, replay}
        self.samples = []
        self.states = 0
        self.transitions = 0
        self.traces = 0            # behaviours replayed into / traces validated against the implementation
        self.evaluations = 0
        self.nontrivial = 0
        self.exhaustive = True
        self.rule = ""
        self.assumptions = []
        self.extra = {}

    @property
    def quick(self):
        return self.tier == "quick"

    def cleanup(self):
        shutil.rmtree(self.scratch, ignore_errors=True)
        if self.shm:
            shutil.rmtree(self.shm, ignore_errors=True)


def log(*a):
    print(*a, flush=True)


def build_harness():
    t = time.time()
    r = subprocess.run(["cargo", "build", "--release", "--offline"], cwd=HARNESS, stdout=subprocess.PIPE, stderr=subprocess.STDOUT, text=True)
    if r.returncode != 0:
        tail = "\n".join(r.stdout.splitlines()[-40:])
        raise ToolError("harness / hpo crate does not build:\n" + tail)
    log(f"[build] harness built against /repo working tree in {time.time()-t:.1f}s")


def tlc(ctx, cfg, module, workers=12, timeout=900, simulate=None, depth=None, env=None, count=True, extra_args=None, jvm=None, allow_fail=False, coverage=False):
    """Run TLC; returns dict(out=path, states=distinct, generated=..., ok=bool, text_tail=str)."""
    name = os.path.splitext(os.path.basename(cfg))[0]
    uid = next(_COUNTER)           # unique also when several TLC processes are started from threads
    meta = os.path.join(ctx.scratch, f"tlc-{name}-{uid}")
    out = os.path.join(ctx.scratch, f"tlc-{name}-{uid}.out")
    cmd = ["java", "-Xss1g", "-XX:+UseParallelGC", "-Djava.io.tmpdir=" + ctx.scratch]     # TLC leaves an (empty) tlc-<n> directory in the JVM's tmpdir per run
    if jvm:
        cmd += jvm
    cmd += ["-cp", TLA_CP, "tlc2.TLC", "-workers", str(workers), "-metadir", meta, "-cleanup", "-noGenerateSpecTE",
            "-config", cfg, module]
    if simulate:
        cmd += ["-simulate", f"num={simulate}", "-depth", str(depth or 100), "-seed", str(ctx.seed)]
    if extra_args:
        cmd += extra_args
    if coverage:
        cmd += ["-coverage", "1"]
    e = dict(os.environ)
    e.setdefault("JAVA_TOOL_OPTIONS", "-Xss1g")
    if env:
        e.update(env)
    t = time.time()
    with open(out, "w") as fh:
        try:
            r = subprocess.run(cmd, cwd=SPEC, stdout=fh, stderr=subprocess.STDOUT, env=e, timeout=timeout)
            rc = r.returncode
        except subprocess.TimeoutExpired:
            raise ToolError(f"TLC timed out after {timeout}s on {cfg}")
    wall = time.time() - t
    shutil.rmtree(meta, ignore_errors=True)
    distinct = generated = 0
    depth_found = None
    errors = []
    with open(out, errors="replace") as fh:
        for line in fh:
            if line.startswith("<<"):
                continue
            m = re.match(r"(\d+) states generated, (\d+) distinct states found", line)
            if m:
                generated, distinct = int(m.group(1)), int(m.group(2))
            m = re.match(r"The number of states generated: (\d+)", line)
            if m:
                generated = distinct = int(m.group(1))
            m = re.match(r"The depth of the complete state graph search is (\d+)", line)
            if m:
                depth_found = int(m.group(1))
            if line.startswith("Error:") or "is violated" in line or "Parsing or semantic analysis failed" in line:
                errors.append(line.strip())
    ok = rc == 0 and not errors
    never_fired = []
    if coverage and ok:
        # vacuity guard: TLC reports, per top-level disjunct of the next-state relation, distinct:total states
        last = {}
        with open(out, errors="replace") as fh:
            for line in fh:
                m = re.match(r"^<(\w+) line (\d+), col \d+ to line \d+, col \d+ of module (\w+)( \([\d ]+\))?>: (\d+):(\d+)", line)
                if m:
                    last[(m.group(1), m.group(3), m.group(4) or "")] = int(m.group(6))
        # named actions are reported by name; a wrapper disjunct whose parts are named actions shows "0:0" under a
        # (line col line col) location although its parts fired, so located entries only count when nothing is named
        named = {k: n for k, n in last.items() if not k[2] and k[0] not in ("Bound",)}
        located = {k: n for k, n in last.items() if k[2]}
        never_fired = [f"{k[0]} of {k[1]}" for k, n in named.items() if n == 0]
        if len(named) <= 1:
            never_fired += [f"{k[0]}{k[2]} of {k[1]}" for k, n in located.items() if n == 0]
    run = dict(cfg=os.path.relpath(cfg, SPEC) if os.path.isabs(cfg) else cfg, module=module, distinct_states=distinct, states_generated=generated,
               depth=depth_found, wall_s=round(wall, 2), ok=ok, mode="simulate" if simulate else "exhaustive")
    if coverage:
        run["actions_never_fired"] = never_fired
    ctx.tlc_runs.append(run)
    if count:
        ctx.states += distinct
        ctx.transitions += generated
    if simulate:
        ctx.exhaustive = False
    log(f"[tlc] {cfg}: {distinct} distinct states, {generated} generated, {wall:.1f}s, ok={ok}")
    if never_fired and not allow_fail:
        raise ToolError(f"vacuity: these disjuncts of the next-state relation never fired in {cfg}: {never_fired}")
    if not ok and not allow_fail:
        raise ToolError(f"TLC reported an error on {cfg} (a specification-level failure is a tool error, the spec does not depend on the code): {errors[:3]}  see {out}")
    return dict(out=out, states=distinct, generated=generated, ok=ok, errors=errors, wall=wall)


def hv(ctx, command, **kw):
    """Run a harness command; returns its summary dict. Violations are collected into ctx."""
    out = os.path.join(ctx.scratch, f"hv-{command}-{len(ctx.hv_runs)}.json")
    cmd = [HV, command, "--out", out, "--replay-dir", REPLAYS, "--seed", str(ctx.seed)]
    for k, v in kw.items():
        if v is None:
            continue
        cmd += ["--" + k.replace("_", "-"), str(v)]
    t = time.time()
    r = subprocess.run(cmd, stdout=subprocess.PIPE, stderr=subprocess.STDOUT, text=True, timeout=kw.get("timeout", 3600))
    wall = time.time() - t
    if r.returncode not in (0,):
        # hang reports come with their own VIOLATION line and exit 1 from a shard -> merged summary has extra.hang
        if not os.path.exists(out):
            raise ToolError(f"harness command {command} failed (exit {r.returncode}):\n{r.stdout[-2000:]}")
    for line in r.stdout.splitlines():
        if line.startswith("VIOLATION "):
            m = re.match(r"VIOLATION property=(\S+) replay=(\S+)", line)
            if m:
                ctx.violations.append(dict(property=m.group(1), what="hang (watchdog)", replay=m.group(2)))
    s = json.load(open(out))
    ctx.hv_runs.append(dict(command=command, args={k: str(v) for k, v in kw.items()}, cases=s.get("cases"), evaluations=s.get("evaluations"),
                            counters=s.get("counters"), wall_s=round(wall, 2), extra=s.get("extra")))
    ctx.evaluations += s.get("evaluations", 0)
    nontrivial = s.get("nontrivial", 0)
    if "in" in kw and os.path.exists(str(kw["in"])):
        # distinct_nontrivial must count DISTINCT cases: TLC simulation workers can emit the same behaviour twice
        seen = set()
        with open(kw["in"], "rb") as fh:
            for line in fh:
                if line.startswith(b"<<"):
                    seen.add(hashlib.blake2b(line, digest_size=8).digest())
        nontrivial = min(nontrivial, len(seen))
        ctx.extra["distinct_input_lines"] = ctx.extra.get("distinct_input_lines", 0) + len(seen)
    ctx.nontrivial += nontrivial
    for v in s.get("violations", []):
        ctx.violations.append(v)
    for x in s.get("samples", []):
        if len(ctx.samples) < 4:
            ctx.samples.append(x)
    if not s.get("samples") and len(ctx.samples) < 4 and "in" in kw and os.path.exists(str(kw["in"])):
        # the harness picks samples by case index; when its pick misses, show an actual input line of this run instead
        with open(kw["in"], errors="replace") as fh:
            for n, line in enumerate(fh):
                m = re.match(r'<<"REPLAY", (".*")>>\s*$', line)
                if m and n % 7 == 3:
                    try:
                        x = json.loads(json.loads(m.group(1)))
                    except Exception:
                        continue
                    txt = json.dumps(x)
                    ctx.samples.append(x if len(txt) < 4000 else {"truncated_case": txt[:4000]})
                    break
    log(f"[hv] {command}: cases={s.get('cases')} evaluations={s.get('evaluations')} violations={len(s.get('violations', []))} {wall:.1f}s")
    return s


LAST_TRACE_OUT = {}     # trace file -> TLC output of its last validation (for diagnostics printed by a trace specification)


def tlc_trace(ctx, cfg, module, trace_file, timeout=1800):
    """impl -> spec: TLC validates recorded events/bytes. Returns (accepted, index of first rejected record or None)."""
    r = tlc(ctx, cfg, module, workers=1, timeout=timeout, jvm=["-Xmx2g"], env={"TRACE": trace_file,
            "JAVA_TOOL_OPTIONS": "-Xss1g -Dtlc2.tool.queue.IStateQueue=StateDeque"}, count=True, allow_fail=True)
    LAST_TRACE_OUT[trace_file] = r["out"]
    if r["ok"]:
        return True, None
    last = None
    unmatched = None
    with open(r["out"], errors="replace") as fh:
        for line in fh:
            m = re.match(r"^/?\\? ?i = (\d+)", line.strip().lstrip("/\\ "))
            if m:
                last = int(m.group(1))
            m = re.search(r'"UNMATCHED", (\d+)', line)
            if m:
                unmatched = int(m.group(1))
    bad = [e for e in r["errors"] if "violated" in e or "UNMATCHED" in e or "Postcondition" in e or "postcondition" in e]
    if not bad and last is None and unmatched is None:
        raise ToolError(f"TLC failed on trace validation {cfg}: {r['errors'][:3]} see {r['out']}")
    return False, (last if last is not None else unmatched)


def trace_core(ctx, prop, runs, reject=0, large_every=None, fan_every=5):
    """impl -> spec: record random runs from the real crate, let TLC validate them against TraceCore
    (several single-worker TLC processes in parallel, one per trace chunk)."""
    from concurrent.futures import ThreadPoolExecutor
    chunks = 1 if runs <= 12 else min(12, runs // 12)
    tf = os.path.join(ctx.scratch, f"trace-{prop}.ndjson")
    if large_every is None:
        large_every = 10 if ctx.quick else 15
    try:
        if reject:
            s = hv(ctx, "record", trace=tf, runs=runs, chunks=chunks, reject=1)
        else:
            s = hv(ctx, "record", trace=tf, runs=runs, chunks=chunks, large_every=large_every, fan_every=fan_every)
    except ToolError as e:
        # the recorder drives the real crate through random runs under catch_unwind; if the PROCESS dies (abort, stack overflow)
        # that is behaviour of the code under test, not a tool error
        os.makedirs(REPLAYS, exist_ok=True)
        rp = os.path.join(REPLAYS, f"{prop}-recorder-died-seed{ctx.seed}.json")
        json.dump({"cmd": "recorder-died", "property": prop, "seed": ctx.seed, "runs": runs, "large_every": large_every, "fan_every": fan_every, "reject": reject,
                   "diffs": ["the process that drives the crate through recorded random runs died: " + str(e)[-400:]]}, open(rp, "w"), indent=1)
        ctx.violations.append(dict(property=prop, what="the recorder process died while driving the crate through random runs (abort / stack overflow / crash in the code under test)", replay=rp))
        return
    files = [tf] if chunks == 1 else [f"{tf}.{c}" for c in range(chunks)]
    idx = s["extra"]["runs"]

    def one(c):
        return tlc_trace(ctx, f"trace/TraceCore{prop}.cfg", "trace/TraceCore.tla", files[c], timeout=2400)
    with ThreadPoolExecutor(max_workers=min(12, chunks)) as ex:
        results = list(ex.map(one, range(chunks)))
    for c, (ok, line_no) in enumerate(results):
        mine = [r for r in idx if r.get("chunk", 0) == c]
        if ok:
            ctx.traces += len(mine)
            ctx.extra["trace_events_validated"] = ctx.extra.get("trace_events_validated", 0) + sum(r["events"] for r in mine)
            continue
        run = next((r for r in mine if r["first_line"] <= (line_no or 0) <= r["last_line"] + 1), mine[-1])
        ctx.traces += sum(1 for r in mine if r["last_line"] < (line_no or 0))
        lines = open(files[c]).read().splitlines()
        ev = json.loads(lines[line_no - 1]) if line_no and line_no <= len(lines) else {}
        if "proj" in ev:
            ev["proj"] = "<projection omitted>"
        os.makedirs(REPLAYS, exist_ok=True)
        rp = os.path.join(REPLAYS, f"{prop}-trace-seed{ctx.seed}-run{run['run']}.json")
        json.dump({"cmd": "trace-core", "property": prop, "seed": ctx.seed, "run": run["run"], "large_every": large_every, "fan_every": fan_every, "reject": reject, "line": line_no, "event": ev,
                   "diffs": [f"recorded event at trace line {line_no} is not a step of the specification (TraceCore, focus {prop})"]}, open(rp, "w"), indent=1)
        ctx.violations.append(dict(property=prop, what=f"trace validation: event {ev.get('e')} of run {run['run']} rejected by the specification", replay=rp))


def trace_linkage(ctx, runs, max_n=12, only=None, big_every=0):
    """impl -> spec for C17: random Linkage runs recorded from the crate, validated against the merge machine (TraceLinkage),
    one single-worker TLC per (number of inputs, mode)"""
    from concurrent.futures import ThreadPoolExecutor
    tf = os.path.join(ctx.scratch, "linkage-trace")
    s = hv(ctx, "record-linkage", trace=tf, runs=runs, max_n=max_n, big_every=big_every, big_max=(33 if ctx.quick else 100))
    groups = s["extra"]["groups"]
    idx = s["extra"]["runs"]
    if only:
        groups = [g for g in groups if (g["n"], g["mode"]) == only]

    def one(g):
        cfg = cfgfile(ctx, f"TraceLinkage_{g['n']}_{g['mode']}", "trace/TraceLinkage.tla",
                      f'SPECIFICATION TSpec\nCONSTANTS\n  N = {g["n"]}\n  Mode = "{g["mode"]}"\nPOSTCONDITION Accepted\nCHECK_DEADLOCK FALSE\n')
        return tlc_trace(ctx, cfg, "trace/TraceLinkage.tla", g["file"], timeout=1200)
    with ThreadPoolExecutor(max_workers=12) as ex:
        results = list(ex.map(one, groups))
    rejected = []
    for g, (ok, line_no) in zip(groups, results):
        mine = [r for r in idx if r["n"] == g["n"] and r["mode"] == g["mode"]]
        if ok:
            ctx.traces += len(mine)
            ctx.extra["trace_events_validated"] = ctx.extra.get("trace_events_validated", 0) + g["events"]
            continue
        run = next((r for r in mine if r["first_line"] <= (line_no or 0) <= r["last_line"]), mine[-1])
        ctx.traces += sum(1 for r in mine if r["last_line"] < (line_no or 0))
        lines = open(g["file"]).read().splitlines()
        ev = json.loads(lines[line_no - 1]) if line_no and line_no <= len(lines) else {}
        start = json.loads(lines[run["first_line"] - 1])
        os.makedirs(REPLAYS, exist_ok=True)
        rp = os.path.join(REPLAYS, f"C17-linkage-seed{ctx.seed}-run{run['run']}.json")
        json.dump({"cmd": "trace-linkage", "property": "C17", "seed": ctx.seed, "runs": runs, "max_n": max_n, "big_every": big_every, "run": run["run"], "n": g["n"], "mode": g["mode"], "line": line_no, "start": start, "event": ev,
                   "diffs": [f"recorded event {ev.get('e')} (line {line_no} of the {g['n']}/{g['mode']} trace, run {run['run']}) is not a step of the merge machine (TraceLinkage)"]}, open(rp, "w"), indent=1)
        what = f"trace validation: Linkage::{g['mode']} on {g['n']} sets (run {run['run']}): event {json.dumps(ev)[:300]} is not a step of the specification's merge machine; inputs {json.dumps(start)[:400]}"
        ctx.violations.append(dict(property="C17", what=what, replay=rp))
        rejected.append(g)
    return rejected


def trace_group(ctx, runs):
    """impl -> spec for C12: random groups far beyond TLC's universe, built and combined by the crate, replayed on the group machine (TraceGroup)"""
    tf = os.path.join(ctx.scratch, "group-trace.ndjson")
    try:
        s = hv(ctx, "record-group", trace=tf, runs=runs)
    except ToolError as e:
        os.makedirs(REPLAYS, exist_ok=True)
        rp = os.path.join(REPLAYS, f"C12-group-recorder-died-seed{ctx.seed}.json")
        json.dump({"cmd": "trace-group", "property": "C12", "seed": ctx.seed, "runs": runs, "diffs": ["the process that drives the crate's id groups died: " + str(e)[-400:]]}, open(rp, "w"), indent=1)
        ctx.violations.append(dict(property="C12", what="the recorder process died while driving the crate's id groups (abort / stack overflow in the code under test)", replay=rp))
        return False
    ok, line_no = tlc_trace(ctx, "trace/TraceGroup.cfg", "trace/TraceGroup.tla", tf, timeout=1800)
    if ok:
        ctx.traces += s.get("cases", 0)
        ctx.extra["group_events_validated"] = s["extra"]["events"]
        return True
    idx = s["extra"]["runs"]
    run = next((r for r in idx if r["first_line"] <= (line_no or 0) <= r["last_line"]), idx[-1])
    lines = open(tf).read().splitlines()
    ev = json.loads(lines[line_no - 1]) if line_no and line_no <= len(lines) else {}
    os.makedirs(REPLAYS, exist_ok=True)
    rp = os.path.join(REPLAYS, f"C12-group-seed{ctx.seed}-run{run['run']}.json")
    what = f"trace validation: recorded group event {json.dumps(ev)[:600]} (run {run['run']}, line {line_no}) is not a step of the group machine (spec/HpoGroupSpec.tla via TraceGroup)"
    json.dump({"cmd": "trace-group", "property": "C12", "seed": ctx.seed, "runs": runs, "run": run["run"], "line": line_no, "event": ev, "diffs": [what]}, open(rp, "w"), indent=1)
    ctx.violations.append(dict(property="C12", what=what, replay=rp))
    return False


def trace_jax(ctx, runs, big_every=0, only_run=None):
    """impl -> spec for C09: random JAX file sets outside the image of the specification's writer are loaded by the crate (both loaders);
    TLC accepts each recorded load only if Describes(files) - the declarative reader of spec/HpoJax.tla - equals the facts the crate loaded"""
    from concurrent.futures import ThreadPoolExecutor
    chunks = 1 if (runs <= 12 or only_run is not None) else min(12, runs // 12)
    tf = os.path.join(ctx.scratch, "jax-trace")
    try:
        s = hv(ctx, "record-jax", prop="C09", trace=tf, runs=runs, chunks=chunks, big_every=big_every, only_run=only_run)
    except ToolError as e:
        os.makedirs(REPLAYS, exist_ok=True)
        rp = os.path.join(REPLAYS, f"C09-jax-recorder-died-seed{ctx.seed}.json")
        json.dump({"cmd": "trace-jax", "property": "C09", "seed": ctx.seed, "runs": runs, "big_every": big_every, "run": None,
                   "diffs": ["the process that loads random file sets with the crate died: " + str(e)[-400:]]}, open(rp, "w"), indent=1)
        ctx.violations.append(dict(property="C09", what="the recorder process died while the crate loaded random JAX file sets (abort / stack overflow in the code under test)", replay=rp))
        return [None]
    ctx.traces += s.get("cases", 0) if only_run is None else 0
    files = s["extra"]["files"]
    idx = s["extra"]["runs"]
    with ThreadPoolExecutor(max_workers=12) as ex:
        results = list(ex.map(lambda f: tlc_trace(ctx, "trace/TraceJax.cfg", "trace/TraceJax.tla", f["file"], timeout=1800), files))
    rejected = []
    for f, (ok, line_no) in zip(files, results):
        if ok:
            ctx.extra["jax_load_events_validated"] = ctx.extra.get("jax_load_events_validated", 0) + f["events"]
            continue
        mine = [r for r in idx if r["chunk"] == f["chunk"] and r["last_line"] >= r["first_line"]]
        run = next((r for r in mine if r["first_line"] <= (line_no or 0) <= r["last_line"]), mine[-1])
        lines = open(f["file"]).read().splitlines()
        ev = json.loads(lines[line_no - 1]) if line_no and line_no <= len(lines) else {}
        os.makedirs(REPLAYS, exist_ok=True)
        rp = os.path.join(REPLAYS, f"C09-jax-seed{ctx.seed}-run{run['run']}.json")
        diff = ""
        try:
            for ln in open(LAST_TRACE_OUT[f["file"]], errors="replace"):
                if ln.startswith('<<"DIFF", '):
                    diff = ln.strip()[len('<<"DIFF", '):-2]
        except Exception:
            pass
        what = (f"trace validation: random file set of run {run['run']}: {ev.get('loader', '?')} loader " +
                (f"failed on a file set inside the documented envelope: {str(ev.get('error'))[:200]}" if ev.get("e") != "Load"
                 else "loaded facts that are not the ones the files describe (Describes of spec/HpoJax.tla): " + (diff[:700] if diff else "loaded " + json.dumps(ev.get("loaded"))[:500])))
        json.dump({"cmd": "trace-jax", "property": "C09", "seed": ctx.seed, "runs": runs, "big_every": big_every, "run": run["run"], "line": line_no,
                   "event": ev, "diffs": [what]}, open(rp, "w"), indent=1)
        ctx.violations.append(dict(property="C09", what=what, replay=rp))
        rejected.append(run["run"])
    return rejected


def algo_drift(ctx, runs):
    """advisory: step events from the hooks must be steps of HpoAlgo's machines; mismatch = algorithm drift, never a violation"""
    tf = os.path.join(ctx.scratch, "algo.ndjson")
    try:
        s = hv(ctx, "record-algo", trace=tf, runs=runs)
    except ToolError as e:
        # advisory check: if the hook recorder cannot even run the crate (panic / abort in the code under test) the step-level
        # model does not describe this code any more; the property checks proper report what is wrong
        ctx.extra["algorithm_drift"] = True
        ctx.extra["hook_events_validated"] = 0
        log(f"ADVISORY algorithm drift: the hook recorder died: {str(e)[:160]}")
        return
    try:
        ok, line_no = tlc_trace(ctx, "trace/TraceAlgo.cfg", "trace/TraceAlgo.tla", tf)
    except ToolError as e:
        # advisory check: an evaluation error while matching hook events also just means "does not match"
        ok, line_no = False, 0
        log(f"[advisory] TraceAlgo could not be evaluated on this trace: {str(e)[:200]}")
    ctx.extra["algorithm_drift"] = not ok
    ctx.extra["hook_events_validated"] = s.get("counters", {}).get("hook_events", 0) if ok else 0
    if not ok:
        ev = {}
        try:
            ev = json.loads(open(tf).read().splitlines()[line_no - 1])
        except Exception:
            pass
        if "proj" in ev:
            ev["proj"] = "..."
        ctx.extra["algorithm_drift_at"] = {"line": line_no, "event": ev}
        log(f"ADVISORY algorithm drift: step event at trace line {line_no} ({ev.get('e')}) is not a step of spec/HpoAlgo.tla; "
            "the design-level results about the cache heuristic / early exit no longer describe this code (not a property violation)")
    else:
        ctx.traces += s.get("cases", 0)


def tlaps(ctx, module):
    """unbounded companion proofs (spec/proofs/*.tla) checked by the TLA+ proof system"""
    t = time.time()
    try:
        r = subprocess.run(["tlapm", "--threads", "8", module], cwd=os.path.join(SPEC, "proofs"), stdout=subprocess.PIPE, stderr=subprocess.STDOUT, text=True, timeout=1200)
    except subprocess.TimeoutExpired:
        raise ToolError(f"tlapm timed out on {module}")
    m = re.search(r"All (\d+) obligations? proved", r.stdout)
    if r.returncode != 0 or not m:
        raise ToolError(f"tlapm did not prove {module}: {r.stdout[-600:]}")
    ctx.extra.setdefault("tlaps", []).append({"module": "spec/proofs/" + module, "obligations": int(m.group(1)), "discharged": int(m.group(1)), "wall_s": round(time.time() - t, 1)})
    log(f"[tlaps] {module}: all {m.group(1)} obligations proved ({time.time()-t:.1f}s)")


def load_known():
    p = os.path.join(VERIF, "known_findings.json")
    if not os.path.exists(p):
        return []
    return json.load(open(p)).get("findings", [])


def finish(ctx, level="model_checking"):
    known = [k for k in load_known() if k.get("status") == "known" and k.get("property") == ctx.prop]
    real = []
    printed_known = set()
    extras = [v for v in ctx.violations if v.get("property") == "EXTRA"]
    for v in extras[:5]:
        # behaviour specified beyond the ten listed properties: reported, never an alarm for this property
        log(f"EXTRA-FINDING (outside the listed properties): {v.get('what','')} replay={v.get('replay')}")
    ctx.extra["extra_behaviour_mismatches"] = len(extras)
    for v in [x for x in ctx.violations if x.get("property") != "EXTRA"]:
        hit = None
        for k in known:
            if re.search(k["match"], v.get("what", "")):
                hit = k
                break
        if hit:
            if hit["id"] not in printed_known:
                printed_known.add(hit["id"])
                log(f"KNOWN-FINDING: property={ctx.prop} {hit['what']}")
        else:
            real.append(v)
    # a listed known finding is always announced on a tree that still has it; if it no longer
    # reproduces nothing is printed for it.
    wall = time.time() - ctx.t0
    cov = dict(
        states=ctx.states, transitions=ctx.transitions, traces_validated_against_impl=ctx.traces,
        samples=ctx.samples[:4] if ctx.samples else [],
        evaluations=ctx.evaluations, distinct_nontrivial=ctx.nontrivial, rule=ctx.rule, exhaustive=ctx.exhaustive,
        tlc_runs=ctx.tlc_runs, harness_runs=ctx.hv_runs,
    )
    cov.update(ctx.extra)
    ev = dict(property_id=ctx.prop, tier=ctx.tier, seed=ctx.seed, level=level, coverage=cov,
              assumptions=ctx.assumptions, wall_s=round(wall, 2), violations=len(real),
              known_findings_seen=sorted(printed_known))
    os.makedirs(EVIDENCE, exist_ok=True)
    tmp = os.path.join(EVIDENCE, f".{ctx.prop}.json.tmp")
    with open(tmp, "w") as fh:
        json.dump(ev, fh, indent=1)
    os.replace(tmp, os.path.join(EVIDENCE, f"{ctx.prop}.json"))
    seen = set()
    for v in real:
        key = v["replay"]
        if key in seen:
            continue
        seen.add(key)
        if len(seen) <= 10:
            log(f"VIOLATION property={v['property']} replay={v['replay']}")
            log(f"   {v.get('what','')}")
    log(f"[done] {ctx.prop} tier={ctx.tier} seed={ctx.seed} wall={wall:.1f}s violations={len(real)}")
    return 1 if real else 0


def replay_lines(path):
    n = 0
    with open(path, errors="replace") as fh:
        for line in fh:
            if line.startswith('<<"REPLAY"'):
                n += 1
    return n


def concat(ctx, outs, name):
    p = os.path.join(ctx.scratch, name)
    with open(p, "w") as w:
        for o in outs:
            with open(o, errors="replace") as fh:
                for line in fh:
                    if line.startswith("<<"):
                        w.write(line)
    return p


# ------------------------------------------------------------------------------------------
# property checks

def cfgfile(ctx, name, module, body):
    """Write a .cfg into scratch (constants differ per tier); returns its path."""
    p = os.path.join(ctx.scratch, name + ".cfg")
    with open(p, "w") as fh:
        fh.write(body)
    return p


def check_C01(ctx):
    ctx.rule = ("TLC enumerates every duplicate-free insertion order over every subset of Ids x every acyclic is_a relation "
                "(x every edge supply order at 3 ids); each completed behaviour is replayed into the real crate under several "
                "order-preserving id concretisations (refinement HpoAlgo => HpoCore model-checked over the whole pipeline) and through every construction path (Builder x3 supply orders, defaults, "
                "as_bytes round trip, independently encoded binary v1-v3 with and without permuted records, hp.obo via both JAX loaders; sub_ontology: every accepted call of the HpoSub model, closure laws on the result); "
                "non-trivial = behaviour with at least one is_a edge; distinct = distinct TLC states (arena order, edge set/order)")
    outs = []
    r = tlc(ctx, "mc/MC_Connect3free.cfg", "mc/MC_Connect.tla")
    outs.append(r["out"])
    r = tlc(ctx, "mc/MC_Connect4.cfg", "mc/MC_Connect.tla", coverage=not ctx.quick)
    outs.append(r["out"])
    if not ctx.quick:
        r = tlc(ctx, "mc/MC_Connect5.cfg", "mc/MC_Connect.tla", workers=14, timeout=3000)
        outs.append(r["out"])
    tlc(ctx, "mc/MC_ConnectLive.cfg", "mc/MC_Connect.tla", workers=4)   # termination of the recursion (WF, no constraint)
    # the step-level machines (bound to the code by hook events) REFINE the abstract Builder (bound by replay): AlgoSpec => CoreSpec
    # under the mapping of MC_Refine (half-filled cache and in-flight link calls are invisible); whole pipeline, 3 ids, <= 1 (2) facts
    tlc(ctx, "mc/MC_Refine3q.cfg" if ctx.quick else "mc/MC_Refine3.cfg", "mc/MC_Refine.tla", workers=8 if ctx.quick else 14, timeout=3600)
    outs.append(tlc(ctx, "mc/MC_CoreBig.cfg", "mc/MC_CoreBig.tla", workers=2)["out"])     # beyond the inline capacities: 12 direct parents, 35 ancestors
    allout = concat(ctx, outs, "c01-lines.txt")
    n = replay_lines(allout)
    if n == 0:
        raise ToolError("TLC produced no behaviours to replay")
    s = hv(ctx, "replay-core", prop="C01", **{"in": allout}, jax_every=(8 if ctx.quick else 2))
    ctx.traces += s.get("cases", 0)
    # the fourth construction path: every accepted sub_ontology call of the HpoSub model (and the 64-term wide source) - whichever allowed
    # result the crate picks, its reported ancestors must be the closure of ITS reported parents, children the inverse, child_of / parent_of membership
    sub_path(ctx, "C01", 1)
    trace_core(ctx, "C01", 10 if ctx.quick else 300)
    algo_drift(ctx, 20 if ctx.quick else 400)
    ctx.assumptions += [
        "TLC explores the stated finite model exhaustively; beyond its bounds (more than 4-5 terms) only simulated/recorded runs are validated",
        "the harness' binary encoder and obo writer are cross-checked against the TLA+ encoders by the C08 / C09 checks",
    ]
    return finish(ctx)


def sub_path(ctx, prop, mode):
    """sub_ontology as a construction path of C01 / C02 / C03: every accepted call of the HpoSub model (and of the 64-term wide source) is issued;
    mode 1: the closure laws on the result; mode 2 / 3: annotation links / information content against the specification's expectation for the
    retained term set the crate chose (which set is retained is C14's business and is not judged here)"""
    subouts = [tlc(ctx, "mc/MC_Sub.cfg", "mc/MC_Sub.tla", workers=14, timeout=3000)["out"],
               tlc(ctx, "mc/MC_SubWide.cfg", "mc/MC_SubWide.tla", workers=6, timeout=3000)["out"]]
    if not ctx.quick:
        subouts.append(tlc(ctx, "mc/MC_Sub5.cfg", "mc/MC_Sub.tla", workers=14, timeout=6000)["out"])
    s = hv(ctx, "replay-sub", prop=prop, laws_only=mode, **{"in": concat(ctx, subouts, prop.lower() + "-sub-lines.txt")})
    ctx.traces += s.get("cases", 0)
    ctx.extra["sub_ontology_calls"] = s.get("cases", 0)


def sim_full(ctx, num, workers, depth=45):
    return tlc(ctx, "mc/Sim_Full.cfg", "mc/MC_Full.tla", workers=workers, simulate=num, depth=depth, count=True)


def check_C02(ctx):
    ctx.rule = ("design level: TLC explores the step-level link machine (early exit, recursion over all ancestors, binary loader's "
                "link-before-insert order) on every DAG over Ids from every reachable annotation state with every next fact; "
                "binding: every call sequence of <= MaxFacts annotate/add calls (3 kinds sharing numeric ids) on every DAG is replayed "
                "through Builder (3 edge orders), build_with_defaults, as_bytes round trip, binary v1-v3 (+permuted records) and both JAX loaders; "
                "plus TLC-simulated full pipelines on 8 ids; non-trivial = at least one fact; distinct = distinct TLC states (histories)")
    if ctx.quick:
        tlc(ctx, "mc/MC_Annot3q.cfg", "mc/MC_Annot.tla")
    else:
        tlc(ctx, "mc/MC_Annot3.cfg", "mc/MC_Annot.tla", workers=14, timeout=1800, coverage=True)
        tlc(ctx, "mc/MC_Annot4.cfg", "mc/MC_Annot.tla", workers=14, timeout=1800)
    tlc(ctx, "mc/MC_AnnotLive.cfg", "mc/MC_Annot.tla", workers=4)
    tlaps(ctx, "LinkInduction.tla")      # unbounded: abstract Annotate preserves LinkExact; LinkExact => UpClosed
    outs = [tlc(ctx, "mc/MC_AnnotHist3.cfg", "mc/MC_AnnotHist.tla")["out"]]
    if not ctx.quick:
        outs.append(tlc(ctx, "mc/MC_AnnotHist4.cfg", "mc/MC_AnnotHist.tla", workers=14, timeout=1800)["out"])
    outs.append(sim_full(ctx, 60 if ctx.quick else 1500, 4 if ctx.quick else 8)["out"])
    outs.append(tlc(ctx, "mc/MC_CoreBig.cfg", "mc/MC_CoreBig.tla", workers=2)["out"])     # facts on terms with 35 ancestors (ids growing / shrinking with depth), 12 direct parents
    allout = concat(ctx, outs, "c02-lines.txt")
    s = hv(ctx, "replay-core", prop="C02", **{"in": allout}, jax_every=(4 if ctx.quick else 1), concs="dense,roots0_1,random")
    ctx.traces += s.get("cases", 0)
    sub_path(ctx, "C02", 2)
    trace_core(ctx, "C02", 10 if ctx.quick else 300)
    if not ctx.quick:
        trace_core(ctx, "EXTRA", 60)        # growth: which records a sub-ontology keeps (modifier filter); EXTRA-FINDING only
    algo_drift(ctx, 20 if ctx.quick else 400)
    ctx.assumptions += ["kinds are independent instances of one machine in the spec; leaks between kinds are detected at the binding level (ids shared across kinds)",
                        "exhaustive within 3-4 term ids and <=3 facts; simulation beyond"]
    return finish(ctx)


def check_C03(ctx):
    ctx.rule = ("the spec fixes the exact integer arguments (n, N) of -ln(n/N) per term and kind (ICArgsExact, ICMonotone checked by TLC); "
                "record universes differ per kind (3 genes, 2 OMIM, 1 ORPHA) and include records without terms, N=0, n=0, n=N; the harness "
                "evaluates -ln(n/N) in f64 and compares with information_content() through every construction path; "
                "non-trivial = at least one fact")
    tlc(ctx, "mc/MC_CoreIC.cfg", "mc/MC_CoreIC.tla", coverage=not ctx.quick)
    outs = [tlc(ctx, "mc/MC_AnnotHistIC.cfg" if ctx.quick else "mc/MC_AnnotHistIC3.cfg", "mc/MC_AnnotHist.tla", workers=14, timeout=1800)["out"]]
    # every kind starts with a term-less record: n/N < 1 for every linked term, so a missed link changes the value
    outs.append(tlc(ctx, "mc/MC_AnnotHistICP.cfg", "mc/MC_AnnotHist.tla", workers=14, timeout=1800)["out"])
    for k in ("Gene", "Omim", "Orpha"):      # ontologies in which only one kind has any record
        outs.append(tlc(ctx, f"mc/MC_AnnotHistOnly{k}.cfg", "mc/MC_AnnotHist.tla", workers=8)["out"])
    outs.append(sim_full(ctx, 60 if ctx.quick else 1500, 4 if ctx.quick else 8)["out"])
    outs.append(tlc(ctx, "mc/MC_CoreBig.cfg", "mc/MC_CoreBig.tla", workers=2)["out"])
    allout = concat(ctx, outs, "c03-lines.txt")
    s = hv(ctx, "replay-core", prop="C03", **{"in": allout}, jax_every=(4 if ctx.quick else 1), concs="dense,roots0_1,random")
    ctx.traces += s.get("cases", 0)
    sub_path(ctx, "C03", 3)
    trace_core(ctx, "C03", 10 if ctx.quick else 200)     # incl. sub_ontology: IC consistent with the ontology's own n, N
    ctx.assumptions += ["ln and f32 rounding are evaluated outside TLC (relative tolerance 1e-5); the spec decides the integer arguments",
                        "more than 65535 records of one kind are outside the crate's own contract (u16 conversion error)"]
    return finish(ctx)


def check_C04(ctx):
    ctx.rule = ("TLC computes, for every ordered pair of terms of every explored builder state (every DAG on 3-4 ids x annotation histories; "
                "simulated 8-id pipelines), the structural arguments of the 8 similarities (common/union ancestors, BFS distance, annotation overlap per kind) "
                "and checks their symmetry and bounds; the harness evaluates the documented formula table in f64 and compares with Builtins::*, "
                "Builtins::new(name, kind) incl. aliases, the concrete structs and HpoTerm::similarity_score for 8 algorithms x 3 kinds, both argument orders; "
                "non-trivial = behaviour with at least one edge and one fact")
    outs = [tlc(ctx, "mc/MC_Sim3.cfg", "mc/MC_AnnotHist.tla")["out"]]

    outs.append(tlc(ctx, "mc/Sim_FullPairs.cfg", "mc/MC_Full.tla", workers=4 if ctx.quick else 8, simulate=40 if ctx.quick else 600, depth=45)["out"])
    allout = concat(ctx, outs, "c04-lines.txt")
    s = hv(ctx, "replay-sim", prop="C04", **{"in": allout})
    ctx.traces += s.get("cases", 0)
    trace_core(ctx, "C04", 10 if ctx.quick else 200)      # larger recorded ontologies: arguments validated by TLC, formulas on observed arguments
    ctx.extra["extra_path_queries"] = s.get("counters", {}).get("extra_path_queries", 0)
    ctx.extra["extra_set_queries"] = s.get("counters", {}).get("extra_set_queries", 0)
    ctx.assumptions += ["ln/exp and f32 rounding are outside TLA+: formulas are evaluated by the harness in f64 from TLC's exact arguments, tolerance rel 1e-4 / abs 1e-5",
                        "formula table follows crate documentation + doctest-pinned conventions (union of ancestors excludes the terms themselves)"]
    return finish(ctx)


def check_C05(ctx):
    ctx.rule = ("TLC enumerates every r x c integer matrix, r,c in 0..3 over {0,1,2} (+ wide shapes 1x5,5x2,4x3,2x4,6x1 over {0,5}; + shapes up to 3x3 over {-3,-1,2}), checks the transpose lemma "
                "and prints the exact rational funSimAvg / funSimMax / BMA; the cache machine explores every sequence of <=2 set-level calls over all subsets "
                "of 3 ids with an asymmetric F sharing one cache.  The harness injects the matrix through a user-supplied Similarity and compares "
                "HpoSet::similarity, GroupSimilarity::calculate, SimilarityCombiner::calculate(Matrix), the CachedSimilarity adaptor (3 id layouts), GroupSimilarity objects that live through the whole run, and sets built by From<Vec> from lists with repeated ids; "
                "non-trivial = non-square or more than one cell / more than one call")
    outs = [tlc(ctx, "mc/MC_Combine.cfg", "mc/MC_Combine.tla")["out"],
            tlc(ctx, "mc/MC_CombineWide.cfg", "mc/MC_Combine.tla")["out"],
            tlc(ctx, "mc/MC_CombineNeg.cfg", "mc/MC_Combine.tla")["out"],       # matrices with negative entries (a user-supplied similarity may return any number)
            tlc(ctx, "mc/MC_CombineBig.cfg", "mc/MC_Combine.tla", workers=2)["out"],     # random matrices up to 33x33 (beyond small-vector capacities)
            tlc(ctx, "mc/MC_Cache.cfg" if ctx.quick else "mc/MC_Cache3.cfg", "mc/MC_Cache.tla", workers=14, timeout=1800)["out"]]
    if not ctx.quick:
        # every matrix up to 3x3 over FOUR values (349 k) and every 2x4, 4x2, 2x5, 5x2, 1x8, 8x1 matrix over three values (144 k)
        outs.append(tlc(ctx, "mc/MC_CombineT.cfg", "mc/MC_Combine.tla", workers=6, timeout=3000)["out"])
        outs.append(tlc(ctx, "mc/MC_CombineWideT.cfg", "mc/MC_Combine.tla", workers=6, timeout=3000)["out"])
    allout = concat(ctx, outs, "c05-lines.txt")
    s = hv(ctx, "replay-set", prop="C05", **{"in": allout})
    ctx.traces += s.get("cases", 0)
    ctx.assumptions += ["small integers are exact in f32, so the crate's f32 result is compared with the spec's rational at relative 1e-6"]
    return finish(ctx)


def check_C06(ctx):
    ctx.rule = ("TLC computes with exact big-natural arithmetic (BigNat/Hypergeom.tla) P[X>=k] = TailNum/TailDen and fold = kN/(nK) for every (N,K,n,k) with N<=12 "
                "(<=20 thorough) and for selected profiles with N in {170,171,200,400} (169..173, 200, 400, 1000 thorough), self-checking Vandermonde and antitonicity; "
                "every (N,n) group is realised as real ontologies in four layouts (whole ontology as background, proper sub-collection, inherited annotations, a binary-loaded ontology with obsolete / replaced background terms) x three kinds "
                "with decoy annotations of the other kinds, and gene/omim/orpha_enrichment are compared (one record per linked annotation, count, p within rel 1e-10, fold, range, monotone in k); "
                "non-trivial = profile with k > 0")
    r = tlc(ctx, "mc/MC_Hyper.cfg" if ctx.quick else "mc/MC_HyperThorough.cfg", "mc/MC_Hyper.tla", workers=14, timeout=3000)
    # one process, one thread: all enrichment calls form ONE sequence (state kept between calls would show)
    s = hv(ctx, "replay-enrich", prop="C06", **{"in": r["out"]}, procs=1)
    ctx.traces += s.get("cases", 0)
    ctx.assumptions += ["the final big-integer division num/den -> f64 is done by the harness (top 24 decimal digits), everything before it is exact TLC arithmetic",
                        "tolerance: relative 1e-10 (N<=400) / 1e-9 above; the unchanged crate is within 8e-13"]
    return finish(ctx)


def binary_lines(ctx):
    cfg = "mc/MC_BinaryQuick.cfg" if ctx.quick else "mc/MC_Binary.cfg"
    return tlc(ctx, cfg, "mc/MC_Binary.tla", workers=14, timeout=3000)["out"]


def gather(prefix):
    """concatenate the per-shard dump files <prefix>.<n> (and <prefix>.lines.<n>) in shard order"""
    recs, lines = [], []
    n = 0
    while os.path.exists(f"{prefix}.{n}"):
        recs += open(f"{prefix}.{n}").read().splitlines()
        if os.path.exists(f"{prefix}.lines.{n}"):
            lines += open(f"{prefix}.lines.{n}").read().splitlines()
        n += 1
    return recs, lines


def check_C07(ctx):
    ctx.rule = ("TLC generates small ontologies (families: 9 name shapes incl. multi-byte characters straddling byte 255 x term/gene/disease names; structure x obsolete/replacement; "
                "records incl. empty ones x release dates incl. extremes), checks the format's own round trip, and emits them.  Each v3 line is built as a real ontology through "
                "Builder, hp.obo+annotation files and from_bytes; as_bytes -> from_bytes must give an observationally identical ontology (whole read API + Ontology::compare, names cut to 255 bytes "
                "on a character boundary), the emitted records must equal the independently encoded ones, and the crate's bytes are decoded by the SPECIFICATION's decoder in TLC (trace validation); recorded random runs (TraceCore focus C07) add a Reloaded event - the "
                "round trip of every recorded ontology with the two roots must again be the builder state the specification derives; "
                "non-trivial = a name longer than 10 characters or at least one gene")
    out = binary_lines(ctx)
    dump = os.path.join(ctx.scratch, "c07dump")
    s = hv(ctx, "replay-binary", prop="C07", **{"in": out}, dump=dump)
    if s.get("counters", {}).get("encoder_mismatch"):
        raise ToolError("harness encoder disagrees with the TLA+ encoder")
    recs, lines = gather(dump)
    if not recs:
        raise ToolError("no as_bytes output recorded")
    cap = 240 if ctx.quick else 3000
    step = max(1, len(recs) // cap)
    sel = list(range(0, len(recs), step))
    tf = os.path.join(ctx.scratch, "c07trace.ndjson")
    with open(tf, "w") as fh:
        for i in sel:
            fh.write(recs[i] + "\n")
    ok, idx = tlc_trace(ctx, "trace/TraceBinary.cfg", "trace/TraceBinary.tla", tf)
    ctx.traces += len(sel) if ok else max(0, (idx or 1) - 1)
    if not ok:
        j = sel[(idx or 1) - 1]
        rec = json.loads(lines[j])
        os.makedirs(REPLAYS, exist_ok=True)
        rp = os.path.join(REPLAYS, "C07-trace-%s.json" % hashlib.sha1(recs[j].encode()).hexdigest()[:16])
        json.dump({"cmd": "trace-binary", "property": "C07", "src": rec["src"], "line": rec["line"],
                   "diffs": ["the specification's decoder does not accept / does not agree with the bytes written by Ontology::as_bytes (source %s)" % rec["src"]]}, open(rp, "w"))
        ctx.violations.append(dict(property="C07", what="spec Decode rejects as_bytes output (source %s)" % rec["src"], replay=rp))
    # impl -> spec on recorded ontologies (10-20 and 45-70 terms): the reloaded ontology must again be the builder state TLC derives
    trace_core(ctx, "C07", 24 if ctx.quick else 300, large_every=(0 if ctx.quick else 15))
    so = tlc(ctx, "mc/MC_SetMeta.cfg", "mc/MC_SetMeta.tla", workers=4)["out"]
    ss = hv(ctx, "replay-setmeta", **{"in": so})
    ctx.extra["extra_setmeta_queries"] = ss.get("evaluations", 0)
    # growth: the diagram exports (spec/HpoExport.tla): node set, edge set, bag of name pairs; EXTRA-FINDING only
    eo = tlc(ctx, "mc/MC_Export.cfg", "mc/MC_Export.tla", workers=4)["out"]
    es = hv(ctx, "replay-export", **{"in": eo})
    ctx.extra["extra_export_cases"] = es.get("cases", 0)
    ctx.assumptions += ["replacement id 0 is excluded: the layout reserves 0 for 'no replacement'",
                        "ontologies must contain HP:0000001 and HP:0000118 (from_bytes applies the default categories)"]
    return finish(ctx)


def check_C08(ctx):
    ctx.rule = ("design: on every generated file TLC checks with the specification's own decoder that Decode(Encode(o,v)) = Restrict_v(o), that (sampled) proper prefixes, extensions and unsupported "
                "version bytes are rejected by the format itself; binding: the harness encoder must equal the TLA+ encoder byte for byte, the real decoder must decode every file "
                "(v1, v2, v3; two record orders) to exactly the projection the spec derives, and must never return Ok for ANY proper prefix (every offset), any of 256 one-byte extensions and "
                "several longer ones, any of the 254 unsupported version bytes, a relabelled version, a damaged magic; hang = violation; non-trivial as in C07")
    out = binary_lines(ctx)
    s = hv(ctx, "replay-binary", prop="C08", **{"in": out}, deep=1)
    if s.get("counters", {}).get("encoder_mismatch"):
        raise ToolError("harness encoder disagrees with the TLA+ encoder")
    ctx.traces += s.get("cases", 0)
    ctx.assumptions += ["'rejected' = Err or panic, as the property allows (documented panic); an abort or a hang would be reported"]
    return finish(ctx)


def check_C09(ctx):
    ctx.rule = ("TLC generates structured JAX file sets (hp.obo, phenotype.hpoa, genes_to_phenotype.txt / phenotype_to_genes.txt) for every ontology of the generator families "
                "(structure x obsolete/replaced_by, records x data-version incl. none, 9 name shapes incl. ': ', non-ASCII, >255 bytes) x 4 noise presets (NOT rows, DECIPHER rows, "
                "# comments, column header, [Typedef] stanzas, extra tags, extra columns, repeated rows, the 3 accepted gene-file headers, alternative tag order) x 3 record orders, "
                "checks that its writer and declarative reader agree, and emits them; the harness renders them verbatim and compares from_standard and from_standard_transitive "
                "with the projection the spec derives, and with the Builder and binary paths on the same facts; the 768 combinations of the kinds of noise and the cross product of the catalogues are covered as well.  "
                "impl->spec: random file sets outside the writer's image (free order of tag lines, Typedef stanzas anywhere, comments in the middle of phenotype.hpoa, NOT rows about annotated diseases, random DAGs of 3-40 / 120-300 terms) "
                "are loaded by the crate and TLC accepts the recorded load only if Describes(files) equals the loaded facts (TraceJax); non-trivial = a noisy preset or a random file set")
    outs = [tlc(ctx, "mc/MC_Jax.cfg", "mc/MC_Jax.tla", workers=14)["out"],
            # every combination of the eight kinds of noise and the three gene-file headers (768 presets) on six representative ontologies
            tlc(ctx, "mc/MC_JaxLattice.cfg", "mc/MC_Jax.tla", workers=12)["out"],
            # the cross product of the catalogues: structure (4 patterns x extra ids) x flags x records of every kind x release date x name shapes
            tlc(ctx, "mc/MC_JaxCross.cfg" if ctx.quick else "mc/MC_JaxCrossT.cfg", "mc/MC_Jax.tla", workers=12, timeout=3000)["out"]]
    s = hv(ctx, "replay-jax", prop="C09", **{"in": concat(ctx, outs, "c09-lines.txt")})
    ctx.traces += s.get("cases", 0)
    # impl -> spec: random file sets the writer cannot produce (free tag order, Typedef anywhere, comments in the middle, NOT rows about
    # annotated diseases, 3-40 terms, every 10th (thorough) 120-300 terms); Describes decides what they describe
    trace_jax(ctx, 144 if ctx.quick else 2400, big_every=(0 if ctx.quick else 10))
    ctx.assumptions += ["generator stays inside the documented envelope: one header line in gene files, is_a lines carry '! comment', one name per record id, annotated terms exist, 4-digit years"]
    return finish(ctx)


def check_C10(ctx):
    ctx.rule = ("TLC explores the arena machine (slot table + term vector with reserved slot 0) for every sequence of <=5 inserts over the border id classes "
                "{0, 1, inner, last id of the table, first id outside, far outside (u32::MAX)} incl. duplicates and out-of-range inserts, checking SlotBijective/Slot0Reserved/GetExact/LenAgrees/IterOnce; "
                "each sequence is replayed on the real Builder (two concretisations), lookups are compared for all probe ids and their neighbours, and for a sample of the behaviours hpo(id) is swept over "
                "EVERY id of 0..10^7+16 and the top 65536 ids of u32 (thorough: the entire u32 space on some); name lookups: every assignment of 6 names over a 2-letter alphabet to 3 diseases/genes "
                "(duplicates, empty name) x every query of length <=3, rendered in ASCII and multi-byte alphabets; non-trivial = at least 2 terms present / any name line")
    outs = [tlc(ctx, "mc/MC_Lookup.cfg", "mc/MC_Lookup.tla")["out"], tlc(ctx, "mc/MC_Names.cfg", "mc/MC_Names.tla")["out"]]
    tlaps(ctx, "ArenaInduction.tla")     # unbounded: the arena invariant is inductive for any table size; Get is exact
    allout = concat(ctx, outs, "c10-lines.txt")
    s = hv(ctx, "replay-lookup", prop="C10", **{"in": allout}, sweep_every=(40 if ctx.quick else 4), full_u32=(0 if ctx.quick else 1))
    ctx.traces += s.get("cases", 0)
    ctx.extra["full_id_space_sweeps"] = s.get("counters", {}).get("full_id_space_sweeps", 0)
    ctx.extra["full_u32_sweeps"] = s.get("counters", {}).get("full_u32_sweeps", 0)
    ctx.assumptions += ["inserting an id >= 10^7 panics before any mutation (modelled as InsertPanics); if the crate ever accepts such an id the check requires it to be found again"]
    return finish(ctx)


def extras_lines(ctx, big=True):
    """behaviours with pair queries and set queries: every DAG on 3 ids x annotation histories, 4-5 ids, simulated 8-id pipelines"""
    outs = [tlc(ctx, "mc/MC_Extras3q.cfg" if ctx.quick else "mc/MC_Extras3.cfg", "mc/MC_AnnotHist.tla", workers=14, timeout=1800)["out"]]
    outs.append(tlc(ctx, "mc/MC_Paths4.cfg", "mc/MC_AnnotHist.tla", workers=14, timeout=1800)["out"])
    if big:
        outs.append(tlc(ctx, "mc/Sim_FullExtras.cfg", "mc/MC_Full.tla", workers=4 if ctx.quick else 8, simulate=25 if ctx.quick else 300, depth=45)["out"])
    if not ctx.quick:
        outs.append(tlc(ctx, "mc/MC_Paths5.cfg", "mc/MC_AnnotHist.tla", workers=14, timeout=3000)["out"])
    return concat(ctx, outs, f"{ctx.prop}-extras-lines.txt")


def check_C11(ctx):
    ctx.rule = ("TLC derives for every ordered pair of terms of every explored ontology (all DAGs on 3-4 ids, 5 ids thorough, simulated 8-id pipelines) the upward distance (BFS layers), "
                "the distance (minimum over common ancestors-or-self of the summed upward distances) and checks PathsWellFormed; the harness compares distance_to_ancestor / distance_to_term "
                "(both argument orders) and the Distance similarity, and requires path_to_ancestor to be a chain of parent links of exactly the upward distance ending in the ancestor and "
                "path_to_term (distinct terms) to be a walk along parent/child links with exactly distance-many steps ending in the second term, absent exactly when there is no common ancestor; "
                "on recorded 50-70 term ontologies (long lineages next to shortcut edges) TLC validates the same conditions (TraceCore focus C11); non-trivial = at least one edge")
    allout = extras_lines(ctx)
    s = hv(ctx, "replay-sim", prop="C11", **{"in": allout})
    ctx.traces += s.get("cases", 0)
    ctx.extra["pair_queries"] = s.get("counters", {}).get("pair_queries", 0)
    trace_core(ctx, "C11", 10 if ctx.quick else 200)
    ctx.assumptions += ["for a term compared with itself only the distance (0) is constrained, as in the property"]
    return finish(ctx)


def check_C13(ctx):
    ctx.rule = ("TLC derives for EVERY subset of the terms of every explored ontology child_nodes, the gene/OMIM/ORPHA id unions and the aggregated information content arguments "
                "(HpoSetOps), and for ontologies with obsolete / replaced / modifier terms (OntGen pool loaded through from_bytes) without_modifier, without_obsolete, with_replaced_obsolete "
                "(incl. replacements colliding with members or pointing outside the ontology) and the category counts (HpoSetMeta); the harness compares the copying and the in-place variants, "
                "len / contains / iter / get.  spec/HpoSetMachine.tla models ONE HpoSet object living through a history of in-place (remove_modifier, remove_obsolete, "
                "replace_obsolete, extend) and copying operations: TLC explores every history of <= 2 (3 thorough) operations from every initial subset of four worlds and emits the "
                "observation (members, gene/OMIM/ORPHA unions, IC arguments, category counts) required after every step; the harness replays them on one mutable object; "
                "spec/HpoOntMachine.tla does the same for the ONTOLOGY whose modifier / category roots change after build_minimal (set_default_modifier, set_default_categories, modifier_mut / categories_mut "
                "insertions, clearing): every history of 3 operations, is_modifier / categories of every term and without_modifier / remove_modifier / categories of every subset after every step; "
                "non-trivial = at least one edge and one fact / every metadata case / a history that changes the members")
    allout = extras_lines(ctx, big=False)
    s = hv(ctx, "replay-sim", prop="C13", **{"in": allout})
    ctx.traces += s.get("cases", 0)
    ctx.extra["set_queries"] = s.get("counters", {}).get("set_queries", 0)
    so = tlc(ctx, "mc/MC_SetMeta.cfg", "mc/MC_SetMeta.tla", workers=4)["out"]
    ss = hv(ctx, "replay-setmeta", prop="C13", **{"in": so})
    ctx.traces += ss.get("cases", 0)
    # the HpoSet as an OBJECT: every history of <= 2 (3) in-place / copying operations from every initial subset of four 7-term worlds and from 8 large / deep member sets of a 44-term world (a chain of 40 terms: beyond the inline capacity of the id groups)
    # (replacement chains in both id directions, replacement colliding with a member, obsolete terms, a modifier below a phenotype term);
    # after every step every observer must return the pure function of the current members (stale caches, feedback inside in-place loops)
    from concurrent.futures import ThreadPoolExecutor
    def one(v):
        cfg = cfgfile(ctx, f"MC_SetMachine{v}", "mc/MC_SetMachine.tla", open(os.path.join(SPEC, "mc", f"MC_SetMachine{v}.cfg")).read().replace("MaxOps = 2", "MaxOps = %d" % (2 if ctx.quick else 3)))
        return tlc(ctx, cfg, "mc/MC_SetMachine.tla", workers=3, timeout=3000)["out"]
    with ThreadPoolExecutor(max_workers=4) as ex:
        mouts = list(ex.map(one, (1, 2, 3, 4, 5)))
    mo = concat(ctx, mouts, "c13-machine-lines.txt")
    wf = os.path.join(ctx.scratch, "c13-worlds.txt")       # the few world lines, read by every shard
    with open(mo, errors="replace") as fh, open(wf, "w") as w:
        for line in fh:
            if '\\"world\\"' in line:
                w.write(line)
    ms = hv(ctx, "replay-setmachine", prop="C13", **{"in": mo}, worlds=wf)
    ctx.traces += ms.get("cases", 0)
    ctx.extra["set_object_histories"] = ms.get("cases", 0)
    # the ONTOLOGY as an object: its modifier / category roots change (set_default_*, *_mut) between set operations; every history of
    # 3 operations after build_minimal, all terms and all 256 subsets observed after every step (spec/HpoOntMachine.tla)
    oo = tlc(ctx, cfgfile(ctx, "MC_OntMachine", "mc/MC_OntMachine.tla", open(os.path.join(SPEC, "mc", "MC_OntMachine.cfg")).read().replace("MaxOps = 2", "MaxOps = 3")), "mc/MC_OntMachine.tla", workers=6, timeout=3000)["out"]
    os_ = hv(ctx, "replay-ontmachine", prop="C13", **{"in": oo})
    ctx.traces += os_.get("cases", 0)
    ctx.extra["ontology_object_histories"] = os_.get("cases", 0)
    # impl -> spec: HpoSet operations on random subsets (up to 36 members) of recorded ontologies (6-16 terms; 52-70 in the thorough tier)
    trace_core(ctx, "C13", 36 if ctx.quick else 300, large_every=(0 if ctx.quick else 15))
    ctx.assumptions += ["a replacement id that does not resolve in the ontology cannot be iterated (documented panic); it is compared through contains() only and excluded from the object histories"]
    return finish(ctx)


def check_C12(ctx):
    ctx.rule = ("TLC explores the group machine (set + insertion log) for every insertion sequence of <=4 ids over a 5-id universe and every ordered pair of subsets "
                "(1024 pairs) with the results of union, intersection and adding each id, checking the set laws; the harness replays them on hpo::term::HpoGroup "
                "(insert return values, contains incl. neighbours, len, is_empty, get, strictly ascending iteration, the From<Vec>/From<HashSet>/FromIterator constructors, "
                "the three operand forms of | and &, + and | id) and demands the same set semantics of 400 random group pairs with sizes 0..500 across the inline capacity of 30 "
                "(nested, equal, touching, interleaved ranges); the ancestor queries of pairs of terms (common / union ancestors, with and without the terms) are validated by TLC "
                "on recorded ontologies incl. 'fan' ontologies that realise arbitrary group pairs as ancestor sets; non-trivial = every case")
    # design level: the merge loop, the intersection loop (shorter input iterated, binary search in the longer one) and insert as step machines;
    # loop invariants, termination and refinement of the set operations for every pair of sorted inputs over 1..5 (1..7 thorough)
    tlc(ctx, "mc/MC_GroupAlgo.cfg" if ctx.quick else "mc/MC_GroupAlgo7.cfg", "mc/MC_GroupAlgo.tla", workers=4, coverage=not ctx.quick)
    tlaps(ctx, "MergeInduction.tla")     # unbounded: for arbitrary ascending inputs the merge invariant is inductive and the result is the union in ascending order
    out = tlc(ctx, "mc/MC_Group.cfg", "mc/MC_Group.tla", workers=4)["out"]
    s = hv(ctx, "replay-group", prop="C12", **{"in": out})
    ctx.traces += s.get("cases", 0)
    ctx.extra["big_group_pairs"] = s.get("counters", {}).get("big_group_pairs", 0)
    # impl -> spec: random groups of 0..200 insertions (duplicates, ids up to 10^7) built and combined by the crate, replayed on the group machine
    trace_group(ctx, 120 if ctx.quick else 1500)
    # ancestor queries = set algebra of ancestor sets: exhaustive small ontologies + recorded large / fan ontologies
    es = hv(ctx, "replay-sim", prop="C12", **{"in": extras_lines(ctx)})
    ctx.traces += es.get("cases", 0)
    trace_core(ctx, "C12", 10 if ctx.quick else 150)
    ctx.assumptions += ["set semantics is size independent, so it is also demanded of groups far larger than TLC's universe"]
    return finish(ctx)


def check_C19(ctx):
    ctx.rule = ("TLC enumerates every acyclic is_a relation over every subset of {1,50,118,300} and {0,1,118,119} (5 ids thorough), i.e. any number of top-level branches, terms below "
                "several categories, below both a modifier and a phenotype branch, HP:1 not being the root, and subsets lacking HP:1 or HP:118, and derives modifier roots, categories, "
                "is_modifier and the ascending category list of every term; each is built through Builder::build_with_defaults and through from_bytes (also with every non-root term flagged obsolete: the classification follows the links alone) and compared; "
                "MC_CatsDeep adds two 75-term worlds with chains of 35 terms below a category and below a modifier root (more than 30 ancestors; category ids above / below the chain ids) "
                "(missing root => error, not panic, not success); non-trivial = both roots present and at least one category")
    outs = [tlc(ctx, "mc/MC_CatsA.cfg", "mc/MC_Cats.tla", workers=8)["out"], tlc(ctx, "mc/MC_CatsB.cfg", "mc/MC_Cats.tla", workers=8)["out"],
            tlc(ctx, "mc/MC_CatsDeep.cfg", "mc/MC_CatsDeep.tla", workers=2)["out"]]      # terms with more than 30 ancestors, two id layouts
    if not ctx.quick:
        outs.append(tlc(ctx, "mc/MC_Cats5.cfg", "mc/MC_Cats.tla", workers=14, timeout=1800)["out"])
    s = hv(ctx, "replay-cats", prop="C19", **{"in": concat(ctx, outs, "c19-lines.txt")})
    ctx.traces += s.get("cases", 0)
    # impl -> spec: the classification of every term of recorded random ontologies built with the defaults (TraceCore focus C19)
    trace_core(ctx, "C19", 36 if ctx.quick else 300, large_every=0)
    return finish(ctx)


def check_C20(ctx):
    ctx.rule = ("TLC enumerates every text of <=5 characters over {H,P,:,0,1,9,x,blank,e-acute (2 bytes),emoji (4 bytes)} with the result parsing must give "
                "(value or error; byte offset 3 inside a character is an error, never a panic) and checks ParseChar and the inverse laws on border ids; MC_TermIdT adds template texts: the prefix plus 1..10 digits (three digit patterns) "
                "in which one position of the tail or the prefix is replaced by each printable ASCII character, tab, newline, NUL, DEL and six multi-byte characters incl. non-ASCII decimal digits; the harness replays "
                "HpoTermId::try_from under catch_unwind, compares Display / to_be_bytes / from([u8;4]) / from_u32, adds the cases beyond TLC's 32-bit integers "
                "(4294967295, 4294967296, 200-digit and 300-character inputs, digit strings congruent to small numbers modulo 2^32 / 2^64 / 2^128 / 2^256), call sequences over related texts (MC_TermIdSeq: the result never depends on earlier calls) and sweeps the inverse laws over every id 0..10^7+16 and the top of u32; "
                "non-trivial = parses, or contains a multi-byte character")
    outs = [tlc(ctx, "mc/MC_TermId.cfg" if ctx.quick else "mc/MC_TermId6.cfg", "mc/MC_TermId.tla", workers=8, timeout=1800)["out"]]
    # "digits at every position": prefix + 1..10 digits with one position replaced by every printable ASCII / multi-byte character
    outs.append(tlc(ctx, "mc/MC_TermIdT.cfg", "mc/MC_TermIdT.tla", workers=4, timeout=1800)["out"])
    # parsing is a function of the text: every call sequence of length 2 (3 thorough) over related texts (a number with 7..10 digits and the
    # text made of its first seven digits), replayed on one thread
    outs.append(tlc(ctx, cfgfile(ctx, "MC_TermIdSeq", "mc/MC_TermIdSeq.tla", open(os.path.join(SPEC, "mc", "MC_TermIdSeq.cfg")).read().replace("SeqLen = 2", "SeqLen = %d" % (2 if ctx.quick else 3))),
                    "mc/MC_TermIdSeq.tla", workers=4, timeout=1800)["out"])
    out = concat(ctx, outs, "c20-lines.txt")
    s = hv(ctx, "replay-termid", prop="C20", **{"in": out})
    # the call sequences once more in ONE process in TLC's order (the shards above interleave them with all other texts)
    s2 = hv(ctx, "replay-termid", prop="C20", **{"in": outs[-1]}, procs=1)
    ctx.traces += s2.get("cases", 0)
    ctx.traces += s.get("cases", 0)
    ctx.extra["ids_swept"] = s.get("counters", {}).get("ids_swept", 0)
    ctx.assumptions += ["a leading '+' (accepted by Rust's integer parser) is outside the generator; the three-byte prefix is not inspected, as the property states"]
    return finish(ctx)


def check_C17(ctx):
    ctx.rule = ("spec/HpoLinkage.tla is the merge machine (live clusters, distance matrix, next index, merges, cluster weights); TLC explores it for every distance matrix over a small "
                "value set (N=4; N=5 for average in the thorough tier) in the modes single / complete / average and, for union, for every assignment of distinct additive weights with the "
                "user distance |W(A)-W(B)| applied to the united sets; invariants ClosestFirst, SizesAddUp, TreeShape, MachineInSet; ties make the machine nondeterministic and TLC emits "
                "the set of ALL allowed dendrograms with their leaf order.  The harness runs Linkage::{single,complete,average,union} on singleton HpoSets with a recording callback and "
                "requires: the returned merges are one of the allowed sequences (distance exact, size exact), into_cluster() = cluster(), binary-tree shape, indicies() is a permutation and the "
                "mention order, the first callback call offers every unordered pair once, union calls it once per merge with the union against every live set.  Union mode is also explored with "
                "OVERLAPPING inputs (every assignment of non-empty subsets of three weighted items), the arithmetic modes with infinite distances (N = 2, 3) and at N = 5.  impl->spec: random runs recorded "
                "from the crate (2..12 inputs, and 31..100 inputs for single / complete / union; tie-free / tied / infinite entries, overlapping sets) are validated step by step against the same machine (spec/trace/TraceLinkage.tla: every recorded merge must be "
                "a Merge step - a closest pair at the reported distance and size -, leaf order, callback pairs); non-trivial = every case")
    modes = ["single", "average", "union", "overlap3", "single_inf2", "complete_inf2", "average_inf2", "single_inf3", "complete_inf3", "average_inf3", "complete5"]
    if not ctx.quick:
        modes += ["complete", "average5", "overlap4", "single5"]
    outs = [tlc(ctx, f"mc/MC_Linkage_{m}.cfg", "mc/MC_Linkage.tla", workers=8, timeout=1800)["out"] for m in modes]
    s = hv(ctx, "replay-linkage", prop="C17", **{"in": concat(ctx, outs, "c17-lines.txt")})
    ctx.traces += s.get("cases", 0)
    # impl -> spec: larger random runs (2..12 inputs, mostly tie-free matrices, overlapping sets in union mode) against the same machine
    trace_linkage(ctx, 400 if ctx.quick else 6000, big_every=(50 if ctx.quick else 40))
    ctx.assumptions += ["distances are small dyadic rationals, exact in f32; ties are allowed and the crate's choice must be one of the spec's"]
    return finish(ctx)


def check_C18(ctx):
    ctx.rule = ("spec/HpoCompare.tla defines Ontology::compare as set differences of two abstract ontologies (added/removed by id; changed = same id and name, direct parents, obsolete flag or "
                "effective replacement differ; records: name or direct term set) and TLC checks CompareLaws (self-compare empty, swap symmetry) on every ordered pair of a pool of generated "
                "ontologies (72 quick / 288 thorough: extra terms, four edge patterns incl. two with equally many but different parents, obsolete/replacement variants, gene/disease selections, name shapes) and emits both sides as v3 bytes with the "
                "expected report.  spec/mc/MC_CompareEdits.tla is an EDIT-SCRIPT machine: from a base ontology (a parentless non-root term listed after terms with parents, a multi-parent term, records with several / one / no "
                "terms, equal ids across kinds) every action applies one edit (rename, add / remove parent, flip obsolete, set replacement, add / remove term, annotate / unannotate, rename / add / remove record); every state "
                "within 2 (3) edits is compared with the base; invariants NothingIffEqual, SingleEditVisible.  The pool also holds ontologies with 300-byte disease names (round trip must stay silent).  The harness loads both, calls compare and checks every list and delta exactly, plus the laws on the real code: compare(l,l) and compare(l, roundtrip(l)) empty "
                "in both directions, swapping swaps added/removed; non-trivial = the two sides differ")
    co = tlc(ctx, "mc/MC_CompareQuick.cfg" if ctx.quick else "mc/MC_Compare.cfg", "mc/MC_Compare.tla", workers=14, timeout=1800)["out"]
    # edit scripts: the base ontology against every ontology reachable by <= 2 (3) single edits of every kind (MC_CompareEdits)
    eo = tlc(ctx, cfgfile(ctx, "MC_CompareEdits", "mc/MC_CompareEdits.tla", open(os.path.join(SPEC, "mc", "MC_CompareEdits.cfg")).read().replace("MaxEdits = 2", "MaxEdits = %d" % (2 if ctx.quick else 3))),
             "mc/MC_CompareEdits.tla", workers=14, timeout=3000)["out"]
    # the same machine with 301-byte names that differ in their last byte only (term edits; realised through hp.obo)
    lo = tlc(ctx, "mc/MC_CompareEditsLong.cfg", "mc/MC_CompareEdits.tla", workers=8, timeout=3000)["out"]
    co = concat(ctx, [co, eo, lo], "c18-lines.txt")
    s = hv(ctx, "replay-compare", prop="C18", **{"in": co})
    ctx.traces += s.get("cases", 0)
    return finish(ctx)


def check_C15(ctx):
    ctx.rule = ("spec/HpoReject.tla extends the Builder machine with the calls that must be rejected: add_parent with an absent parent or child and annotate_* with an absent term are "
                "stuttering steps of the builder state; TLC explores every complete lifecycle (every arrangement of every subset of 3 ids as terms, <=2 add_parent calls and <=2 record-level "
                "calls (thorough: 3 + 2 and 2 + 3) over present AND absent ids, rejected and successful calls interleaved; plus simulated longer lifecycles over 4 ids with up to 5 + 5 calls) with invariants TypeOK, NoDangling, InverseRel, Resolvable, ClosureExact, LinkExact and the "
                "action properties RejectedStutters and ReplyRight, and emits each history with the reply of every call and the required projection.  The harness issues the same calls under "
                "3 id layouts, compares every reply, walks the complete read API (resolving iterators, id lists, to_hpo_set, as_bytes) under catch_unwind, compares the projection, and compares with "
                "the ontology built from the successful calls alone.  impl->spec: random runs with rejected calls are recorded from the crate and validated against TraceCore (focus C15: rejected "
                "events must be stuttering steps with a really absent term, the built projection must equal the specification's); non-trivial = the history contains a rejected call")
    if ctx.quick:
        out = concat(ctx, [tlc(ctx, "mc/MC_Reject.cfg", "mc/MC_Reject.tla", workers=14, timeout=3000)["out"],
                           # simulated longer lifecycles (4 ids, up to 5 + 5 calls): 2,000 random histories
                           tlc(ctx, "mc/MC_RejectSim.cfg", "mc/MC_Reject.tla", workers=4, simulate=500, depth=40, timeout=1800)["out"]], "c15-lines.txt")
    else:
        # (3 add_parent, 2 record-level calls) and (2, 3): 0.7 M + 1.1 M states.  (3, 3) over four record ids is 43 M states / 16 GB of
        # histories - beyond what one check run should write to disk
        # + simulated LONGER lifecycles: 4 ids, up to 5 add_parent and 5 record-level calls (48,000 random histories; invariants checked on every state)
        out = concat(ctx, [tlc(ctx, "mc/MC_RejectE3.cfg", "mc/MC_Reject.tla", workers=14, timeout=3000)["out"],
                           tlc(ctx, "mc/MC_RejectF3.cfg", "mc/MC_Reject.tla", workers=14, timeout=3000)["out"],
                           tlc(ctx, "mc/MC_RejectSim.cfg", "mc/MC_Reject.tla", workers=8, simulate=6000, depth=40, timeout=3000)["out"]], "c15-lines.txt")
    s = hv(ctx, "replay-reject", prop="C15", **{"in": out})
    ctx.traces += s.get("cases", 0)
    ctx.extra["rejected_calls_replayed"] = s.get("counters", {}).get("rejected_calls", 0)
    trace_core(ctx, "C15", 96 if ctx.quick else 480, reject=1)
    ctx.assumptions += ["add_parent calls that would create a self loop or a cycle are outside the generator (as for C01: the crate does not check acyclicity)"]
    return finish(ctx)


def check_C16(ctx):
    ctx.rule = ("spec/mc/MC_Order.tla fixes a fact set (3 terms, every acyclic is_a relation, every set of <=2 (3 thorough) annotation facts over 2 genes + 1 OMIM (+1 ORPHA thorough) disease) and lets the Builder "
                "machine of HpoCore receive terms, links and facts in EVERY order; invariants OrderFree / CachesOrderFree: projection, caches and (n, N) of the built state equal a pure function of "
                "the fact set.  One REPLAY line per order.  The harness issues the calls in that order, in canonical and in reversed order, through the Builder, through binary v3/v2 files whose "
                "records and id lists follow those orders or a random permutation, and through text files with permuted stanzas and rows; every ontology must equal the specification's projection and "
                "all must be observationally identical (whole read API; iteration order excluded).  Beyond TLC's sizes: random fact sets of 40-90 terms (multi-parent DAGs, obsolete flags, 30-120 facts) and, every third one, DEEP sets of 150-260 terms with a backbone chain through all of them, "
                "and one fact set of more than 66,000 terms (two supply orders, Builder) "
                "under 4 orders (canonical, reversed, 2 random) x Builder / binary / text, compared pairwise; non-trivial = at least two links or facts to permute")
    out = tlc(ctx, "mc/MC_Order.cfg" if ctx.quick else "mc/MC_OrderThorough.cfg", "mc/MC_Order.tla", workers=14, timeout=3000)["out"]
    s = hv(ctx, "replay-order", prop="C16", big=(32 if ctx.quick else 400), stride=(1 if ctx.quick else 1), all_concs=(0 if ctx.quick else 1), **{"in": out})
    ctx.traces += s.get("cases", 0)
    ctx.extra["big_fact_sets"] = s.get("counters", {}).get("big_fact_sets", 0)
    ctx.extra["huge_fact_sets"] = s.get("counters", {}).get("huge_fact_sets", 0)
    ctx.assumptions += ["one name per record id and one replacement per term, as the property states; the Builder API cannot set obsolete flags, so flagged terms are permuted on the binary and text paths only"]
    return finish(ctx)


def check_C14(ctx):
    ctx.rule = ("spec/HpoSub.tla defines sub_ontology as a nondeterministic function (refused iff a leaf is not the root or below it; retained terms = leaves + ONE shortest chain per leaf; induced links; "
                "record kept iff directly annotated to a retained non-modifier term, then restricted to the retained direct terms; closure/inheritance/IC via ProjPure) and TLC checks SubSane for every "
                "allowed result (root and leaves retained, only terms on shortest chains, original leaf-root distance, acyclic) on every acyclic relation over {1,2,3,118} (thorough: + every relation over "
                "{1,118,2,3,4} compatible with that order), with and without the documented defaults, every root, every non-empty leaf set, with one gene per term, diseases on several terms and a "
                "record without terms, and on a WIDE 64-term source with calls that retain more than 30 phenotype terms (a gene with 45 direct terms, genes on neighbouring leaves); it emits the reply and the SET of allowed results.  The harness builds the source through the Builder (3 id layouts) and through a binary file with obsolete/"
                "replacement flags, calls sub_ontology (leaves as given; reversed + duplicated; one layout with term / record names of more than 255 bytes) and requires the error, or one of the allowed results compared through the whole read API (names, flags, "
                "links, closure, records, inherited links, IC) and equal leaf-root distances.  impl->spec: random runs (6-16 and 52-70 terms; targeted multi-parent, modifier-root and "
                "modifier-descendant leaves) are validated by TraceCore focus C14; non-trivial = an accepted call retaining >= 2 terms")
    outs = [tlc(ctx, "mc/MC_Sub.cfg", "mc/MC_Sub.tla", workers=14, timeout=3000)["out"]]
    # beyond the inline capacity (30) of the crate's id groups: a wide source (64 terms), calls retaining > 30 phenotype terms, a gene with 45 direct terms
    outs.append(tlc(ctx, "mc/MC_SubWide.cfg", "mc/MC_SubWide.tla", workers=6, timeout=3000)["out"])
    if not ctx.quick:
        outs.append(tlc(ctx, "mc/MC_Sub5.cfg", "mc/MC_Sub.tla", workers=14, timeout=6000)["out"])
    s = hv(ctx, "replay-sub", prop="C14", **{"in": concat(ctx, outs, "c14-lines.txt")})
    ctx.traces += s.get("cases", 0)
    for k in ("must_be_refused", "several_allowed_results"):
        ctx.extra[k] = s.get("counters", {}).get(k, 0)
    # small runs only in the quick tier: validating a 52-70 term run with every conjunct of SubMatches costs TLC about a minute per run
    trace_core(ctx, "C14", 96 if ctx.quick else 384, large_every=(0 if ctx.quick else 13), fan_every=0)
    ctx.assumptions += ["'modifier term' is the crate's HpoTerm::is_modifier: the term is, or descends from, a modifier root; an ontology without the documented defaults has no modifier roots",
                        "the hpo_version of the result is not constrained (the property does not mention it)"]
    return finish(ctx)


CHECKS = {"C14": check_C14, "C16": check_C16, "C15": check_C15, "C17": check_C17, "C18": check_C18, "C11": check_C11, "C13": check_C13, "C12": check_C12, "C19": check_C19, "C20": check_C20, "C10": check_C10, "C09": check_C09, "C07": check_C07, "C08": check_C08, "C01": check_C01, "C02": check_C02, "C03": check_C03, "C04": check_C04, "C05": check_C05, "C06": check_C06}


def run_check(prop, tier, seed):
    if prop not in CHECKS:
        log(f"no check for {prop}")
        return 2
    ctx = Ctx(prop, tier, seed)
    try:
        build_harness()
        return CHECKS[prop](ctx)
    except ToolError as e:
        log(f"TOOL-ERROR: {e}")
        return 2
    except subprocess.TimeoutExpired as e:
        log(f"TOOL-ERROR: timeout {e}")
        return 2
    finally:
        ctx.cleanup()


def setup():
    try:
        build_harness()
    except ToolError as e:
        log(f"TOOL-ERROR: {e}")
        return 2
    bad = 0
    tmpd = tempfile.mkdtemp(prefix="hpo-verif-sany.")
    for f in sorted(glob.glob(os.path.join(SPEC, "*.tla")) + glob.glob(os.path.join(SPEC, "mc", "*.tla")) + glob.glob(os.path.join(SPEC, "trace", "*.tla"))):
        r = subprocess.run(["java", "-Djava.io.tmpdir=" + tmpd, "-cp", TLA_CP, "tla2sany.SANY", f], cwd=SPEC, stdout=subprocess.PIPE, stderr=subprocess.STDOUT, text=True)
        okay = r.returncode == 0 and "Semantic errors" not in r.stdout and "*** Errors" not in r.stdout
        log(f"[sany] {os.path.relpath(f, VERIF)}: {'ok' if okay else 'FAILED'}")
        if not okay:
            bad += 1
            log(r.stdout[-1500:])
    shutil.rmtree(tmpd, ignore_errors=True)
    return 2 if bad else 0


def replay(path):
    try:
        build_harness()
    except ToolError as e:
        log(f"TOOL-ERROR: {e}")
        return 2
    v = json.load(open(path))
    if v.get("cmd") == "recorder-died":
        ctx = Ctx(v["property"], "quick", int(v.get("seed", 1)))
        try:
            n0 = len(ctx.violations)
            trace_core(ctx, v["property"], int(v["runs"]), reject=int(v.get("reject", 0)), large_every=v.get("large_every"), fan_every=v.get("fan_every", 5))
            if len(ctx.violations) > n0:
                log("reproduced")
                log(f"VIOLATION property={v['property']} replay={path}")
                return 1
            log("not reproduced on the current tree")
            return 0
        except ToolError as e:
            log(f"TOOL-ERROR: {e}")
            return 2
        finally:
            ctx.cleanup()
    if v.get("cmd") == "trace-linkage":
        ctx = Ctx("C17", "quick", int(v.get("seed", 1)))
        try:
            rej = trace_linkage(ctx, int(v["runs"]), int(v.get("max_n", 12)), only=(v["n"], v["mode"]), big_every=int(v.get("big_every", 0)))
            if rej:
                log(f"reproduced: the specification rejects the recorded Linkage run")
                log(f"VIOLATION property=C17 replay={path}")
                return 1
            log("not reproduced on the current tree")
            return 0
        except ToolError as e:
            log(f"TOOL-ERROR: {e}")
            return 2
        finally:
            ctx.cleanup()
    if v.get("cmd") == "trace-group":
        ctx = Ctx("C12", "quick", int(v.get("seed", 1)))
        try:
            if not trace_group(ctx, int(v["runs"])):
                log("reproduced: the specification rejects the recorded group events")
                log(f"VIOLATION property=C12 replay={path}")
                return 1
            log("not reproduced on the current tree")
            return 0
        except ToolError as e:
            log(f"TOOL-ERROR: {e}")
            return 2
        finally:
            ctx.cleanup()
    if v.get("cmd") == "trace-jax":
        ctx = Ctx("C09", "quick", int(v.get("seed", 1)))
        try:
            rej = trace_jax(ctx, int(v["runs"]), int(v.get("big_every", 0)), only_run=v.get("run"))
            if rej:
                log("reproduced: the specification rejects the recorded load of the random file set")
                log(f"VIOLATION property=C09 replay={path}")
                return 1
            log("not reproduced on the current tree")
            return 0
        except ToolError as e:
            log(f"TOOL-ERROR: {e}")
            return 2
        finally:
            ctx.cleanup()
    if v.get("cmd") in ("trace-core", "trace-binary"):
        return replay_trace(path, v)
    r = subprocess.run([HV, "replay-one", "--file", path])
    if r.returncode == 101:
        # an uncaught Rust panic of the harness itself (e.g. a replay file it cannot read), not an outcome of the code under test
        log("TOOL-ERROR: hv replay-one panicked (run it with HV_PANIC_VERBOSE=1 RUST_BACKTRACE=1 to see where)")
        return 2
    if r.returncode not in (0, 1, 2):
        # the replayed case kills the process (abort / stack overflow in the code under test): that IS the recorded outcome
        log("reproduced: the process replaying the case died (signal / abort)")
        log(f"VIOLATION property={v.get('property', '?')} replay={path}")
        return 1
    return r.returncode


def replay_trace(path, v):
    prop = v["property"]
    ctx = Ctx(prop, "quick", int(v.get("seed", 1)))
    try:
        if v["cmd"] == "trace-core":
            tf = os.path.join(ctx.scratch, "replay.ndjson")
            hv(ctx, "record", trace=tf, runs=int(v["run"]) + 1, only_run=v["run"], large_every=v.get("large_every", 10), fan_every=v.get("fan_every", 5), reject=v.get("reject", 0))
            ok, line_no = tlc_trace(ctx, f"trace/TraceCore{prop}.cfg", "trace/TraceCore.tla", tf)
        else:
            src = os.path.join(ctx.scratch, "line.txt")
            with open(src, "w") as fh:
                fh.write('<<"REPLAY", %s>>\n' % json.dumps(json.dumps(v["line"])))
            dump = os.path.join(ctx.scratch, "dump")
            hv(ctx, "replay-binary", prop="C07", **{"in": src}, dump=dump, procs=1)
            recs, _ = gather(dump)
            tf = os.path.join(ctx.scratch, "replay.ndjson")
            open(tf, "w").write("\n".join(r for r in recs if json.loads(r)["src"] == v.get("src")) + "\n")
            ok, line_no = tlc_trace(ctx, "trace/TraceBinary.cfg", "trace/TraceBinary.tla", tf)
        if ok:
            log("not reproduced on the current tree")
            return 0
        log(f"reproduced: the specification rejects the recorded trace at line {line_no}")
        log(f"VIOLATION property={prop} replay={path}")
        return 1
    except ToolError as e:
        log(f"TOOL-ERROR: {e}")
        return 2
    finally:
        ctx.cleanup()


def main(argv):
    if not argv:
        print(__doc__)
        return 2
    if argv[0] == "setup":
        return setup()
    if argv[0] == "replay":
        return replay(argv[1])
    if argv[0] == "selftest":
        import hvselftest
        try:
            return hvselftest.run(full="--full" in argv)
        except ToolError as e:
            log(f"TOOL-ERROR: {e}")
            return 2
    prop = argv[0]
    tier = os.environ.get("VERIF_TIER", "quick")
    seed = int(os.environ.get("VERIF_SEED", "1"))
    i = 1
    while i < len(argv):
        if argv[i] == "--tier":
            tier = argv[i + 1]; i += 2
        elif argv[i] == "--seed":
            seed = int(argv[i + 1]); i += 2
        else:
            i += 1
    if tier not in ("quick", "thorough"):
        tier = "quick"
    return run_check(prop, tier, seed)
